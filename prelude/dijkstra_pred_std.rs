// ---- prelude (unit dijkstra_pred only): assumed std contract, restates rustdoc ----
/// rustdoc `slice::reverse`: "Reverses the order of elements in the slice, in place."
pub assume_specification<T> [<[T]>::reverse] (s: &mut [T])
    ensures final(s)@ == old(s)@.reverse();
