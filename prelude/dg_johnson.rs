// ---- E2 (variant): opaque digraph `Dgj` standing for any `D: FilterVertices + Order + OutNeighbors + Vertices`
// ---- (Johnson75's operand and the sub-digraphs it builds with `filter_vertices`). The vertex set is ANY finite set of
// ---- usize ids (sub-digraphs are not contiguous); `contiguous()` says it is 0..order. Its methods carry the TRAIT
// ---- CONTRACT (assumed for each representation unless that representation's method is proved against the same text).
#[verifier::external_body]
struct Dgj { _p: () }

// ---- what a `P: Fn(usize) -> bool` predicate says (closures are known through their requires/ensures only, and
// ---- `f.ensures(args, r)` is only a NECESSARY condition for "f(args) returned r") ----
spec fn fv_callable<P: Fn(usize) -> bool>(f: P) -> bool { forall|v: usize| #[trigger] f.requires((v,)) }
/// "calling f on v can return r"
spec fn fv_says<P: Fn(usize) -> bool>(f: P, v: usize, r: bool) -> bool { f.ensures((v,), r) }
/// the predicate is a function of its argument
spec fn fv_det<P: Fn(usize) -> bool>(f: P) -> bool {
    forall|v: usize, r1: bool, r2: bool| #[trigger] fv_says(f, v, r1) && #[trigger] fv_says(f, v, r2) ==> r1 == r2
}
/// the predicate can accept / can reject vertex x
spec fn fv_yes<P: Fn(usize) -> bool>(f: P, x: int) -> bool { 0 <= x <= usize::MAX && fv_says(f, x as usize, true) }
spec fn fv_no<P: Fn(usize) -> bool>(f: P, x: int) -> bool { 0 <= x <= usize::MAX && fv_says(f, x as usize, false) }

impl Dgj {
    /// vertex set V: any finite set of usize ids (a vstd `Set` is finite)
    uninterp spec fn verts(&self) -> Set<int>;
    /// arc relation A
    uninterp spec fn has(&self, u: int, v: int) -> bool;
    /// digraph validity: V is a finite set of usize ids whose size fits a usize (`Order::order` returns usize), arcs join
    /// distinct vertices of V
    spec fn wf(&self) -> bool {
        &&& self.verts().len() <= usize::MAX
        &&& forall|x: int| #[trigger] self.verts().contains(x) ==> 0 <= x <= usize::MAX
        &&& forall|u: int, v: int| #[trigger] self.has(u, v) ==> self.verts().contains(u) && self.verts().contains(v) && u != v
    }
    /// the order |V|
    spec fn ord(&self) -> int { self.verts().len() as int }
    /// V == 0..order (what `AdjacencyMap` generators / `From` conversions produce; the hypothesis of C10)
    spec fn contiguous(&self) -> bool {
        forall|x: int| #[trigger] self.verts().contains(x) <==> 0 <= x < self.ord()
    }

    /// Order::order: the number of vertices
    #[verifier::external_body]
    fn order(&self) -> (r: usize)
        requires self.wf(),
        ensures r == self.verts().len(),
    { unimplemented!() }

    /// OutNeighbors::out_neighbors: exactly the out-neighbours of u, no repeats (documented: panics if u is not in the digraph)
    #[verifier::external_body]
    fn out_neighbors(&self, u: usize) -> (r: impl Iterator<Item = usize> + use<'_>)
        requires self.verts().contains(u as int),
        ensures
            r.obeys_prophetic_iter_laws(),
            r.decrease() is Some,
            r.remaining().no_duplicates(),
            forall|v: usize| #![trigger self.has(u as int, v as int)] self.has(u as int, v as int) ==> r.remaining().contains(v),
            forall|i: int| 0 <= i < r.remaining().len() ==> self.has(u as int, #[trigger] r.remaining()[i] as int),
    { core::iter::empty() }

    /// Vertices::vertices: exactly the members of V, each once, in ascending order
    #[verifier::external_body]
    fn vertices(&self) -> (r: impl Iterator<Item = usize> + use<'_>)
        ensures
            r.obeys_prophetic_iter_laws(),
            r.decrease() is Some,
            forall|i: int, j: int| 0 <= i < j < r.remaining().len() ==> #[trigger] r.remaining()[i] < #[trigger] r.remaining()[j],
            forall|i: int| 0 <= i < r.remaining().len() ==> self.verts().contains(#[trigger] r.remaining()[i] as int),
            forall|v: usize| #![trigger self.verts().contains(v as int)] self.verts().contains(v as int) ==> r.remaining().contains(v),
    { core::iter::empty() }

    /// FilterVertices::filter_vertices: "Return the subgraph with the vertices that satisfy the predicate. # Panics: Panics
    /// if the subgraph has zero vertices."  The induced sub-digraph: V' = { v in V | predicate(v) }, A' = the arcs of A
    /// between vertices of V'.  The predicate must be callable on every id and be a function of its argument; "predicate(v)
    /// returned true / false" is rendered by fv_yes / fv_no (a kept vertex was accepted, a dropped vertex was rejected).
    #[verifier::external_body]
    fn filter_vertices<P: Fn(usize) -> bool>(&self, predicate: P) -> (r: Dgj)
        requires
            self.wf(),
            self.verts().len() >= 1,   // a digraph has at least one vertex (AdjacencyMap::wf; rep_trait_contracts_fv::lemma_map_wf_gap)
            fv_callable(predicate),
            fv_det(predicate),
        ensures
            forall|x: int| #[trigger] r.verts().contains(x) ==> self.verts().contains(x) && fv_yes(predicate, x),
            forall|x: int| #[trigger] self.verts().contains(x) && !r.verts().contains(x) ==> fv_no(predicate, x),
            forall|u: int, v: int| #[trigger] r.has(u, v) ==> self.has(u, v) && fv_yes(predicate, u) && fv_yes(predicate, v),
            forall|u: int, v: int| #[trigger] self.has(u, v) && !r.has(u, v) ==> fv_no(predicate, u) || fv_no(predicate, v),
            r.verts().len() >= 1,
    { unimplemented!() }
}
