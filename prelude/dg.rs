// ---- E2: opaque digraph `Dg` standing for any `D: Order + OutNeighbors + ...`; its methods carry the TRAIT CONTRACT ----
// (assumed for each representation unless that representation's method is proved against the same text; see evidence)
#[verifier::external_body]
struct Dg { _p: () }

impl Dg {
    /// |V|, with V = 0..ord
    uninterp spec fn ord(&self) -> nat;
    /// arc relation A
    uninterp spec fn has(&self, u: int, v: int) -> bool;
    /// digraph validity: at least one vertex, arcs join distinct vertices of V
    spec fn wf(&self) -> bool {
        &&& self.ord() > 0
        &&& self.ord() <= usize::MAX
        &&& forall|u: int, v: int| #[trigger] self.has(u, v) ==> 0 <= u < self.ord() && 0 <= v < self.ord() && u != v
    }

    #[verifier::external_body]
    fn order(&self) -> (r: usize)
        ensures r == self.ord(),
    { unimplemented!() }

    #[verifier::external_body]
    fn contiguous_order(&self) -> (r: usize)
        ensures r == self.ord(),
    { unimplemented!() }

    /// OutNeighbors::out_neighbors: exactly the out-neighbours of u, no repeats (documented: panics if u is not in the digraph)
    #[verifier::external_body]
    fn out_neighbors(&self, u: usize) -> (r: impl Iterator<Item = usize> + use<'_>)
        requires u < self.ord(),
        ensures
            r.obeys_prophetic_iter_laws(),
            r.decrease() is Some,
            r.remaining().no_duplicates(),
            forall|v: usize| self.has(u as int, v as int) ==> r.remaining().contains(v),
            forall|i: int| 0 <= i < r.remaining().len() ==> self.has(u as int, #[trigger] r.remaining()[i] as int),
    { core::iter::empty() }

    /// Vertices::vertices: 0..order ascending
    #[verifier::external_body]
    fn vertices(&self) -> (r: impl Iterator<Item = usize> + use<'_>)
        ensures
            r.obeys_prophetic_iter_laws(),
            r.decrease() is Some,
            r.remaining().len() == self.ord(),
            forall|i: int| 0 <= i < r.remaining().len() ==> #[trigger] r.remaining()[i] == i,
    { core::iter::empty() }

    /// HasArc::has_arc: total
    #[verifier::external_body]
    fn has_arc(&self, u: usize, v: usize) -> (r: bool)
        ensures r == self.has(u as int, v as int),
    { unimplemented!() }

    /// Arcs::arcs: every arc exactly once, in ascending lexicographic order
    #[verifier::external_body]
    fn arcs(&self) -> (r: impl Iterator<Item = (usize, usize)> + use<'_>)
        ensures
            r.obeys_prophetic_iter_laws(),
            r.decrease() is Some,
            r.remaining().no_duplicates(),
            forall|u: usize, v: usize| self.has(u as int, v as int) ==> r.remaining().contains((u, v)),
            forall|i: int| 0 <= i < r.remaining().len() ==> self.has((#[trigger] r.remaining()[i]).0 as int, r.remaining()[i].1 as int),
            forall|i: int, j: int| 0 <= i < j < r.remaining().len() ==> lex_lt(#[trigger] r.remaining()[i], #[trigger] r.remaining()[j]),
    { core::iter::empty() }
}

spec fn lex_lt(a: (usize, usize), b: (usize, usize)) -> bool { a.0 < b.0 || (a.0 == b.0 && a.1 < b.1) }
