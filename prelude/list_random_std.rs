// ---- prelude (unit list_random only): iterator sources/adapters that vstd cannot specify (rule E12 wrappers) ----
// `BTreeSet::from([T; N])` is taken from prelude/list_ops_std.rs (included by the unit); nothing new is assumed about it here.

// A1 (verbatim from prelude/list_more_std.rs).
// rustdoc core::iter::once: "Creates an iterator that yields an element exactly once."  A source: its item sequence is the
// one element, whatever happens later; `Once::next` is `Option::take`, which terminates.
#[verifier::external_body]
fn vx_once<T>(x: T) -> (r: impl Iterator<Item = T>)
    ensures
        r.obeys_prophetic_iter_laws(),
        r.decrease() is Some,
        r.remaining() == seq![x],
{ core::iter::once(x) }

// A2 (verbatim from prelude/edge_list_more_std.rs).
// rustdoc Iterator::chain: "Takes two iterators and creates a new iterator over both in sequence. chain() will return a new
// iterator which will first iterate over values from the first iterator and then over values from the second iterator."
// `Chain::next` pulls from `a` until `a` returns None, then from `b`, and returns None when `b` does.  In the prophetic model:
// the items pulled from the chain are a prefix of a's items followed by b's items; if the chain is driven until it returns
// None then both parts were (so their item sequences are complete) and the chain's items are all of them.
#[verifier::external_body]
fn vx_chain<A: Iterator, B: Iterator<Item = A::Item>>(a: A, b: B) -> (r: impl Iterator<Item = A::Item>)
    ensures
        r.obeys_prophetic_iter_laws() == (a.obeys_prophetic_iter_laws() && b.obeys_prophetic_iter_laws()),
        r.decrease() is Some == (a.decrease() is Some && b.decrease() is Some),
        r.obeys_prophetic_iter_laws() ==> r.remaining().is_prefix_of(a.remaining() + b.remaining()),
        r.obeys_prophetic_iter_laws() && r.will_return_none()
            ==> a.will_return_none() && b.will_return_none() && r.remaining() == a.remaining() + b.remaining(),
{ a.chain(b) }
