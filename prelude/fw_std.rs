// ---- prelude for units/floyd_warshall.rs: the one assumed crate-level contract of that unit ----
// A: DistanceMatrix::new (unsafe set_len/ptr::write body not extractable; its behaviour at orders <= 3 is checked by
//    the Kani harnesses of C18).
// Restates the rustdoc of src/algo/distance_matrix.rs `DistanceMatrix::new`: "Construct a new DistanceMatrix ...
// # Panics: if `order` is zero; if `order * order` overflows" - so on RETURN order > 0 and order * order fits, the
// matrix has order * order entries and every entry is `infinity`.  Panicking (order 0 / overflow) is a documented,
// allowed outcome and is modelled as divergence: the postcondition only speaks about the returning case.
impl<W: Copy> DistanceMatrix<W> {
    #[verifier::external_body]
    fn new(order: usize, infinity: W) -> (r: Self)
        requires
            true,
        ensures
            order > 0,
            order * order <= usize::MAX,
            r.wf(),
            r.order == order,
            r.infinity == infinity,
            forall|i: int| 0 <= i < r.dist@.len() ==> r.dist@[i] == infinity,
    {
        unimplemented!()
    }
}
