// ---- prelude for units/floyd_warshall.rs ----
// (empty) This file used to hold the one assumed crate-level contract of that unit, an external_body
// `DistanceMatrix::new`.  `DistanceMatrix::new` is now extracted and PROVED against the same contract in
// units/dm_new.rs (fragment units/inc/dm_new.inc.rs, imported by units/floyd_warshall.rs); what remains assumed are
// the std contracts it rests on (prelude/dm_new_std.rs: Vec::with_capacity capacity model, Vec::set_len).
