// ---- prelude (units prng, list_iters, map_positional): assumed contracts on std, each restating the rustdoc ----

// rustdoc u64::rotate_left: "Shifts the bits to the left by a specified amount, n, wrapping the truncated bits to the end of
// the resulting integer." Never panics, never overflows (any n). The result is an (uninterpreted) function of both inputs.
pub uninterp spec fn rotl64(x: u64, n: u32) -> u64;

pub assume_specification [u64::rotate_left] (x: u64, n: u32) -> (r: u64)
    ensures r == rotl64(x, n);

// ---- unit map_positional ----
// needs at crate top:  #![feature(allocator_api)]  use std::collections::{BTreeMap, BTreeSet, btree_map};  use vstd::std_specs::iter::IteratorSpec;

// rustdoc `impl<'a, K, V, A> IntoIterator for &'a BTreeMap<K, V, A>` ("Creates an iterator from a value"; the std source is
// `self.iter()`): same contract as vstd's `BTreeMap::iter` ("Gets an iterator over the entries of the map, sorted by key").
pub assume_specification<'a, K, V, A: core::alloc::Allocator + Clone> [<&'a BTreeMap<K, V, A> as IntoIterator>::into_iter] (m: &'a BTreeMap<K, V, A>) -> (r: btree_map::Iter<'a, K, V>)
    ensures
        vstd::std_specs::btree::key_obeys_cmp_spec::<K>() ==> {
            &&& r.remaining().len() == m@.dom().len()
            &&& forall|i: int| 0 <= i < r.remaining().len() ==> m@.contains_key(*(#[trigger] r.remaining()[i]).0) && m@[*r.remaining()[i].0] == *r.remaining()[i].1
            &&& forall|k: K| #[trigger] m@.contains_key(k) ==> r.remaining().contains((&k, &m@[k]))
            &&& r.remaining().no_duplicates()
            &&& r.decrease() is Some
            &&& vstd::std_specs::btree::increasing_seq(r.remaining().map_values(|kv: (&K, &V)| kv.0))
        },
        r.obeys_prophetic_iter_laws();

// rustdoc `impl<K: Ord, V> FromIterator<(K, V)> for BTreeMap<K, V>`: "Constructs a BTreeMap<K, V> from an iterator of key-value
// pairs. If the iterator produces any pairs with equal keys, all but one of the corresponding values will be dropped."
// vstd specifies `Iterator::collect` as `FromIteratorSpec::from_iter_ensures(self.remaining(), collection)` and interprets
// that predicate for Vec only; for BTreeMap its meaning is assumed here, and only for item sequences with pairwise distinct
// keys (where the rustdoc leaves no choice): the map has exactly the keys of the items and maps each to its value.
pub broadcast axiom fn axiom_btree_map_from_iter<K: Ord, V>(remaining: Seq<(K, V)>, m: BTreeMap<K, V>)
    ensures
        #[trigger] <BTreeMap<K, V> as vstd::std_specs::iter::FromIteratorSpec<(K, V)>>::from_iter_ensures(remaining, m)
            && (forall|i: int, j: int| 0 <= i < j < remaining.len() ==> remaining[i].0 != remaining[j].0)
            ==> {
                &&& forall|k: K| m@.contains_key(k) <==> exists|i: int| 0 <= i < remaining.len() && (#[trigger] remaining[i]).0 == k
                &&& forall|i: int| 0 <= i < remaining.len() ==> m@[(#[trigger] remaining[i]).0] == remaining[i].1
            };


// `std::collections::btree_set::Difference`: "A lazy iterator producing elements in the difference of BTreeSets."
#[verifier::external_type_specification]
#[verifier::external_body]
#[verifier::reject_recursive_types(T)]
#[verifier::reject_recursive_types(A)]
pub struct ExBTreeSetDifference<'a, T: 'a, A: core::alloc::Allocator + Clone>(btree_set::Difference<'a, T, A>);

// rustdoc BTreeSet::difference: "Visits the elements representing the difference, i.e., the elements that are in self but
// not in other, in ascending order."
pub assume_specification<'a, T: Ord, A: core::alloc::Allocator + Clone> [BTreeSet::<T, A>::difference] (s: &'a BTreeSet<T, A>, other: &'a BTreeSet<T, A>) -> (r: btree_set::Difference<'a, T, A>)
    ensures
        r.obeys_prophetic_iter_laws(),
        r.decrease() is Some,
        vstd::std_specs::btree::key_obeys_cmp_spec::<T>() ==> {
            &&& r.remaining().unref().to_set() == s@.difference(other@)
            &&& r.remaining().no_duplicates()
            &&& vstd::std_specs::btree::increasing_seq(r.remaining())
        };
