// ---- prelude (units prng, list_iters, map_positional): assumed contracts on std, each restating the rustdoc ----

// rustdoc u64::rotate_left: "Shifts the bits to the left by a specified amount, n, wrapping the truncated bits to the end of
// the resulting integer." Never panics, never overflows (any n). The result is an (uninterpreted) function of both inputs.
pub uninterp spec fn rotl64(x: u64, n: u32) -> u64;

pub assume_specification [u64::rotate_left] (x: u64, n: u32) -> (r: u64)
    ensures r == rotl64(x, n);
