// ---- assumed std contracts used by units/tarjan.rs only (each restates the rustdoc) ----
// needs at crate top: #![feature(allocator_api)] use std::collections::BTreeMap; use std::alloc::Allocator; use core::borrow::Borrow;

// rustdoc `impl Index<&Q> for BTreeMap<K, V, A>`: "Returns a reference to the value corresponding to the supplied key.
// # Panics: Panics if the key is not present in the BTreeMap."
// vstd gives `Index::index` the precondition `IndexSpec::index_req(self, index)` and interprets that predicate for slices,
// arrays and Vec only (an impl for BTreeMap is impossible here: orphan rule). Its meaning for BTreeMap is assumed: the call
// is allowed (does not panic) when the key is present - so every `map[&k]` must be proved to hit an existing key.
pub broadcast axiom fn axiom_btree_map_index_req<'q, K: Borrow<Q> + Ord, Q: ?Sized + Ord, V, A: Allocator + Clone>(m: &BTreeMap<K, V, A>, key: &'q Q)
    ensures
        vstd::std_specs::btree::borrowed_key_ordering_matches::<K, Q>()
            && (vstd::laws_cmp::obeys_cmp::<K>() ==> vstd::std_specs::btree::contains_borrowed_key(m@, key))
            ==> #[trigger] <BTreeMap<K, V, A> as vstd::std_specs::core::IndexSpec<&'q Q>>::index_req(m, &key);

// ... and the value returned is the one stored under the key (same shape as vstd's contract of `BTreeMap::get`).
pub assume_specification<'q, 'm, K: Borrow<Q> + Ord, Q: ?Sized + Ord, V, A: Allocator + Clone> [<BTreeMap<K, V, A> as core::ops::Index<&'q Q>>::index] (m: &'m BTreeMap<K, V, A>, key: &Q) -> (r: &'m V)
    ensures
        vstd::laws_cmp::obeys_cmp::<K>() ==> vstd::std_specs::btree::maps_borrowed_key_to_value(m@, key, *r);

// rustdoc `Ord::min`: "Compares and returns the minimum of two values. Returns the first argument if the comparison
// determines them to be equal."  `Ord::min` is a PROVIDED trait method (Verus: "assume_specification for a provided trait
// method" is unsupported), hence the E12 wrapper (extractor option `wrap=min`) whose body is exactly the std call.
spec fn vx_min_spec(a: usize, b: usize) -> usize { if a <= b { a } else { b } }

#[verifier::external_body]
fn vx_min(a: usize, b: usize) -> (r: usize)
    ensures r == vx_min_spec(a, b),
{ a.min(b) }
