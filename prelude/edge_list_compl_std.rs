// ---- prelude (unit edge_list_compl): BTreeSet::difference (verbatim from prelude/c13left_std.rs) and vx_chain (verbatim from prelude/edge_list_more_std.rs) ----
// `std::collections::btree_set::Difference`: "A lazy iterator producing elements in the difference of BTreeSets."
#[verifier::external_type_specification]
#[verifier::external_body]
#[verifier::reject_recursive_types(T)]
#[verifier::reject_recursive_types(A)]
pub struct ExBTreeSetDifference<'a, T: 'a, A: core::alloc::Allocator + Clone>(btree_set::Difference<'a, T, A>);

// rustdoc BTreeSet::difference: "Visits the elements representing the difference, i.e., the elements that are in self but
// not in other, in ascending order."
pub assume_specification<'a, T: Ord, A: core::alloc::Allocator + Clone> [BTreeSet::<T, A>::difference] (s: &'a BTreeSet<T, A>, other: &'a BTreeSet<T, A>) -> (r: btree_set::Difference<'a, T, A>)
    ensures
        r.obeys_prophetic_iter_laws(),
        r.decrease() is Some,
        vstd::std_specs::btree::key_obeys_cmp_spec::<T>() ==> {
            &&& r.remaining().unref().to_set() == s@.difference(other@)
            &&& r.remaining().no_duplicates()
            &&& vstd::std_specs::btree::increasing_seq(r.remaining())
        };

// rustdoc Iterator::chain: "Takes two iterators and creates a new iterator over both in sequence. chain() will return a new
// iterator which will first iterate over values from the first iterator and then over values from the second iterator."
// `Chain::next` pulls from `a` until `a` returns None, then from `b`, and returns None when `b` does.  In the prophetic model:
// the items pulled from the chain are a prefix of a's items followed by b's items; if the chain is driven until it returns
// None then both parts were (so their item sequences are complete) and the chain's items are all of them.
#[verifier::external_body]
fn vx_chain<A: Iterator, B: Iterator<Item = A::Item>>(a: A, b: B) -> (r: impl Iterator<Item = A::Item>)
    ensures
        r.obeys_prophetic_iter_laws() == (a.obeys_prophetic_iter_laws() && b.obeys_prophetic_iter_laws()),
        r.decrease() is Some == (a.decrease() is Some && b.decrease() is Some),
        r.obeys_prophetic_iter_laws() ==> r.remaining().is_prefix_of(a.remaining() + b.remaining()),
        r.obeys_prophetic_iter_laws() && r.will_return_none()
            ==> a.will_return_none() && b.will_return_none() && r.remaining() == a.remaining() + b.remaining(),
{ a.chain(b) }
