// ---- prelude (ops_blanket / matrix_degrees only): E12 wrappers for provided Iterator methods (assumed) ----
// Verus cannot attach a contract to a PROVIDED trait method, so each gets it through a wrapper whose body is exactly the
// std call (extractor option `wrap=max,min,count,eq,collect`); each contract restates the rustdoc over the prophesied item
// sequence `remaining()`.  All of them consume the iterator they are given: like vstd's contract of `Iterator::collect`
// they state `will_return_none()` (the adapter was driven until it returned None) where the rustdoc says so.

/// m is a maximum / minimum element of s (None iff s is empty)
spec fn is_max_of(s: Seq<usize>, m: Option<usize>) -> bool {
    &&& m is None <==> s.len() == 0
    &&& m is Some ==> s.contains(m->0) && forall|i: int| 0 <= i < s.len() ==> #[trigger] s[i] <= m->0
}
spec fn is_min_of(s: Seq<usize>, m: Option<usize>) -> bool {
    &&& m is None <==> s.len() == 0
    &&& m is Some ==> s.contains(m->0) && forall|i: int| 0 <= i < s.len() ==> m->0 <= #[trigger] s[i]
}

// rustdoc Iterator::max: "Returns the maximum element of an iterator. If several elements are equally maximum, the last
// element is returned. If the iterator is empty, None is returned."
#[verifier::external_body]
fn vx_max<I: Iterator<Item = usize>>(it: I) -> (r: Option<usize>)
    ensures
        it.obeys_prophetic_iter_laws() ==> it.will_return_none(),
        it.obeys_prophetic_iter_laws() ==> is_max_of(it.remaining(), r),
{ it.max() }

// rustdoc Iterator::min: "Returns the minimum element of an iterator. If several elements are equally minimum, the first
// element is returned. If the iterator is empty, None is returned."
#[verifier::external_body]
fn vx_min<I: Iterator<Item = usize>>(it: I) -> (r: Option<usize>)
    ensures
        it.obeys_prophetic_iter_laws() ==> it.will_return_none(),
        it.obeys_prophetic_iter_laws() ==> is_min_of(it.remaining(), r),
{ it.min() }

// rustdoc Iterator::count: "Consumes the iterator, counting the number of iterations and returning it. This method will
// call next repeatedly until None is encountered, returning the number of times it saw Some. ... Overflow Behavior: The
// method does no guarding against overflows, so counting elements of an iterator with more than usize::MAX elements
// either produces the wrong result or panics."  (Hence nothing is said about the value beyond usize::MAX items.)
#[verifier::external_body]
fn vx_count<I: Iterator>(it: I) -> (r: usize)
    ensures
        it.obeys_prophetic_iter_laws() ==> it.will_return_none(),
        it.obeys_prophetic_iter_laws() && it.remaining().len() <= usize::MAX ==> r == it.remaining().len(),
{ it.count() }

// rustdoc Iterator::eq: "Determines if the elements of this Iterator are equal to those of another."
// (`eq` stops at the first difference; the item sequences below are the prophesied ones, i.e. for an adapter the items
// actually pulled, so `true` additionally means both were driven to None.)
#[verifier::external_body]
fn vx_eq<I: Iterator<Item = usize>, J: Iterator<Item = usize>>(it: I, other: J) -> (r: bool)
    ensures
        it.obeys_prophetic_iter_laws() && other.obeys_prophetic_iter_laws() ==> r == (it.remaining() == other.remaining()),
        it.obeys_prophetic_iter_laws() && other.obeys_prophetic_iter_laws() && r ==> it.will_return_none() && other.will_return_none(),
{ it.eq(other) }

// rustdoc Iterator::collect: "Transforms an iterator into a collection." with `impl FromIterator<T> for BTreeSet<T>`:
// "Converts an iterator into a BTreeSet": the set of the items.  vstd specifies `collect` only into Vec (its
// `from_iter_ensures` is uninterpreted for BTreeSet); this wrapper is the BTreeSet<usize> instance
// (`X.collect::<BTreeSet<_>>()` in src/op/is_subdigraph.rs).
#[verifier::external_body]
fn vx_collect<I: Iterator<Item = usize>>(it: I) -> (r: BTreeSet<usize>)
    ensures
        it.obeys_prophetic_iter_laws() ==> it.will_return_none(),
        it.obeys_prophetic_iter_laws() ==> r@ == it.remaining().to_set(),
{ it.collect::<BTreeSet<_>>() }

// ---- used by matrix_degrees only (AdjacencyMatrix::size) ----
/// bit k of x is set; the number of set bits among the k lowest bits of x
pub open spec fn bit_at(x: usize, k: usize) -> bool { x & (1usize << k) != 0 }
pub open spec fn ones_below(x: usize, k: nat) -> nat
    decreases k
{
    if k == 0 { 0 } else { ones_below(x, (k - 1) as nat) + if bit_at(x, (k - 1) as usize) { 1nat } else { 0nat } }
}

// rustdoc usize::count_ones: "Returns the number of ones in the binary representation of self."
// (usize is 64 bits wide here: the number of k < 64 with bit k set.)
pub assume_specification [usize::count_ones] (x: usize) -> (r: u32)
    ensures r == ones_below(x, 64);
