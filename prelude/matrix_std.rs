// ---- prelude (matrix_iter / matrix_ops only): assumed contracts on std, each restating the rustdoc ----

// rustdoc usize::trailing_zeros: "Returns the number of trailing zeros in the binary representation of self."
// (usize is 64 bits wide here.  For x == 0 all 64 bits are trailing zeros; for x != 0 the result r is the position of
// the lowest set bit: bit r is set and the r bits below it are clear.)
pub assume_specification [usize::trailing_zeros] (x: usize) -> (r: u32)
    ensures
        x == 0 ==> r == 64,
        x != 0 ==> r < 64 && x & (1usize << (r as usize)) != 0 && x & (((1usize << (r as usize)) - 1) as usize) == 0;
