// ---- prelude (unit random_more only): the PRNG as an opaque stream, continued ----
// prelude/conversions_std.rs (included before this file) declares `Xoshiro256StarStar` as an opaque type with `new` and
// `next_bool` whose results are unconstrained.  The generators of this unit draw from the same stream through two more
// methods; both are again left COMPLETELY unconstrained (no `ensures`), so whatever is proved of a generator holds for
// every value sequence the stream can produce, hence for every seed (and every p).

impl Xoshiro256StarStar {
    // A1: `Xoshiro256StarStar::next_f64` is total ("# Panics: This function never panics", src/gen/prng/xoshiro256_star_star.rs);
    // its value is unconstrained here (the [0, 1) range is the Kani half of C15 and is not used by this unit).
    #[verifier::external_body]
    fn next_f64(&mut self) -> (r: f64)
    { unimplemented!() }
}

// A2: `impl Iterator for Xoshiro256StarStar` (src/gen/prng/xoshiro256_star_star.rs): needed so that the type
// `Zip<Range<usize>, Xoshiro256StarStar>` exists; `next` carries no contract here (unit prng proves `r is Some` of the real one).
impl Iterator for Xoshiro256StarStar {
    type Item = u64;

    #[verifier::external_body]
    fn next(&mut self) -> (r: Option<u64>)
    { unimplemented!() }
}

// A3 (rule E12 wrapper, `wrap=zip`): `(a..b).zip(rng)`.
// rustdoc Iterator::zip: "'Zips up' two iterators into a single iterator of pairs. zip() returns a new iterator that will
// iterate over two other iterators, returning a tuple where the first element comes from the first iterator, and the second
// element comes from the second iterator. ... If either iterator returns None, next from the zipped iterator will return None."
// The second iterator is the PRNG, whose `next` never returns None (proved on the real code by unit prng: `r is Some`), so the
// zipped iterator ends exactly when the range ends: it yields one pair per element of the range, first components in range
// order; the second components (the drawn numbers) are unconstrained.
// vstd's own contract of `Iterator::zip` cannot be used: it describes the result through the prophesied FINITE item sequence
// `remaining()` of both sides, which a never-ending stream does not have.
#[verifier::external_body]
fn vx_zip(a: core::ops::Range<usize>, b: Xoshiro256StarStar) -> (r: core::iter::Zip<core::ops::Range<usize>, Xoshiro256StarStar>)
    ensures
        r.obeys_prophetic_iter_laws(),
        r.decrease() is Some,
        r.remaining().len() == a.remaining().len(),
        forall|i: int| 0 <= i < a.remaining().len() ==> (#[trigger] r.remaining()[i]).0 == a.remaining()[i],
{ a.zip(b) }
