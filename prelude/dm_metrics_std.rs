// ---- prelude (unit dm_metrics): E12 adapter wrappers (assumed; each body is exactly the std call, each contract restates the rustdoc) ----
// used through the extractor option `wrap=&chunks,max,min,enumerate,all,filter_map`: `RECV.m(ARGS)` -> `vx_m(RECV, ARGS)`
// needs at crate top:  use vstd::std_specs::iter::IteratorSpec;

/// number of chunks of length n in a slice of length len: ceil(len / n)
spec fn chunk_count(len: int, n: int) -> int { (len + n - 1) / n }

/// the k-th chunk of length n of s: the items k*n .. (k+1)*n, cut off at the end of s
spec fn chunk_of<T>(s: Seq<T>, n: int, k: int) -> Seq<T> {
    s.subrange(k * n, if (k + 1) * n <= s.len() { (k + 1) * n } else { s.len() as int })
}

// rustdoc <[T]>::chunks: "Returns an iterator over chunk_size elements of the slice at a time, starting at the beginning of the
// slice. The chunks are slices and do not overlap. If chunk_size does not divide the length of the slice, then the last chunk
// will not have length chunk_size. ... Panics: Panics if chunk_size is zero."
#[verifier::external_body]
fn vx_chunks<'a, T>(s: &'a [T], n: usize) -> (r: impl Iterator<Item = &'a [T]>)
    requires
        n > 0,
    ensures
        r.obeys_prophetic_iter_laws(),
        r.decrease() is Some,
        r.remaining().len() == chunk_count(s@.len() as int, n as int),
        forall|k: int| 0 <= k < r.remaining().len() ==> (#[trigger] r.remaining()[k])@ == chunk_of(s@, n as int, k),
{ s.chunks(n) }

/// position i holds a maximum of s and every later item is smaller ("the last element" among the equally maximum ones)
spec fn is_last_max_at<T: Ord>(s: Seq<&T>, i: int) -> bool {
    &&& 0 <= i < s.len()
    &&& forall|j: int| 0 <= j < s.len() ==> !(<T as vstd::std_specs::cmp::OrdSpec>::cmp_spec(#[trigger] s[j], s[i]) is Greater)
    &&& forall|j: int| i < j < s.len() ==> <T as vstd::std_specs::cmp::OrdSpec>::cmp_spec(#[trigger] s[j], s[i]) is Less
}

/// rustdoc Iterator::max, over the item sequence s
spec fn is_last_max<T: Ord>(s: Seq<&T>, r: Option<&T>) -> bool {
    if s.len() == 0 { r is None } else { r is Some && exists|i: int| #[trigger] is_last_max_at(s, i) && r->0 == s[i] }
}

// rustdoc Iterator::max: "Returns the maximum element of an iterator. If several elements are equally maximum, the last element
// is returned. If the iterator is empty, None is returned."
// `max` consumes the whole iterator, so (as in vstd's contract of `Iterator::collect`) the prophesied item sequence
// `remaining()` is complete: `will_return_none()`.  The order is the one of `Ord::cmp`, which vstd describes by `cmp_spec`
// for the types with `obeys_cmp_spec()`.
#[verifier::external_body]
fn vx_max<'a, T: Ord + 'a, I: Iterator<Item = &'a T>>(it: I) -> (r: Option<&'a T>)
    ensures
        it.obeys_prophetic_iter_laws() ==> it.will_return_none(),
        it.obeys_prophetic_iter_laws() && <T as vstd::std_specs::cmp::OrdSpec>::obeys_cmp_spec() ==> is_last_max(it.remaining(), r),
{ it.max() }

/// position i holds a minimum of s and every earlier item is greater ("the first element" among the equally minimum ones)
spec fn is_first_min_at<T: Ord>(s: Seq<&T>, i: int) -> bool {
    &&& 0 <= i < s.len()
    &&& forall|j: int| 0 <= j < s.len() ==> !(<T as vstd::std_specs::cmp::OrdSpec>::cmp_spec(#[trigger] s[j], s[i]) is Less)
    &&& forall|j: int| 0 <= j < i ==> <T as vstd::std_specs::cmp::OrdSpec>::cmp_spec(#[trigger] s[j], s[i]) is Greater
}

/// rustdoc Iterator::min, over the item sequence s
spec fn is_first_min<T: Ord>(s: Seq<&T>, r: Option<&T>) -> bool {
    if s.len() == 0 { r is None } else { r is Some && exists|i: int| #[trigger] is_first_min_at(s, i) && r->0 == s[i] }
}

// rustdoc Iterator::min: "Returns the minimum element of an iterator. If several elements are equally minimum, the first element
// is returned. If the iterator is empty, None is returned."
// NOT called by the code under verification (which uses `max`); it is here so that a change of `max()` into `min()` in
// /repo is decided (and refuted) by Verus instead of being refused as an unsupported std call.  Same shape as vx_max.
#[verifier::external_body]
fn vx_min<'a, T: Ord + 'a, I: Iterator<Item = &'a T>>(it: I) -> (r: Option<&'a T>)
    ensures
        it.obeys_prophetic_iter_laws() ==> it.will_return_none(),
        it.obeys_prophetic_iter_laws() && <T as vstd::std_specs::cmp::OrdSpec>::obeys_cmp_spec() ==> is_first_min(it.remaining(), r),
{ it.min() }

// rustdoc Iterator::all: "Tests if every element of the iterator matches a predicate. all() takes a closure that returns true or
// false. It applies this closure to each element of the iterator, and if they all return true, then so does all(). If any of
// them return false, it returns false. all() is short-circuiting; in other words, it will stop processing as soon as it finds a
// false ... An empty iterator returns true."
// This is vstd's contract of `Iterator::all` (precondition, both result cases) plus one fact that vstd leaves out: the result
// `true` means that the iterator was run until it returned None, so the prophesied item sequence is complete
// (`will_return_none()`, as in vstd's contracts of `Iterator::next` returning None and of `Iterator::collect`).
#[verifier::external_body]
fn vx_all<I: Iterator, F: FnMut(I::Item) -> bool>(it: I, f: F) -> (r: bool)
    requires
        forall|k: int| 0 <= k < it.remaining().len() ==> #[trigger] f.requires((it.remaining()[k],)),
    ensures
        it.obeys_prophetic_iter_laws() && r ==> it.will_return_none()
            && forall|i: int| #![trigger it.remaining()[i]] 0 <= i < it.remaining().len() ==> f.ensures((it.remaining()[i],), true),
        it.obeys_prophetic_iter_laws() && !r ==> exists|i: int| #![trigger it.remaining()[i]] 0 <= i < it.remaining().len() && f.ensures((it.remaining()[i],), false),
{ let mut it = it; it.all(f) }

// rustdoc Iterator::enumerate: "Creates an iterator which gives the current iteration count as well as the next value.
// The iterator returned yields pairs (i, val), where i is the current index of iteration and val is the value returned by
// the iterator."  (An item sequence is a Seq of exec values taken from memory, hence shorter than usize::MAX: no overflow.)
// Superset of the contract of `vx_enumerate` in prelude/iter_wrappers.rs (which this unit does not include): `Enumerate::next`
// calls the inner `next` exactly once and returns None exactly when the inner iterator does, so termination of `next`
// (`decrease()`) and reaching None (`will_return_none()`) carry over.
#[verifier::external_body]
fn vx_enumerate<I: Iterator>(it: I) -> (r: impl Iterator<Item = (usize, I::Item)>)
    ensures
        r.obeys_prophetic_iter_laws() == it.obeys_prophetic_iter_laws(),
        r.decrease() is Some == it.decrease() is Some,
        r.will_return_none() == it.will_return_none(),
        r.remaining().len() == it.remaining().len(),
        forall|i: int| 0 <= i < it.remaining().len() ==> #[trigger] r.remaining()[i] == (i as usize, it.remaining()[i]),
{ it.enumerate() }

/// the values of the `Some` items of outs, in order
spec fn somes<B>(outs: Seq<Option<B>>) -> Seq<B>
    decreases outs.len(),
{
    if outs.len() == 0 { Seq::empty() } else {
        let s = somes(outs.drop_last());
        if outs.last() is Some { s.push(outs.last()->0) } else { s }
    }
}

/// `outs` are the closure results on a prefix of the source items `src` (all of them once the adapter has returned None, cf.
/// vstd's model of `Filter`: the closure is exec code that vstd does not know to terminate); `rem` are the `Some` values
spec fn filter_map_post<A, B, F: FnMut(A) -> Option<B>>(src: Seq<A>, f: F, outs: Seq<Option<B>>, rem: Seq<B>) -> bool {
    &&& outs.len() <= src.len()
    &&& forall|j: int| 0 <= j < outs.len() ==> f.ensures((src[j],), #[trigger] outs[j])
    &&& rem == somes(outs)
}

// rustdoc Iterator::filter_map: "Creates an iterator that both filters and maps. The returned iterator yields only the values
// for which the supplied closure returns Some(value)."  Stated like vstd's contract of `Iterator::filter` (same preconditions;
// the item sequence is the filtered image of a prefix of the source, the whole source once None has been returned).
#[verifier::external_body]
fn vx_filter_map<B, I: Iterator, F: FnMut(I::Item) -> Option<B>>(it: I, f: F) -> (r: impl Iterator<Item = B>)
    requires
        it.obeys_prophetic_iter_laws(),
        it.decrease() is Some,
        forall|k: int| 0 <= k < it.remaining().len() ==> #[trigger] f.requires((it.remaining()[k],)),
    ensures
        r.obeys_prophetic_iter_laws(),
        r.decrease() is Some,
        exists|outs: Seq<Option<B>>| #[trigger] filter_map_post(it.remaining(), f, outs, r.remaining())
            && (r.will_return_none() ==> it.will_return_none() && outs.len() == it.remaining().len()),
{ it.filter_map(f) }

// rustdoc bool::then_some: "Returns Some(t) if the bool is true, or None otherwise."
pub assume_specification<T> [bool::then_some::<T>] (b: bool, t: T) -> (r: Option<T>)
    ensures
        b ==> r == Some(t),
        !b ==> r is None;
