// ---- prelude (unit dm_metrics): E12 adapter wrappers (assumed; each body is exactly the std call, each contract restates the rustdoc) ----
// used through the extractor option `wrap=&chunks,max,enumerate,all,filter_map`: `RECV.m(ARGS)` -> `vx_m(RECV, ARGS)`
// needs at crate top:  use vstd::std_specs::iter::IteratorSpec;

/// number of chunks of length n in a slice of length len: ceil(len / n)
spec fn chunk_count(len: int, n: int) -> int { (len + n - 1) / n }

/// the k-th chunk of length n of s: the items k*n .. (k+1)*n, cut off at the end of s
spec fn chunk_of<T>(s: Seq<T>, n: int, k: int) -> Seq<T> {
    s.subrange(k * n, if (k + 1) * n <= s.len() { (k + 1) * n } else { s.len() as int })
}

// rustdoc <[T]>::chunks: "Returns an iterator over chunk_size elements of the slice at a time, starting at the beginning of the
// slice. The chunks are slices and do not overlap. If chunk_size does not divide the length of the slice, then the last chunk
// will not have length chunk_size. ... Panics: Panics if chunk_size is zero."
#[verifier::external_body]
fn vx_chunks<'a, T>(s: &'a [T], n: usize) -> (r: impl Iterator<Item = &'a [T]>)
    requires
        n > 0,
    ensures
        r.obeys_prophetic_iter_laws(),
        r.decrease() is Some,
        r.remaining().len() == chunk_count(s@.len() as int, n as int),
        forall|k: int| 0 <= k < r.remaining().len() ==> (#[trigger] r.remaining()[k])@ == chunk_of(s@, n as int, k),
{ s.chunks(n) }

/// position i holds a maximum of s and every later item is smaller ("the last element" among the equally maximum ones)
spec fn is_last_max_at<T: Ord>(s: Seq<&T>, i: int) -> bool {
    &&& 0 <= i < s.len()
    &&& forall|j: int| 0 <= j < s.len() ==> !(<T as vstd::std_specs::cmp::OrdSpec>::cmp_spec(#[trigger] s[j], s[i]) is Greater)
    &&& forall|j: int| i < j < s.len() ==> <T as vstd::std_specs::cmp::OrdSpec>::cmp_spec(#[trigger] s[j], s[i]) is Less
}

/// rustdoc Iterator::max, over the item sequence s
spec fn is_last_max<T: Ord>(s: Seq<&T>, r: Option<&T>) -> bool {
    if s.len() == 0 { r is None } else { r is Some && exists|i: int| #[trigger] is_last_max_at(s, i) && r->0 == s[i] }
}

// rustdoc Iterator::max: "Returns the maximum element of an iterator. If several elements are equally maximum, the last element
// is returned. If the iterator is empty, None is returned."
// `max` consumes the whole iterator, so (as in vstd's contract of `Iterator::collect`) the prophesied item sequence
// `remaining()` is complete: `will_return_none()`.  The order is the one of `Ord::cmp`, which vstd describes by `cmp_spec`
// for the types with `obeys_cmp_spec()`.
#[verifier::external_body]
fn vx_max<'a, T: Ord + 'a, I: Iterator<Item = &'a T>>(it: I) -> (r: Option<&'a T>)
    ensures
        it.obeys_prophetic_iter_laws() ==> it.will_return_none(),
        it.obeys_prophetic_iter_laws() && <T as vstd::std_specs::cmp::OrdSpec>::obeys_cmp_spec() ==> is_last_max(it.remaining(), r),
{ it.max() }

// rustdoc Iterator::all: "Tests if every element of the iterator matches a predicate. all() takes a closure that returns true or
// false. It applies this closure to each element of the iterator, and if they all return true, then so does all(). If any of
// them return false, it returns false. all() is short-circuiting; in other words, it will stop processing as soon as it finds a
// false ... An empty iterator returns true."
// This is vstd's contract of `Iterator::all` (precondition, both result cases) plus one fact that vstd leaves out: the result
// `true` means that the iterator was run until it returned None, so the prophesied item sequence is complete
// (`will_return_none()`, as in vstd's contracts of `Iterator::next` returning None and of `Iterator::collect`).
#[verifier::external_body]
fn vx_all<I: Iterator, F: FnMut(I::Item) -> bool>(it: I, f: F) -> (r: bool)
    requires
        forall|k: int| 0 <= k < it.remaining().len() ==> #[trigger] f.requires((it.remaining()[k],)),
    ensures
        it.obeys_prophetic_iter_laws() && r ==> it.will_return_none()
            && forall|i: int| #![trigger it.remaining()[i]] 0 <= i < it.remaining().len() ==> f.ensures((it.remaining()[i],), true),
        it.obeys_prophetic_iter_laws() && !r ==> exists|i: int| #![trigger it.remaining()[i]] 0 <= i < it.remaining().len() && f.ensures((it.remaining()[i],), false),
{ let mut it = it; it.all(f) }
