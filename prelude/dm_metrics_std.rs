// ---- prelude (unit dm_metrics): E12 adapter wrappers (assumed; each body is exactly the std call, each contract restates the rustdoc) ----
// used through the extractor option `wrap=&chunks,max,enumerate,all,filter_map`: `RECV.m(ARGS)` -> `vx_m(RECV, ARGS)`
// needs at crate top:  use vstd::std_specs::iter::IteratorSpec;

/// number of chunks of length n in a slice of length len: ceil(len / n)
spec fn chunk_count(len: int, n: int) -> int { (len + n - 1) / n }

// rustdoc <[T]>::chunks: "Returns an iterator over chunk_size elements of the slice at a time, starting at the beginning of the
// slice. The chunks are slices and do not overlap. If chunk_size does not divide the length of the slice, then the last chunk
// will not have length chunk_size. ... Panics: Panics if chunk_size is zero."
// (`Chunks::next` is a slice split: it always returns, hence `will_return_none()`; the item sequence is a function of the slice.)
#[verifier::external_body]
fn vx_chunks<'a, T>(s: &'a [T], n: usize) -> (r: impl Iterator<Item = &'a [T]>)
    requires
        n > 0,
    ensures
        r.obeys_prophetic_iter_laws(),
        r.decrease() is Some,
        r.remaining().len() == chunk_count(s@.len() as int, n as int),
        forall|k: int| 0 <= k < r.remaining().len() ==>
            (#[trigger] r.remaining()[k])@ == s@.subrange(k * n, if (k + 1) * n <= s@.len() { (k + 1) * n } else { s@.len() as int }),
{ s.chunks(n) }

// rustdoc Iterator::max: "Returns the maximum element of an iterator. If several elements are equally maximum, the last element
// is returned. If the iterator is empty, None is returned."
// `max` consumes the whole iterator, so (as in vstd's contract of `Iterator::collect`) the prophesied item sequence
// `remaining()` is complete: `will_return_none()`.  The order is the one of `Ord::cmp`, through vstd's `cmp_spec`.
#[verifier::external_body]
fn vx_max<'a, T: Ord + 'a, I: Iterator<Item = &'a T>>(it: I) -> (r: Option<&'a T>)
    ensures
        it.obeys_prophetic_iter_laws() ==> it.will_return_none(),
        it.obeys_prophetic_iter_laws() && it.remaining().len() == 0 ==> r is None,
        it.obeys_prophetic_iter_laws() && it.remaining().len() > 0 && vstd::laws_cmp::obeys_cmp::<T>() ==> r is Some && exists|i: int| {
            &&& 0 <= i < it.remaining().len()
            &&& r->0 == #[trigger] it.remaining()[i]
            &&& forall|j: int| 0 <= j < it.remaining().len() ==> !(<T as vstd::std_specs::cmp::OrdSpec>::cmp_spec(#[trigger] it.remaining()[j], it.remaining()[i]) is Greater)
            &&& forall|j: int| i < j < it.remaining().len() ==> <T as vstd::std_specs::cmp::OrdSpec>::cmp_spec(#[trigger] it.remaining()[j], it.remaining()[i]) is Less
        },
{ it.max() }
