// ---- E2/E11: opaque arc-weighted digraph `Dgi` (W = isize) standing for
//      `D: Order + ContiguousOrder + Vertices + ArcsWeighted<Weight = isize>`; methods carry the TRAIT CONTRACTS ----
#[verifier::external_body]
struct Dgi { _p: () }

impl Dgi {
    uninterp spec fn ord(&self) -> nat;
    uninterp spec fn has(&self, u: int, v: int) -> bool;
    /// weight of the arc (u, v); meaningful where has(u, v)
    uninterp spec fn wt(&self, u: int, v: int) -> int;
    spec fn wf(&self) -> bool {
        &&& self.ord() > 0
        &&& self.ord() <= usize::MAX
        &&& forall|u: int, v: int| #[trigger] self.has(u, v) ==> 0 <= u < self.ord() && 0 <= v < self.ord() && u != v
                && isize::MIN <= self.wt(u, v) <= isize::MAX
    }

    #[verifier::external_body]
    fn order(&self) -> (r: usize)
        ensures r == self.ord(),
    { unimplemented!() }

    #[verifier::external_body]
    fn contiguous_order(&self) -> (r: usize)
        ensures r == self.ord(),
    { unimplemented!() }

    /// Vertices::vertices: 0..order ascending
    #[verifier::external_body]
    fn vertices(&self) -> (r: impl Iterator<Item = usize> + use<'_>)
        ensures
            r.obeys_prophetic_iter_laws(),
            r.decrease() is Some,
            r.remaining().len() == self.ord(),
            forall|i: int| 0 <= i < r.remaining().len() ==> #[trigger] r.remaining()[i] == i,
    { core::iter::empty() }

    /// ArcsWeighted::arcs_weighted: every arc exactly once with its weight
    #[verifier::external_body]
    fn arcs_weighted(&self) -> (r: impl Iterator<Item = (usize, usize, &isize)> + use<'_>)
        ensures
            r.obeys_prophetic_iter_laws(),
            r.decrease() is Some,
            forall|i: int, j: int| 0 <= i < j < r.remaining().len() ==>
                !((#[trigger] r.remaining()[i]).0 == (#[trigger] r.remaining()[j]).0 && r.remaining()[i].1 == r.remaining()[j].1),
            forall|u: usize, v: usize| self.has(u as int, v as int) ==>
                exists|i: int| 0 <= i < r.remaining().len() && (#[trigger] r.remaining()[i]).0 == u && r.remaining()[i].1 == v,
            forall|i: int| 0 <= i < r.remaining().len() ==>
                self.has((#[trigger] r.remaining()[i]).0 as int, r.remaining()[i].1 as int)
                && *r.remaining()[i].2 == self.wt(r.remaining()[i].0 as int, r.remaining()[i].1 as int),
    { core::iter::empty() }
}
