// ---- E2/E11: opaque arc-weighted digraph `Dgw` (W = usize) standing for `D: Order + OutNeighborsWeighted<Weight = usize>` ----
#[verifier::external_body]
struct Dgw { _p: () }

impl Dgw {
    uninterp spec fn ord(&self) -> nat;
    uninterp spec fn has(&self, u: int, v: int) -> bool;
    /// weight of the arc (u, v); meaningful where has(u, v)
    uninterp spec fn wt(&self, u: int, v: int) -> int;
    spec fn wf(&self) -> bool {
        &&& self.ord() > 0
        &&& self.ord() <= usize::MAX
        &&& forall|u: int, v: int| #[trigger] self.has(u, v) ==> 0 <= u < self.ord() && 0 <= v < self.ord() && u != v && 0 <= self.wt(u, v) <= usize::MAX
    }

    #[verifier::external_body]
    fn order(&self) -> (r: usize)
        ensures r == self.ord(),
    { unimplemented!() }

    /// OutNeighborsWeighted::out_neighbors_weighted: exactly the out-neighbours of u with their weights, no repeats
    /// (documented: panics if u is not in the digraph)
    #[verifier::external_body]
    fn out_neighbors_weighted(&self, u: usize) -> (r: impl Iterator<Item = (usize, &usize)> + use<'_>)
        requires u < self.ord(),
        ensures
            r.obeys_prophetic_iter_laws(),
            r.decrease() is Some,
            forall|i: int, j: int| 0 <= i < j < r.remaining().len() ==> (#[trigger] r.remaining()[i]).0 != (#[trigger] r.remaining()[j]).0,
            forall|v: usize| self.has(u as int, v as int) ==> exists|i: int| 0 <= i < r.remaining().len() && (#[trigger] r.remaining()[i]).0 == v,
            forall|i: int| 0 <= i < r.remaining().len() ==> self.has(u as int, (#[trigger] r.remaining()[i]).0 as int) && *r.remaining()[i].1 == self.wt(u as int, r.remaining()[i].0 as int),
    { core::iter::empty() }
}
