// ---- prelude (unit map_union_helpers only): assumed contracts on std, each restating the rustdoc ----
// needs at crate top:  use std::collections::BTreeSet; use vstd::std_specs::iter::IteratorSpec;

// A1: rustdoc `impl<T: Ord> FromIterator<T> for BTreeSet<T>` ("Creates a value from an iterator") together with the
// BTreeSet rustdoc "An ordered set": the collected set contains exactly the items the iterator yields.  vstd specifies
// `Iterator::collect` as `FromIteratorSpec::from_iter_ensures(self.remaining(), collection)` and interprets that
// predicate for Vec only; for BTreeSet it is uninterpreted (the orphan rule forbids implementing the vstd trait for
// BTreeSet here), so its meaning is assumed by this axiom, and (as in vstd's own BTreeSet contracts) only for element
// types whose `Ord` is a lawful total order.  Verbatim the axiom of prelude/list_ops_std.rs (that file is not included here).
pub broadcast axiom fn axiom_btree_set_from_iter<T: Ord>(remaining: Seq<T>, s: BTreeSet<T>)
    ensures
        vstd::laws_cmp::obeys_cmp::<T>() && #[trigger] <BTreeSet<T> as vstd::std_specs::iter::FromIteratorSpec<T>>::from_iter_ensures(remaining, s)
            ==> s@ == remaining.to_set();

// A2: rustdoc `slice::len`: "Returns the number of elements in the slice." plus the validity invariant of every slice
// reference (rustdoc `std::slice::from_raw_parts`, Safety: "The total size `len * size_of::<T>()` of the slice must be no
// larger than `isize::MAX`"; rustdoc `Vec`: "Panics if the new capacity exceeds `isize::MAX` bytes"; Rust Reference, "the
// size of a value is at most isize::MAX").  vstd's contract of `<[T]>::len` only gives `r == s@.len()`; Verus does not
// model the allocation bound, so sums of two lengths (`lhs_len + rhs_len`, `lo + hi`) could not be shown overflow-free
// for ALL inputs without it.  Used through the extractor option `wrap=len` (`X.len()` -> `vx_len(X)`).
#[verifier::external_body]
fn vx_len<T>(s: &[T]) -> (r: usize)
    ensures
        r == s@.len(),
        r * core::mem::size_of::<T>() <= isize::MAX,
{ s.len() }
