// NOTE (session 4): NO LONGER INCLUDED by any unit. The assumed `arcs()` contract below was replaced in every unit by
// `//@import units/inc/map_arcs.inc.rs`, where the same clauses are PROVED for the real body (rule E14d). Kept for reference only.
// ---- prelude (unit map_ctor only): assumed contracts ----

/// strict lexicographic order on arcs (tail first, then head)
spec fn mc_lex_lt(a: (usize, usize), b: (usize, usize)) -> bool { a.0 < b.0 || (a.0 == b.0 && a.1 < b.1) }

/// `s` lists the arcs stored in the raw field `m`: only stored pairs, every stored pair, strictly ascending in lexicographic
/// order (hence each exactly once).  Stated over the field, NOT over a well-formed digraph: heads need not be keys.
spec fn mc_arcs_listed(m: Map<usize, BTreeSet<usize>>, s: Seq<(usize, usize)>) -> bool {
    &&& forall|i: int| 0 <= i < s.len() ==> m.contains_key((#[trigger] s[i]).0) && m[s[i].0]@.contains(s[i].1)
    &&& forall|u: usize, v: usize| m.contains_key(u) && #[trigger] m[u]@.contains(v) ==> s.contains((u, v))
    &&& forall|i: int, j: int| 0 <= i < j < s.len() ==> mc_lex_lt(#[trigger] s[i], #[trigger] s[j])
    &&& s.no_duplicates()
}

impl AdjacencyMap {
    // ASSUMED (A1). `impl Arcs for AdjacencyMap` (src/repr/adjacency_map/mod.rs), real body quoted verbatim below:
    //
    //     fn arcs(&self) -> impl Iterator<Item = (usize, usize)> {
    //         self.arcs
    //             .iter()
    //             .flat_map(|(u, set)| set.iter().map(move |v| (*u, *v)))
    //     }
    //
    // It cannot be verified: Verus crashes on closures that return unnameable iterator types (the flat_map closure).
    // The contract restates what that body does over the raw field, with no well-formedness requirement:
    // `BTreeMap::iter` visits the entries "sorted by key", `BTreeSet::iter` visits the elements "in ascending order", and
    // `flat_map` concatenates the inner iterators in the order of the outer one.  So the items are exactly the pairs (u, v)
    // with u a key and v in row u, each once, in ascending lexicographic order.  `remaining()` is the full item sequence
    // whether or not the caller runs the iterator to its end (nothing depends on `will_return_none()`); the iterator is
    // finite (`decrease() is Some`) and well behaved (`obeys_prophetic_iter_laws()`).
    #[verifier::external_body]
    fn arcs(&self) -> (r: impl Iterator<Item = (usize, usize)> + use<'_>)
        ensures
            r.obeys_prophetic_iter_laws(),
            r.decrease() is Some,
            mc_arcs_listed(self.arcs@, r.remaining()),
    {
        self.arcs
            .iter()
            .flat_map(|(u, set)| set.iter().map(move |v| (*u, *v)))
    }
}
