// ---- prelude (conversions / random_gen only) ----

// A: PRNG modelled as an arbitrary bit stream; the claim then holds for every stream, hence for every seed.
// Nothing is extracted from src/gen/prng.rs: `new` and `next_bool` are total (no panics: wrapping / shift / xor arithmetic on
// a `[u64; 4]` state) and their results are left completely unconstrained, so every property proved of a generator holds
// whatever bits the real Xoshiro256StarStar produces.
#[verifier::external_body]
struct Xoshiro256StarStar { _p: () }

impl Xoshiro256StarStar {
    #[verifier::external_body]
    fn new(seed: u64) -> (r: Self)
    { unimplemented!() }

    #[verifier::external_body]
    fn next_bool(&mut self) -> (r: bool)
    { unimplemented!() }
}
