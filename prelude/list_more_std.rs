// ---- prelude (unit list_more): E12 adapter wrappers (assumed; each body is exactly the std call, each contract restates the rustdoc) ----
// used through the extractor option `wrap=all,chain,fn:once`: `RECV.m(ARGS)` -> `vx_m(RECV, ARGS)`, `once(x)` -> `vx_once(x)`
// needs at crate top:  use vstd::std_specs::iter::IteratorSpec;
// `vx_enumerate`, `vx_copied`, `vx_sum` come from prelude/iter_wrappers.rs, `vx_count` from prelude/blanket_std.rs (both included
// by the unit); this file adds `vx_all`, `vx_once`, `vx_chain`.
//
// vstd's prophetic model: `remaining()` of an adapter is the sequence of items that WILL be pulled from it; it is the whole
// sequence only if the adapter is driven until it returns None (`will_return_none()`).  Sources (slice / range / BTreeSet
// iterators, `once`) have a `remaining()` that does not depend on the future.

// rustdoc Iterator::all: "Tests if every element of the iterator matches a predicate. all() takes a closure that returns true or
// false. It applies this closure to each element of the iterator, and if they all return true, then so does all(). If any of
// them return false, it returns false. all() is short-circuiting; in other words, it will stop processing as soon as it finds a
// false ... An empty iterator returns true."
// vstd's contract of `Iterator::all` (precondition, both result cases) plus one fact that vstd leaves out: the result `true`
// means that the iterator was run until it returned None, so the prophesied item sequence is complete (`will_return_none()`,
// as in vstd's contracts of `Iterator::next` returning None and of `Iterator::collect`).  Verbatim from prelude/dm_metrics_std.rs.
#[verifier::external_body]
fn vx_all<I: Iterator, F: FnMut(I::Item) -> bool>(it: I, f: F) -> (r: bool)
    requires
        forall|k: int| 0 <= k < it.remaining().len() ==> #[trigger] f.requires((it.remaining()[k],)),
    ensures
        it.obeys_prophetic_iter_laws() && r ==> it.will_return_none()
            && forall|i: int| #![trigger it.remaining()[i]] 0 <= i < it.remaining().len() ==> f.ensures((it.remaining()[i],), true),
        it.obeys_prophetic_iter_laws() && !r ==> exists|i: int| #![trigger it.remaining()[i]] 0 <= i < it.remaining().len() && f.ensures((it.remaining()[i],), false),
{ let mut it = it; it.all(f) }

// rustdoc core::iter::once: "Creates an iterator that yields an element exactly once."  A source: its item sequence is the
// one element, whatever happens later; `Once::next` is `Option::take`, which terminates.
#[verifier::external_body]
fn vx_once<T>(x: T) -> (r: impl Iterator<Item = T>)
    ensures
        r.obeys_prophetic_iter_laws(),
        r.decrease() is Some,
        r.remaining() == seq![x],
{ core::iter::once(x) }

// rustdoc Iterator::chain: "Takes two iterators and creates a new iterator over both in sequence. chain() will return a new
// iterator which will first iterate over values from the first iterator and then over values from the second iterator."
// `Chain::next` pulls from `a` until `a` returns None, then from `b`, and returns None when `b` does.  In the prophetic model:
// the items pulled from the chain are a prefix of a's items followed by b's items; if the chain is driven until it returns
// None then both parts were (so their item sequences are complete) and the chain's items are all of them.
#[verifier::external_body]
fn vx_chain<A: Iterator, B: Iterator<Item = A::Item>>(a: A, b: B) -> (r: impl Iterator<Item = A::Item>)
    ensures
        r.obeys_prophetic_iter_laws() == (a.obeys_prophetic_iter_laws() && b.obeys_prophetic_iter_laws()),
        r.decrease() is Some == (a.decrease() is Some && b.decrease() is Some),
        r.obeys_prophetic_iter_laws() ==> r.remaining().len() <= a.remaining().len() + b.remaining().len(),
        r.obeys_prophetic_iter_laws() ==> forall|k: int| 0 <= k < r.remaining().len() ==> #[trigger] r.remaining()[k] == (a.remaining() + b.remaining())[k],
        r.obeys_prophetic_iter_laws() && r.will_return_none() ==> a.will_return_none() && b.will_return_none() && r.remaining() == a.remaining() + b.remaining(),
{ a.chain(b) }
