// ---- E2: opaque digraph `Dgo` standing for any `D: Order + Vertices + HasArc + Arcs + Indegree + Outdegree + OutNeighbors` ----
// Its methods carry the TRAIT CONTRACTS the blanket impls of src/op/*.rs are written against (assumed for each
// representation unless that representation's method is proved against the same text; see evidence).
// Same abstraction as prelude/dg.rs: V = 0..ord, A = `has`; in addition the in/out-degrees DEFINED from `has`.
// (A non-contiguous AdjacencyMap, whose vertex ids are not 0..order, is outside this model.)
#[verifier::external_body]
struct Dgo { _p: () }

impl Dgo {
    /// |V|, with V = 0..ord
    uninterp spec fn ord(&self) -> nat;
    /// arc relation A
    uninterp spec fn has(&self, u: int, v: int) -> bool;
    /// digraph validity: at least one vertex, arcs join distinct vertices of V
    spec fn wf(&self) -> bool {
        &&& self.ord() > 0
        &&& self.ord() <= usize::MAX
        &&& forall|u: int, v: int| #[trigger] self.has(u, v) ==> 0 <= u < self.ord() && 0 <= v < self.ord() && u != v
    }
    /// the in-neighbours / out-neighbours of a vertex, as sets of vertices
    spec fn in_set(&self, v: int) -> Set<int> { Set::range(0, self.ord() as int).filter(|a: int| self.has(a, v)) }
    spec fn out_set(&self, u: int) -> Set<int> { Set::range(0, self.ord() as int).filter(|b: int| self.has(u, b)) }
    /// indegree / outdegree DEFINED from (V, A): the number of vertices a with (a, v) in A / b with (u, b) in A
    spec fn indeg(&self, v: int) -> nat { self.in_set(v).len() }
    spec fn outdeg(&self, u: int) -> nat { self.out_set(u).len() }

    /// Order::order: "Count the vertices in the digraph."
    #[verifier::external_body]
    fn order(&self) -> (r: usize)
        ensures r == self.ord(),
    { unimplemented!() }

    /// Vertices::vertices: "Iterate the digraph's vertices." (`digraph.vertices().eq(0..4)`): 0..order ascending
    #[verifier::external_body]
    fn vertices(&self) -> (r: impl Iterator<Item = usize> + use<'_>)
        ensures
            r.obeys_prophetic_iter_laws(),
            r.decrease() is Some,
            r.remaining() == vertex_seq(self.ord()),
    { core::iter::empty() }

    /// HasArc::has_arc: "Check whether an arc exists in the digraph. ... `has_arc` may not panic if `u` and `v` aren't
    /// in the digraph.": total
    #[verifier::external_body]
    fn has_arc(&self, u: usize, v: usize) -> (r: bool)
        ensures r == self.has(u as int, v as int),
    { unimplemented!() }

    /// Arcs::arcs: "Iterate the digraph's arcs." (`AdjacencyList::circuit(3).arcs().eq([(0, 1), (1, 2), (2, 0)])`):
    /// every arc exactly once, in ascending lexicographic order
    #[verifier::external_body]
    fn arcs(&self) -> (r: impl Iterator<Item = (usize, usize)> + use<'_>)
        ensures
            r.obeys_prophetic_iter_laws(),
            r.decrease() is Some,
            r.remaining().no_duplicates(),
            forall|u: usize, v: usize| self.has(u as int, v as int) ==> r.remaining().contains((u, v)),
            forall|i: int| 0 <= i < r.remaining().len() ==> self.has((#[trigger] r.remaining()[i]).0 as int, r.remaining()[i].1 as int),
            forall|i: int, j: int| 0 <= i < j < r.remaining().len() ==> lexo_lt(#[trigger] r.remaining()[i], #[trigger] r.remaining()[j]),
    { core::iter::empty() }

    /// Indegree::indegree: "Return the vertex's indegree." + every `impl Indegree for ..` in src/repr: "# Panics: Panics
    /// if `v` isn't in the digraph." (a panic is a diverging, allowed outcome: returning implies v in V)
    #[verifier::external_body]
    fn indegree(&self, v: usize) -> (r: usize)
        ensures
            v < self.ord(),
            r == self.indeg(v as int),
    { unimplemented!() }

    /// Outdegree::outdegree: "Return the vertex's outdegree." + every `impl Outdegree for ..` in src/repr: "# Panics:
    /// Panics if `u` isn't in the digraph."
    #[verifier::external_body]
    fn outdegree(&self, u: usize) -> (r: usize)
        ensures
            u < self.ord(),
            r == self.outdeg(u as int),
    { unimplemented!() }

    /// OutNeighbors::out_neighbors: "Iterate the vertex's out-neighbors.": exactly the out-neighbours of u, no repeats
    /// (documented on the impls: panics if u is not in the digraph)
    #[verifier::external_body]
    fn out_neighbors(&self, u: usize) -> (r: impl Iterator<Item = usize> + use<'_>)
        requires u < self.ord(),
        ensures
            r.obeys_prophetic_iter_laws(),
            r.decrease() is Some,
            r.remaining().no_duplicates(),
            forall|v: usize| self.has(u as int, v as int) ==> r.remaining().contains(v),
            forall|i: int| 0 <= i < r.remaining().len() ==> self.has(u as int, #[trigger] r.remaining()[i] as int),
    { core::iter::empty() }
}

/// the vertex sequence 0, 1, .., n-1
spec fn vertex_seq(n: nat) -> Seq<usize> { Seq::new(n, |i: int| i as usize) }
spec fn lexo_lt(a: (usize, usize), b: (usize, usize)) -> bool { a.0 < b.0 || (a.0 == b.0 && a.1 < b.1) }
