// ---- prelude (map_core only): assumed contracts on std, each restating the rustdoc ----
// needs at crate top:  #![feature(allocator_api)]  use std::collections::btree_map::Entry; use std::alloc::Allocator;

// `std::collections::btree_map::Entry`: "A view into a single entry in a map, which may either be vacant or occupied."
// The entry holds the `&'a mut` borrow of the map, so the map's state at the end of that borrow is a prophecy attached to the
// entry value (`entry_final`), exactly like vstd attaches `final(value)` to the `&mut V` returned by `BTreeMap::get_mut`.
#[verifier::external_type_specification]
#[verifier::external_body]
#[verifier::reject_recursive_types(K)]
#[verifier::reject_recursive_types(V)]
#[verifier::reject_recursive_types(A)]
pub struct ExBTreeMapEntry<'a, K: 'a, V: 'a, A: Allocator + Clone>(Entry<'a, K, V, A>);

/// the key the entry was created for
pub uninterp spec fn entry_key<'a, K, V, A: Allocator + Clone>(e: Entry<'a, K, V, A>) -> K;
/// the map (view) at the time the entry was created
pub uninterp spec fn entry_map<'a, K, V, A: Allocator + Clone>(e: Entry<'a, K, V, A>) -> Map<K, V>;
/// prophecy: the map (view) at the end of the mutable borrow held by the entry
pub uninterp spec fn entry_final<'a, K, V, A: Allocator + Clone>(e: Entry<'a, K, V, A>) -> Map<K, V>;

// rustdoc BTreeMap::entry: "Gets the given key's corresponding entry in the map for in-place manipulation."
pub assume_specification<'a, K: Ord, V, A: Allocator + Clone> [BTreeMap::<K, V, A>::entry] (m: &'a mut BTreeMap<K, V, A>, key: K) -> (r: Entry<'a, K, V, A>)
    ensures
        entry_key(r) == key,
        entry_map(r) == old(m)@,
        final(m)@ == entry_final(r);

// rustdoc Entry::or_default: "Ensures a value is in the entry by inserting the default value if empty, and returns a mutable
// reference to the value in the entry." (nothing but that one slot of the map is reachable through the returned reference)
pub assume_specification<'a, K: Ord, V: Default, A: Allocator + Clone> [Entry::<'a, K, V, A>::or_default] (e: Entry<'a, K, V, A>) -> (r: &'a mut V)
    ensures
        entry_map(e).contains_key(entry_key(e)) ==> *r == entry_map(e)[entry_key(e)],
        !entry_map(e).contains_key(entry_key(e)) ==> call_ensures(V::default, (), *r),
        entry_final(e) == entry_map(e).insert(entry_key(e), *final(r));
