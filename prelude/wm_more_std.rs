// ---- prelude (units weighted_more / map_more only): further E12 wrappers and assumed std contracts ----
// Each wrapper's body is exactly the std call; each contract restates the rustdoc over the prophesied item sequences
// `remaining()` (vstd's model: for a lazily consumed adapter the items actually pulled; the complete sequence under
// `will_return_none()`).  Closure-carrying wrappers use `f.requires` / `f.ensures` as vstd's Map / Filter do.
// needs at crate top:  use vstd::std_specs::iter::IteratorSpec;

// rustdoc bool::then_some: "Returns Some(t) if the bool is true, or None otherwise."
pub assume_specification<T> [bool::then_some::<T>] (b: bool, t: T) -> (r: Option<T>)
    ensures r == (if b { Some(t) } else { None::<T> });

/// the values of the `Some` items of s, in order
spec fn vx_somes<B>(s: Seq<Option<B>>) -> Seq<B>
    decreases s.len(),
{
    if s.len() == 0 { Seq::empty() }
    else if s.last() is Some { vx_somes(s.drop_last()).push(s.last()->0) }
    else { vx_somes(s.drop_last()) }
}

/// outs lists the closure results on a prefix of the source items (the items pulled so far / ever)
spec fn vx_filter_map_outs<A, B, F: FnMut(A) -> Option<B>>(src: Seq<A>, f: F, outs: Seq<Option<B>>) -> bool {
    &&& outs.len() <= src.len()
    &&& forall|j: int| 0 <= j < outs.len() ==> f.ensures((src[j],), #[trigger] outs[j])
}

// rustdoc Iterator::filter_map: "Creates an iterator that both filters and maps. The returned iterator yields only the values
// for which the supplied closure returns Some(value)."
// Shape of vstd's contract of `Iterator::filter` (filter_postcondition): the closure is applied to a prefix of the source items,
// in order, once each; the whole source exactly when the adapter is driven to None.  `FilterMap::next` calls the inner `next`
// until the closure returns Some: it terminates when the inner iterator does.
#[verifier::external_body]
fn vx_filter_map<I: Iterator, B, F: FnMut(I::Item) -> Option<B>>(it: I, f: F) -> (r: impl Iterator<Item = B>)
    requires
        forall|k: int| 0 <= k < it.remaining().len() ==> #[trigger] f.requires((it.remaining()[k],)),
    ensures
        r.obeys_prophetic_iter_laws() == it.obeys_prophetic_iter_laws(),
        it.decrease() is Some ==> r.decrease() is Some,
        it.obeys_prophetic_iter_laws() ==> exists|outs: Seq<Option<B>>| #[trigger] vx_filter_map_outs(it.remaining(), f, outs)
            && r.remaining() == vx_somes(outs)
            && (r.will_return_none() ==> it.will_return_none() && outs.len() == it.remaining().len()),
{ it.filter_map(f) }

// rustdoc Iterator::all: "Tests if every element of the iterator matches a predicate. all() takes a closure that returns true or
// false. It applies this closure to each element of the iterator, and if they all return true, then so does all(). If any of
// them return false, it returns false. all() is short-circuiting; in other words, it will stop processing as soon as it finds a
// false ... An empty iterator returns true."
// vstd's contract of `Iterator::all` (precondition, both result cases) plus one fact that vstd leaves out: the result `true`
// means that the iterator was run until it returned None, so the prophesied item sequence of a lazy adapter is complete
// (`will_return_none()`, as in vstd's contracts of `Iterator::next` returning None and of `Iterator::collect`).
// (Same wrapper as in prelude/dm_metrics_std.rs; `all` takes `&mut self`, the E12 call site passes the iterator by value.)
#[verifier::external_body]
fn vx_all<I: Iterator, F: FnMut(I::Item) -> bool>(it: I, f: F) -> (r: bool)
    requires
        forall|k: int| 0 <= k < it.remaining().len() ==> #[trigger] f.requires((it.remaining()[k],)),
    ensures
        it.obeys_prophetic_iter_laws() && r ==> it.will_return_none()
            && forall|i: int| #![trigger it.remaining()[i]] 0 <= i < it.remaining().len() ==> f.ensures((it.remaining()[i],), true),
        it.obeys_prophetic_iter_laws() && !r ==> exists|i: int| #![trigger it.remaining()[i]] 0 <= i < it.remaining().len() && f.ensures((it.remaining()[i],), false),
{ let mut it = it; it.all(f) }

/// accs lists the accumulator values of a fold over src: the initial value, then the closure's result at every item (with
/// the closure's precondition met at every call)
spec fn vx_fold_chain<A, B, F: FnMut(B, A) -> B>(src: Seq<A>, init: B, f: F, accs: Seq<B>) -> bool {
    &&& accs.len() == src.len() + 1
    &&& accs[0] == init
    &&& forall|k: int| 0 <= k < src.len() ==> f.requires((#[trigger] accs[k], src[k])) && f.ensures((accs[k], src[k]), accs[k + 1])
}

// rustdoc Iterator::fold: "Folds every element into an accumulator by applying an operation, returning the final result.
// fold() takes two arguments: an initial value, and a closure with two arguments: an 'accumulator', and an element. The closure
// returns the value that the accumulator should have for the next iteration. The initial value is the value the accumulator
// will have on the first call. After applying this closure to every element of the iterator, fold() returns the accumulator."
// Precondition (so that every call of the closure meets the closure's precondition): it holds for the initial value at the
// first item, and the closure's precondition is inductive - a result obtained under it meets it at the next item.
// `fold` consumes the whole iterator (`will_return_none()`, as in vstd's contract of `Iterator::collect`).
#[verifier::external_body]
fn vx_fold<I: Iterator, B, F: FnMut(B, I::Item) -> B>(it: I, init: B, f: F) -> (r: B)
    requires
        it.remaining().len() > 0 ==> f.requires((init, it.remaining()[0])),
        forall|k: int, acc: B, out: B| 0 <= k < it.remaining().len() - 1 && f.requires((acc, it.remaining()[k]))
            && #[trigger] f.ensures((acc, it.remaining()[k]), out) ==> f.requires((out, it.remaining()[k + 1])),
    ensures
        it.obeys_prophetic_iter_laws() ==> it.will_return_none()
            && exists|accs: Seq<B>| #[trigger] vx_fold_chain(it.remaining(), init, f, accs) && r == accs.last(),
{ it.fold(init, f) }

// rustdoc Option::unwrap_unchecked: "Returns the contained Some value, consuming the self value, without checking that the
// value is not None. Safety: Calling this method on None is undefined behavior."  (Hence `Some` is a PRECONDITION.)
pub assume_specification<T> [Option::<T>::unwrap_unchecked] (o: Option<T>) -> (r: T)
    requires o is Some,
    ensures r == o->0;

// rustdoc core::iter::once: "Creates an iterator that yields an element exactly once."  A source: its item sequence is the
// one element, whatever happens later; `Once::next` is `Option::take`, which terminates.  (Verbatim from prelude/list_more_std.rs.)
#[verifier::external_body]
fn vx_once<T>(x: T) -> (r: impl Iterator<Item = T>)
    ensures
        r.obeys_prophetic_iter_laws(),
        r.decrease() is Some,
        r.remaining() == seq![x],
{ core::iter::once(x) }

// rustdoc Iterator::chain: "Takes two iterators and creates a new iterator over both in sequence. chain() will return a new
// iterator which will first iterate over values from the first iterator and then over values from the second iterator."
// `Chain::next` pulls from `a` until `a` returns None, then from `b`, and returns None when `b` does.  In the prophetic model:
// the items pulled from the chain are a prefix of a's items followed by b's items; if the chain is driven until it returns
// None then both parts were (so their item sequences are complete) and the chain's items are all of them.
// (Verbatim from prelude/list_more_std.rs.)
#[verifier::external_body]
fn vx_chain<A: Iterator, B: Iterator<Item = A::Item>>(a: A, b: B) -> (r: impl Iterator<Item = A::Item>)
    ensures
        r.obeys_prophetic_iter_laws() == (a.obeys_prophetic_iter_laws() && b.obeys_prophetic_iter_laws()),
        r.decrease() is Some == (a.decrease() is Some && b.decrease() is Some),
        r.obeys_prophetic_iter_laws() ==> r.remaining().len() <= a.remaining().len() + b.remaining().len(),
        r.obeys_prophetic_iter_laws() ==> forall|k: int| 0 <= k < r.remaining().len() ==> #[trigger] r.remaining()[k] == (a.remaining() + b.remaining())[k],
        r.obeys_prophetic_iter_laws() && r.will_return_none() ==> a.will_return_none() && b.will_return_none() && r.remaining() == a.remaining() + b.remaining(),
{ a.chain(b) }

// rustdoc core::iter::repeat_n: "Creates a new iterator that repeats a single element a given number of times. The repeat_n()
// function repeats a single value exactly n times."  (`RepeatN` clones the element for all but the last item, which is the
// element itself.)  A source: its item sequence does not depend on the future; `RepeatN::next` counts down.
#[verifier::external_body]
fn vx_repeat_n<T: Clone>(x: T, count: usize) -> (r: impl Iterator<Item = T>)
    ensures
        r.obeys_prophetic_iter_laws(),
        r.decrease() is Some,
        r.remaining().len() == count,
        forall|i: int| 0 <= i < count ==> vstd::pervasive::cloned(x, #[trigger] r.remaining()[i]),
{ core::iter::repeat_n(x, count) }
