// ---- prelude (unit edge_list_random only) ----
// A1 (rule E12 wrapper, `wrap=chain`), VERBATIM copy of `vx_chain` in prelude/edge_list_more_std.rs:
// rustdoc Iterator::chain: "Takes two iterators and creates a new iterator over both in sequence. chain() will return a new
// iterator which will first iterate over values from the first iterator and then over values from the second iterator."
// `Chain::next` pulls from `a` until `a` returns None, then from `b`, and returns None when `b` does.  In the prophetic model:
// the items pulled from the chain are a prefix of a's items followed by b's items; if the chain is driven until it returns
// None then both parts were (so their item sequences are complete) and the chain's items are all of them.
#[verifier::external_body]
fn vx_chain<A: Iterator, B: Iterator<Item = A::Item>>(a: A, b: B) -> (r: impl Iterator<Item = A::Item>)
    ensures
        r.obeys_prophetic_iter_laws() == (a.obeys_prophetic_iter_laws() && b.obeys_prophetic_iter_laws()),
        r.decrease() is Some == (a.decrease() is Some && b.decrease() is Some),
        r.obeys_prophetic_iter_laws() ==> r.remaining().is_prefix_of(a.remaining() + b.remaining()),
        r.obeys_prophetic_iter_laws() && r.will_return_none()
            ==> a.will_return_none() && b.will_return_none() && r.remaining() == a.remaining() + b.remaining(),
{ a.chain(b) }
