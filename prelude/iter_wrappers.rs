// ---- prelude: E12 adapter wrappers (assumed; each body is exactly the std call, each contract restates the rustdoc) ----
// used through the extractor option `wrap=enumerate,copied,sum,...`: `RECV.m(ARGS)` -> `vx_m(RECV, ARGS)`

spec fn seq_sum(s: Seq<usize>) -> int
    decreases s.len(),
{
    if s.len() == 0 { 0 } else { seq_sum(s.drop_last()) + s.last() }
}

// Verus cannot attach a contract to a PROVIDED trait method ("assume_specification for a provided trait method" is
// unsupported), so `Iterator::enumerate` / `Iterator::copied` get their assumed contract through a wrapper whose body is
// exactly the std call; the units replace `X.enumerate()` by `vx_enumerate(X)` (rule M, reported) and nothing else.

// rustdoc Iterator::enumerate: "Creates an iterator which gives the current iteration count as well as the next value.
// The iterator returned yields pairs (i, val), where i is the current index of iteration and val is the value returned by
// the iterator."  (An item sequence is a Seq of exec values taken from memory, hence shorter than usize::MAX: no overflow.)
#[verifier::external_body]
fn vx_enumerate<I: Iterator>(it: I) -> (r: impl Iterator<Item = (usize, I::Item)>)
    ensures
        r.obeys_prophetic_iter_laws() == it.obeys_prophetic_iter_laws(),
        r.decrease() is Some == it.decrease() is Some,
        r.will_return_none() == it.will_return_none(),
        r.remaining().len() == it.remaining().len(),
        forall|i: int| 0 <= i < it.remaining().len() ==> #[trigger] r.remaining()[i] == (i as usize, it.remaining()[i]),
{ it.enumerate() }

// rustdoc Iterator::copied: "Creates an iterator which copies all of its elements. This is useful when you have an iterator
// over &T, but you need an iterator over T."
#[verifier::external_body]
fn vx_copied<'a, T: Copy + 'a, I: Iterator<Item = &'a T>>(it: I) -> (r: impl Iterator<Item = T>)
    ensures
        r.obeys_prophetic_iter_laws() == it.obeys_prophetic_iter_laws(),
        r.decrease() is Some == it.decrease() is Some,
        r.remaining() == it.remaining().unref(),
{ it.copied() }


// rustdoc Iterator::sum: "Sums the elements of an iterator. Takes each element, adds them together, and returns the result.
// An empty iterator returns the additive identity ("zero") of the type. ... Panics: When calling sum() and a primitive
// integer type is being returned, this method will panic if the computation overflows and overflow checks are enabled."
// (Without overflow checks the result wraps; the contract therefore says nothing when the mathematical sum exceeds usize.)
// `sum` consumes the whole iterator, so (as in vstd's contract of `Iterator::collect`) the prophesied item sequence
// `remaining()` is complete: `will_return_none()`.
// Wrapper for the same reason as vx_enumerate: `sum` is a provided trait method.
#[verifier::external_body]
fn vx_sum<I: Iterator<Item = usize>>(it: I) -> (r: usize)
    ensures
        it.obeys_prophetic_iter_laws() ==> it.will_return_none(),
        it.obeys_prophetic_iter_laws() && seq_sum(it.remaining()) <= usize::MAX ==> r == seq_sum(it.remaining()),
{ it.sum() }
