// ---- assumed std contracts used by units/johnson.rs only (each restates the rustdoc) ----
// needs at crate top: #![feature(allocator_api)] use std::collections::{BTreeSet, btree_set}; use std::alloc::Allocator;

// rustdoc BTreeSet::pop_first: "Removes the first element from the set and returns it, if any. The first element is always
// the minimum element in the set."
pub assume_specification<T: Ord, A: Allocator + Clone> [BTreeSet::<T, A>::pop_first] (s: &mut BTreeSet<T, A>) -> (r: Option<T>)
    ensures
        old(s)@.len() == 0 ==> r is None && final(s)@ == old(s)@,
        old(s)@.len() > 0 ==> r is Some && old(s)@.contains(r->0) && final(s)@ == old(s)@.remove(r->0);

// rustdoc Iterator::min: "Returns the minimum element of an iterator. If several elements are equally minimum, the first
// element is returned. If the iterator is empty, None is returned."  (`btree_set::Iter` overrides the provided method -
// BTreeSet iteration is ascending, so it is `self.next()` - which is why a contract can be attached to it directly.)
pub assume_specification<'a, T> [<btree_set::Iter<'a, T> as Iterator>::min] (it: btree_set::Iter<'a, T>) -> (r: Option<&'a T>)
    where &'a T: Ord
    ensures
        it.remaining().len() == 0 ==> r is None,
        it.remaining().len() > 0 ==> r == Some(it.remaining()[0]);

/// `Option<&usize>` keys in the derived order of Option: None < Some(_), Some(a) <= Some(b) iff a <= b
spec fn opt_le(a: Option<&usize>, b: Option<&usize>) -> bool {
    match (a, b) {
        (None, _) => true,
        (Some(_), None) => false,
        (Some(x), Some(y)) => *x <= *y,
    }
}

/// "calling the key function on x can return k"
spec fn key_says<'a, F: Fn(&&'a BTreeSet<usize>) -> Option<&'a usize>>(f: F, x: &'a BTreeSet<usize>, k: Option<&'a usize>) -> bool {
    f.ensures((&x,), k)
}

// rustdoc Iterator::min_by_key: "Returns the element that gives the minimum value from the specified function. If several
// elements are equally minimum, the first element is returned. If the iterator is empty, None is returned."
// `min_by_key` is a PROVIDED trait method, hence the E12 wrapper (extractor option `wrap=min_by_key`), body exactly the std call,
// specialised to the one instance used: a slice iterator over BTreeSet<usize> with an Option<&usize> key.
// `keys` are the values the key function returned for the elements (each satisfies the key function's postcondition).
#[verifier::external_body]
fn vx_min_by_key<'a, F: Fn(&&'a BTreeSet<usize>) -> Option<&'a usize>>(it: core::slice::Iter<'a, BTreeSet<usize>>, f: F) -> (r: Option<&'a BTreeSet<usize>>)
    requires
        forall|x: &'a BTreeSet<usize>| #[trigger] f.requires((&x,)),
    ensures
        it.remaining().len() == 0 ==> r is None,
        it.remaining().len() > 0 ==> r is Some && exists|keys: Seq<Option<&'a usize>>, i: int| {
            &&& keys.len() == it.remaining().len()
            &&& forall|j: int| 0 <= j < keys.len() ==> #[trigger] key_says(f, it.remaining()[j], keys[j])
            &&& 0 <= i < keys.len()
            &&& #[trigger] min_key_at(keys, i)
            &&& r->0 == it.remaining()[i]
        },
{ it.min_by_key(f) }

/// i is the first position of a minimal key
spec fn min_key_at(keys: Seq<Option<&usize>>, i: int) -> bool {
    &&& forall|j: int| 0 <= j < keys.len() ==> opt_le(keys[i], #[trigger] keys[j])
    &&& forall|j: int| 0 <= j < i ==> !opt_le(#[trigger] keys[j], keys[i])
}
