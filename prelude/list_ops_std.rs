// ---- prelude (list_ops / edge_list_ops only): assumed contracts on std, each restating the rustdoc ----
// needs at crate top:  use std::collections::BTreeSet; use std::collections::btree_set; use vstd::std_specs::iter::IteratorSpec;

// A: rustdoc `impl<T: Ord> FromIterator<T> for BTreeSet<T>` ("Creates a value from an iterator") together with the
// BTreeSet rustdoc "An ordered set": the collected set contains exactly the items the iterator yields.  vstd specifies
// `Iterator::collect` as `FromIteratorSpec::from_iter_ensures(self.remaining(), collection)` and interprets that
// predicate for Vec only; for BTreeSet it is uninterpreted (the orphan rule forbids implementing the vstd trait for
// BTreeSet here), so its meaning is assumed by this axiom.  Only the direction needed by callers is assumed, and (as in vstd's
// own BTreeSet contracts) only for element types whose `Ord` is a lawful total order.
pub broadcast axiom fn axiom_btree_set_from_iter<T: Ord>(remaining: Seq<T>, s: BTreeSet<T>)
    ensures
        vstd::laws_cmp::obeys_cmp::<T>() && #[trigger] <BTreeSet<T> as vstd::std_specs::iter::FromIteratorSpec<T>>::from_iter_ensures(remaining, s)
            ==> s@ == remaining.to_set();

// A: rustdoc `impl<T: Ord, const N: usize> From<[T; N]> for BTreeSet<T>`: "Converts a [T; N] into a BTreeSet<T>.
// If the array contains any equal values, all but one will be dropped."  The set of the array's elements.
pub assume_specification<T: Ord, const N: usize> [<BTreeSet<T> as From<[T; N]>>::from] (a: [T; N]) -> (r: BTreeSet<T>)
    ensures vstd::laws_cmp::obeys_cmp::<T>() ==> r@ == a@.to_set();

// A: rustdoc `impl<'a, T, A> IntoIterator for &'a BTreeSet<T, A>` ("Creates an iterator from a value"; the std source is
// `self.iter()`): same contract as vstd's `BTreeSet::iter` ("Gets an iterator that visits the elements in the BTreeSet
// in ascending order").
pub assume_specification<'a, T, A: core::alloc::Allocator + Clone> [<&'a BTreeSet<T, A> as IntoIterator>::into_iter] (s: &'a BTreeSet<T, A>) -> (r: btree_set::Iter<'a, T>)
    ensures
        vstd::std_specs::btree::key_obeys_cmp_spec::<T>() ==> {
            &&& r.remaining().unref().to_set() == s@
            &&& r.remaining().no_duplicates()
            &&& r.remaining().len() == s@.len()
            &&& vstd::std_specs::btree::increasing_seq(r.remaining())
            &&& r.decrease() is Some
        },
        r.obeys_prophetic_iter_laws();

// A: rustdoc `Extend::extend`: "Extends a collection with the contents of an iterator" and `impl<T, A> Extend<T> for Vec<T, A>`
// (the items are appended in iteration order; `Vec::extend` is `self.extend_desugared(iter.into_iter())`).  The appended
// items are the item sequence of the iterator that `iter.into_iter()` returns.
pub assume_specification<T, A: core::alloc::Allocator, I: IntoIterator<Item = T>> [<Vec<T, A> as Extend<T>>::extend::<I>] (v: &mut Vec<T, A>, iter: I)
    ensures
        exists|it: <I as IntoIterator>::IntoIter| call_ensures(<I as IntoIterator>::into_iter, (iter,), it)
            && #[trigger] final(v)@ == old(v)@ + it.remaining();
