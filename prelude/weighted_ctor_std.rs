// NOTE (session 4): NO LONGER INCLUDED by any unit. The assumed `arcs()` contract below was replaced in every unit by
// `//@import units/inc/weighted_arcs.inc.rs`, where the same clauses are PROVED for the real body (rule E14d). Kept for reference only.
// ---- prelude (unit weighted_ctor only) ----
// needs at crate top:  use std::collections::BTreeMap;  use vstd::std_specs::iter::IteratorSpec;

/// lexicographic order on arcs
spec fn wctor_lex_lt(a: (usize, usize), b: (usize, usize)) -> bool { a.0 < b.0 || (a.0 == b.0 && a.1 < b.1) }

/// `s` lists exactly the pairs (u, v) with `u < rows.len()` and `v` a key of `rows[u]`, each exactly once, in ascending
/// lexicographic order. Stated over the raw rows: nothing is assumed about their validity.
spec fn wctor_arcs_of<W>(rows: Seq<BTreeMap<usize, W>>, s: Seq<(usize, usize)>) -> bool {
    &&& forall|u: usize, v: usize| u < rows.len() && #[trigger] rows[u as int]@.contains_key(v) ==> s.contains((u, v))
    &&& forall|i: int| 0 <= i < s.len() ==> (#[trigger] s[i]).0 < rows.len() && rows[s[i].0 as int]@.contains_key(s[i].1)
    &&& forall|i: int, j: int| 0 <= i < j < s.len() ==> wctor_lex_lt(#[trigger] s[i], #[trigger] s[j])
}

// ASSUMED contract of `impl<W> Arcs for AdjacencyListWeighted<W>::arcs` (src/repr/adjacency_list_weighted/mod.rs). Real body:
//
//     fn arcs(&self) -> impl Iterator<Item = (usize, usize)> {
//         self.arcs
//             .iter()
//             .enumerate()
//             .flat_map(|(u, set)| set.iter().map(move |(&v, _)| (u, v)))
//     }
//
// It cannot be verified: the outer closure returns an unnameable iterator type (`Map<btree_map::Iter, {closure}>`), on which
// Verus crashes, and `enumerate` / `flat_map` have no vstd specification. The contract restates what that body does over the raw
// field `self.arcs` and requires NOTHING (in particular not `wf()`):
//   * `slice::Iter` + `enumerate` yield (u, &self.arcs[u]) for u = 0, 1, .., self.arcs.len() - 1 in that order;
//   * `BTreeMap::iter` yields the entries of row u "sorted by key" (rustdoc), each key once; the inner closure maps (&v, _) to (u, v);
//   * `flat_map` concatenates these per-row sequences in order.
// Hence: exactly the pairs (u, v) with u < self.arcs.len() and v a key of self.arcs[u], each once, ascending lexicographically;
// the iterator is finite and its prophesied item sequence is that full sequence.
impl<W> AdjacencyListWeighted<W> {
    #[verifier::external_body]
    fn arcs(&self) -> (r: impl Iterator<Item = (usize, usize)> + use<'_, W>)
        ensures
            r.obeys_prophetic_iter_laws(),
            r.decrease() is Some,
            wctor_arcs_of(self.arcs@, r.remaining()),
    {
        self.arcs
            .iter()
            .enumerate()
            .flat_map(|(u, set)| set.iter().map(move |(&v, _)| (u, v)))
    }
}
