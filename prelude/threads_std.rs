// ---- prelude (unit list_threaded only): the TRUSTED CONCURRENCY CONTRACT and the assumed std contracts of the thread-parallel
// functions of src/repr/adjacency_list/mod.rs (each restates the rustdoc) ----
// needs at crate top:  #![feature(allocator_api)]  use std::thread::{JoinHandle, spawn, available_parallelism};
//                      use core::num::NonZero;  use std::collections::BTreeSet;
//
// What is assumed about threads (C17), and nothing else:
//  (T1) the number of worker threads is whatever `available_parallelism()` returns: an ARBITRARY `io::Result<NonZero<usize>>`
//       (no postcondition at all); `NonZero::get` (vstd) and `Result::map_or` (below) then give some t >= 1 and nothing more,
//       so every proof holds for every thread count;
//  (T2) `spawn(f)` runs `f` on a new thread and `join` returns what `f` returned: the value satisfies f's postcondition.  A
//       spawned closure is `move` + `'static` + `Send`: it owns its captures, there is no shared memory, so its whole effect is
//       its return value, whatever the scheduling;
//  (T3) a worker whose closure does not panic is joined with `Ok` (see vx_join_unwrap_unchecked).

// opaque std types named in the signatures below
#[verifier::external_type_specification]
#[verifier::external_body]
#[verifier::reject_recursive_types(T)]
pub struct ExJoinHandle<T>(JoinHandle<T>);

#[verifier::external_type_specification]
#[verifier::external_body]
pub struct ExIoError(std::io::Error);

/// "joining h may yield r": the abstract meaning of a join handle (uninterpreted; tied to the worker's contract by `spawn`)
pub uninterp spec fn joins_to<T>(h: JoinHandle<T>, r: T) -> bool;

// A (T1): rustdoc std::thread::available_parallelism: "Returns an estimate of the default amount of parallelism a program
// should use. ... This function will, but is not limited to, return errors in the following cases: ..."  No postcondition:
// the result is an arbitrary value of its type (Err, or Ok of any non-zero number).
pub assume_specification [std::thread::available_parallelism] () -> (r: std::io::Result<NonZero<usize>>);

// A: rustdoc Result::map_or: "Returns the provided default (if Err), or applies a function to the contained value (if Ok)."
pub assume_specification<T, E, U, F: FnOnce(T) -> U> [Result::<T, E>::map_or] (o: Result<T, E>, default: U, f: F) -> (r: U)
    requires o is Ok ==> f.requires((o->Ok_0,)),
    ensures
        o is Err ==> r == default,
        o is Ok ==> f.ensures((o->Ok_0,), r);

// A (T2): rustdoc std::thread::spawn: "Spawns a new thread, returning a JoinHandle for it. The join handle provides a join
// method that can be used to join the spawned thread. ... the closure [has the] 'static bound [so it] captures ... by value";
// rustdoc JoinHandle::join: "Waits for the associated thread to finish. ... returns the value produced by the spawned
// closure".  The closure is called exactly once (so its precondition is owed here) and joining the handle yields a value
// that satisfies the closure's postcondition.
pub assume_specification<F: FnOnce() -> T + Send + 'static, T: Send + 'static> [std::thread::spawn] (f: F) -> (h: JoinHandle<T>)
    requires f.requires(()),
    ensures forall|r: T| #[trigger] joins_to(h, r) ==> f.ensures((), r);

// A (T2, T3): `handle.join().unwrap_unchecked()`.  rustdoc JoinHandle::join: "Waits for the associated thread to finish. ...
// If the associated thread panics, Err is returned with the parameter given to panic"; rustdoc Result::unwrap_unchecked:
// "Returns the contained Ok value, consuming the self value, without checking that the value is not an Err. Safety: Calling
// this method on an Err is undefined behavior."  Verus cannot type `Result<T, Box<dyn Any + Send>>` ("The verifier does not
// yet support the following Rust feature: dyn with more that one trait"), so the two calls cannot get separate contracts
// (`join` ensures `res is Ok && joins_to(h, res->Ok_0)`, `unwrap_unchecked` requires `is Ok`); they are fused in this one
// wrapper whose body is exactly the source expression (rule M in the unit).  Assumed: the worker did not panic (its closure
// body is verified: no `vpanic`, no arithmetic overflow, no out-of-bounds index) and the value is the worker's.
#[verifier::external_body]
unsafe fn vx_join_unwrap_unchecked<T>(h: JoinHandle<T>) -> (r: T)
    ensures joins_to(h, r),
{ h.join().unwrap_unchecked() }

// rustdoc `Ord::min`: "Compares and returns the minimum of two values. Returns the first argument if the comparison
// determines them to be equal."  `Ord::min` is a PROVIDED trait method (Verus: "assume_specification for a provided trait
// method" is unsupported), hence the E12 wrapper (extractor option `wrap=min`) whose body is exactly the std call.
// (Verbatim from prelude/tarjan_std.rs.)
spec fn vx_min_spec(a: usize, b: usize) -> usize { if a <= b { a } else { b } }

#[verifier::external_body]
fn vx_min(a: usize, b: usize) -> (r: usize)
    ensures r == vx_min_spec(a, b),
{ a.min(b) }

// A: rustdoc slice::sort_unstable_by_key: "Sorts the slice in ascending order with a key extraction function, without
// preserving the initial order of equal elements. ... May panic if the implementation of Ord for K does not implement a
// total order".  The result is a rearrangement of the input (same multiset of elements) whose keys ascend: any two
// elements of the result have keys (values the key function returns for them) in ascending order.  The key function is
// called on elements of the slice only.
pub assume_specification<T, K: Ord, F: FnMut(&T) -> K> [<[T]>::sort_unstable_by_key::<K, F>] (s: &mut [T], f: F)
    requires
        forall|i: int| 0 <= i < old(s)@.len() ==> #[trigger] f.requires((&old(s)@[i],)),
    ensures
        final(s)@.to_multiset() == old(s)@.to_multiset(),
        vstd::laws_cmp::obeys_cmp::<K>() ==> forall|i: int, j: int| #![trigger final(s)@[i], final(s)@[j]] 0 <= i < j < final(s)@.len() ==>
            exists|ki: K, kj: K| #[trigger] f.ensures((&final(s)@[i],), ki) && #[trigger] f.ensures((&final(s)@[j],), kj)
                && vstd::std_specs::cmp::OrdSpec::cmp_spec(&ki, &kj) != core::cmp::Ordering::Greater;
