// ---- prelude (list_core / edge_list_core only): assumed contracts on std, each restating the rustdoc ----

// rustdoc Option::is_some_and: "Returns true if the option is a Some and the value inside of it matches a predicate."
// (`f` is called exactly once, on the contained value, iff the option is Some; its result is returned.)
pub assume_specification<T, F: FnOnce(T) -> bool> [Option::<T>::is_some_and] (o: Option<T>, f: F) -> (r: bool)
    requires o is Some ==> f.requires((o->0,)),
    ensures
        o is None ==> !r,
        o is Some ==> f.ensures((o->0,), r);

// rustdoc Option::map_or_else: "Computes a default function result (if none), or applies a different function to the
// contained value (if any)."
pub assume_specification<T, U, D: FnOnce() -> U, F: FnOnce(T) -> U> [Option::<T>::map_or_else] (o: Option<T>, default: D, f: F) -> (r: U)
    requires
        o is None ==> default.requires(()),
        o is Some ==> f.requires((o->0,)),
    ensures
        o is None ==> default.ensures((), r),
        o is Some ==> f.ensures((o->0,), r);
