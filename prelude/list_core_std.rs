// (moved to prelude/std_contracts.rs: Option::is_some_and, Option::map_or_else)
