// ---- prelude (unit edge_list_more): E12 adapter wrappers (assumed; each body is exactly the std call, each contract restates the rustdoc) ----
// used through the extractor option `wrap=copied,count,filter_map,chain,all`: `RECV.m(ARGS)` -> `vx_m(RECV, ARGS)`
// (`vx_copied` comes from prelude/iter_wrappers.rs, `vx_count` from prelude/blanket_std.rs)
// needs at crate top:  use vstd::std_specs::iter::IteratorSpec;
//
// vstd's prophetic model: `remaining()` of an ADAPTER (Map, Filter, and the wrappers below) is the sequence of items that WILL be
// pulled from it; it is the image of the whole source only if the adapter is driven until it returns None
// (`will_return_none()`).  SOURCES (range / BTreeSet iterators) have a `remaining()` that does not depend on the future.

/// the `Some` values of a sequence of options, in order
spec fn seq_somes<B>(s: Seq<Option<B>>) -> Seq<B>
    decreases s.len(),
{
    if s.len() == 0 { Seq::empty() }
    else if s.last() is Some { seq_somes(s.drop_last()).push(s.last()->0) }
    else { seq_somes(s.drop_last()) }
}

/// `outs` are the closure results on a prefix of the source items `src`; `rem` are their `Some` values
spec fn vx_filter_map_post<A, B, F: FnMut(A) -> Option<B>>(src: Seq<A>, f: F, outs: Seq<Option<B>>, rem: Seq<B>) -> bool {
    &&& outs.len() <= src.len()
    &&& forall|j: int| 0 <= j < outs.len() ==> f.ensures((src[j],), #[trigger] outs[j])
    &&& rem == seq_somes(outs)
}

// rustdoc Iterator::filter_map: "Creates an iterator that both filters and maps. The returned iterator yields only the values
// for which the supplied closure returns Some(value)."  Stated like vstd's contract of `Iterator::filter` (same preconditions):
// the closure is applied to the source items in order; the item sequence is the `Some` results on a prefix of the source (the
// items pulled so far), on the whole source once the adapter has returned None.
#[verifier::external_body]
fn vx_filter_map<B, I: Iterator, F: FnMut(I::Item) -> Option<B>>(it: I, f: F) -> (r: impl Iterator<Item = B>)
    requires
        it.obeys_prophetic_iter_laws(),
        it.decrease() is Some,
        forall|k: int| 0 <= k < it.remaining().len() ==> #[trigger] f.requires((it.remaining()[k],)),
    ensures
        r.obeys_prophetic_iter_laws(),
        r.decrease() is Some,
        exists|outs: Seq<Option<B>>| #[trigger] vx_filter_map_post(it.remaining(), f, outs, r.remaining())
            && (r.will_return_none() ==> it.will_return_none() && outs.len() == it.remaining().len()),
{ it.filter_map(f) }

// rustdoc bool::then_some: "Returns Some(t) if the bool is true, or None otherwise."
pub assume_specification<T> [bool::then_some::<T>] (b: bool, t: T) -> (r: Option<T>)
    ensures
        b ==> r == Some(t),
        !b ==> r is None;

// rustdoc Iterator::chain: "Takes two iterators and creates a new iterator over both in sequence. chain() will return a new
// iterator which will first iterate over values from the first iterator and then over values from the second iterator."
// `Chain::next` pulls from `a` until `a` returns None, then from `b`, and returns None when `b` does.  In the prophetic model:
// the items pulled from the chain are a prefix of a's items followed by b's items; if the chain is driven until it returns
// None then both parts were (so their item sequences are complete) and the chain's items are all of them.
#[verifier::external_body]
fn vx_chain<A: Iterator, B: Iterator<Item = A::Item>>(a: A, b: B) -> (r: impl Iterator<Item = A::Item>)
    ensures
        r.obeys_prophetic_iter_laws() == (a.obeys_prophetic_iter_laws() && b.obeys_prophetic_iter_laws()),
        r.decrease() is Some == (a.decrease() is Some && b.decrease() is Some),
        r.obeys_prophetic_iter_laws() ==> r.remaining().is_prefix_of(a.remaining() + b.remaining()),
        r.obeys_prophetic_iter_laws() && r.will_return_none()
            ==> a.will_return_none() && b.will_return_none() && r.remaining() == a.remaining() + b.remaining(),
{ a.chain(b) }

// rustdoc Iterator::all: "Tests if every element of the iterator matches a predicate. all() takes a closure that returns true or
// false. It applies this closure to each element of the iterator, and if they all return true, then so does all(). If any of
// them return false, it returns false. all() is short-circuiting; in other words, it will stop processing as soon as it finds a
// false ... An empty iterator returns true."
// vstd's contract of `Iterator::all` (precondition, both result cases) plus one fact that vstd leaves out: the result `true`
// means that the iterator was run until it returned None, so the prophesied item sequence is complete (`will_return_none()`,
// as in vstd's contracts of `Iterator::next` returning None and of `Iterator::collect`).  Verbatim from prelude/dm_metrics_std.rs.
#[verifier::external_body]
fn vx_all<I: Iterator, F: FnMut(I::Item) -> bool>(it: I, f: F) -> (r: bool)
    requires
        forall|k: int| 0 <= k < it.remaining().len() ==> #[trigger] f.requires((it.remaining()[k],)),
    ensures
        it.obeys_prophetic_iter_laws() && r ==> it.will_return_none()
            && forall|i: int| #![trigger it.remaining()[i]] 0 <= i < it.remaining().len() ==> f.ensures((it.remaining()[i],), true),
        it.obeys_prophetic_iter_laws() && !r ==> exists|i: int| #![trigger it.remaining()[i]] 0 <= i < it.remaining().len() && f.ensures((it.remaining()[i],), false),
{ let mut it = it; it.all(f) }
