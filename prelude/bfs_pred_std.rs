// ---- prelude (bfs_pred only): assumed contract on std, restating the rustdoc ----

// rustdoc <[T]>::reverse: "Reverses the order of elements in the slice, in place."
// (`Vec<usize>::reverse()` resolves to this method through DerefMut)
pub assume_specification<T> [<[T]>::reverse] (s: &mut [T])
    ensures final(s)@ == old(s)@.reverse();
