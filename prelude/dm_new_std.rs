// ---- prelude for units/dm_new.rs (and its importers): assumed std contracts behind `DistanceMatrix::new` ----
// Capacity model.  vstd's view of a Vec is its element sequence only; the allocation size is not part of it.
// `vec_cap(v)` is an uninterpreted function standing for `v.capacity()`: nothing is known about it except what the
// two contracts below say.
pub uninterp spec fn vec_cap<T, A: core::alloc::Allocator>(v: &Vec<T, A>) -> nat;

// A1 (E12 wrapper for the associated fn `Vec::with_capacity`; vstd already carries a specification for it - "the
//    result is empty" - and a function cannot be given a second `assume_specification`, hence the wrapper).
// rustdoc Vec::with_capacity: "Constructs a new, empty Vec<T> with at least the specified capacity.  The vector will
// be able to hold at least `capacity` elements without reallocating. [...] # Panics: Panics if the new capacity
// exceeds isize::MAX bytes."  (The panic - like allocation failure - is a diverging, allowed outcome: the
// postcondition only speaks about the returning case.)
#[verifier::external_body]
fn vx_with_capacity<T>(capacity: usize) -> (r: Vec<T>)
    ensures
        r@.len() == 0,
        vec_cap(&r) >= capacity,
{
    Vec::with_capacity(capacity)
}

// A2 `Vec::set_len` (unsafe fn).
// rustdoc Vec::set_len: "Forces the length of the vector to new_len.  This is a low-level operation that maintains
// none of the normal invariants of the type. [...] # Safety: new_len must be less than or equal to capacity(); the
// elements at old_len..new_len must be initialized."
// Model: the FIRST safety condition is the precondition.  The SECOND one is deliberately not a precondition - the
// crate calls `set_len(size)` on a fresh allocation and initialises the slots right afterwards, so it does not hold at
// the call.  Instead the postcondition says NOTHING about the contents: the elements of `final(v)@` are arbitrary, the
// verifier can derive no fact from reading one.  Reading (or dropping) such a slot before it has been written would be
// UB in the real program; the obligation that replaces the second safety condition is therefore carried by the caller:
// `DistanceMatrix::new` writes every slot `0..new_len` (loop invariant `forall k < i: dist@[k] == infinity`, exit at
// i == new_len) and contains no read of `dist[..]` at all - the only accesses to `dist` between `set_len` and the
// return are the index assignments `dist[i] = infinity` (ptr::write in the source: no drop of the old value) and the
// move into the struct literal.  W: Copy, so no destructor runs on a panic path either (there is none after set_len).
pub assume_specification<T, A: core::alloc::Allocator> [Vec::<T, A>::set_len] (v: &mut Vec<T, A>, new_len: usize)
    requires
        new_len <= vec_cap(old(v)),
    ensures
        final(v)@.len() == new_len;
