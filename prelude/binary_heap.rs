// ---- prelude: std::collections::BinaryHeap as a multiset (assumed; restates rustdoc) ----
// needs at crate top:  #![feature(allocator_api)]  use std::collections::BinaryHeap; use core::cmp::Reverse; use vstd::multiset::Multiset;
#[verifier::external_type_specification]
#[verifier::external_body]
#[verifier::accept_recursive_types(T)]
#[verifier::reject_recursive_types(A)]
pub struct ExBinaryHeap<T, A: std::alloc::Allocator>(BinaryHeap<T, A>);

#[verifier::external_type_specification]
pub struct ExReverse<T>(Reverse<T>);

/// the multiset of items in the heap
pub uninterp spec fn heap_items<T, A: std::alloc::Allocator>(h: &BinaryHeap<T, A>) -> Multiset<T>;
/// `a <= b` in T's `Ord` (uninterpreted; only the consequence below is assumed)
pub uninterp spec fn ord_le<T>(a: T, b: T) -> bool;

pub assume_specification<T>[ BinaryHeap::<T>::with_capacity ](n: usize) -> (r: BinaryHeap<T>)
    ensures heap_items(&r) == Multiset::<T>::empty();

pub assume_specification<T: Ord, A: std::alloc::Allocator>[ BinaryHeap::<T, A>::push ](h: &mut BinaryHeap<T, A>, x: T)
    ensures heap_items(final(h)) == heap_items(old(h)).insert(x);

/// rustdoc: "Removes the greatest item from the binary heap and returns it, or None if it is empty."
pub assume_specification<T: Ord, A: std::alloc::Allocator>[ BinaryHeap::<T, A>::pop ](h: &mut BinaryHeap<T, A>) -> (r: Option<T>)
    ensures
        r is None ==> heap_items(old(h)).len() == 0 && heap_items(final(h)) == heap_items(old(h)),
        r matches Some(x) ==> heap_items(old(h)).count(x) > 0 && heap_items(final(h)) == heap_items(old(h)).remove(x)
            && forall|y: T| #[trigger] heap_items(old(h)).count(y) > 0 ==> ord_le(y, x);

/// derived lexicographic `Ord` on tuples + `Reverse`: (Reverse(k1), _) <= (Reverse(k2), _) implies k1 >= k2
pub broadcast axiom fn axiom_ord_le_reverse_key<T>(a: (Reverse<usize>, T), b: (Reverse<usize>, T))
    ensures #[trigger] ord_le(a, b) ==> a.0.0 >= b.0.0;
