// ---- E2 (variant): opaque digraph `Dga` standing for any `D: OutNeighbors + Vertices` whose vertex ids need NOT be 0..order
// ---- (e.g. an AdjacencyMap with arbitrary keys); its methods carry the TRAIT CONTRACT (assumed for each representation
// ---- unless that representation's method is proved against the same text).
#[verifier::external_body]
struct Dga { _p: () }

impl Dga {
    /// vertex set V: any finite set of usize ids (a vstd `Set` is finite)
    uninterp spec fn verts(&self) -> Set<int>;
    /// arc relation A
    uninterp spec fn has(&self, u: int, v: int) -> bool;
    /// digraph validity: V is a finite set of usize ids whose size fits a usize (`Order::order` returns usize), arcs join
    /// distinct vertices of V
    spec fn wf(&self) -> bool {
        &&& self.verts().len() <= usize::MAX
        &&& forall|x: int| #[trigger] self.verts().contains(x) ==> 0 <= x <= usize::MAX
        &&& forall|u: int, v: int| #[trigger] self.has(u, v) ==> self.verts().contains(u) && self.verts().contains(v) && u != v
    }

    /// OutNeighbors::out_neighbors: exactly the out-neighbours of u, no repeats (documented: panics if u is not in the digraph)
    #[verifier::external_body]
    fn out_neighbors(&self, u: usize) -> (r: impl Iterator<Item = usize> + use<'_>)
        requires self.verts().contains(u as int),
        ensures
            r.obeys_prophetic_iter_laws(),
            r.decrease() is Some,
            r.remaining().no_duplicates(),
            forall|v: usize| self.has(u as int, v as int) ==> r.remaining().contains(v),
            forall|i: int| 0 <= i < r.remaining().len() ==> self.has(u as int, #[trigger] r.remaining()[i] as int),
    { core::iter::empty() }

    /// Vertices::vertices: exactly the members of V, each once, in ascending order
    #[verifier::external_body]
    fn vertices(&self) -> (r: impl Iterator<Item = usize> + use<'_>)
        ensures
            r.obeys_prophetic_iter_laws(),
            r.decrease() is Some,
            forall|i: int, j: int| 0 <= i < j < r.remaining().len() ==> #[trigger] r.remaining()[i] < #[trigger] r.remaining()[j],
            forall|i: int| 0 <= i < r.remaining().len() ==> self.verts().contains(#[trigger] r.remaining()[i] as int),
            forall|v: usize| self.verts().contains(v as int) ==> r.remaining().contains(v),
    { core::iter::empty() }
}
