// ---- prelude: assumed contracts on std (trusted; each restates the rustdoc) ----
pub assume_specification<T, I: core::slice::SliceIndex<[T]>> [<[T]>::get_unchecked_mut::<I>] (s: &mut [T], i: I) -> (r: &mut <I as core::slice::SliceIndex<[T]>>::Output)
    requires i.in_bounds(old(s)),
    ensures i.index_mut_postcondition(old(s), final(s), &*r, &*final(r));

pub assume_specification<T, I: core::slice::SliceIndex<[T]>> [<[T]>::get_unchecked::<I>] (s: &[T], i: I) -> (r: &<I as core::slice::SliceIndex<[T]>>::Output)
    requires i.in_bounds(s),
    ensures i.index_postcondition(s, r);

pub assume_specification [usize::div_ceil] (a: usize, b: usize) -> (r: usize)
    requires b != 0,
    ensures r as int == (a as int + b as int - 1) / (b as int);

// rustdoc Option::is_some_and: "Returns true if the option is a Some and the value inside of it matches a predicate."
// (`f` is called exactly once, on the contained value, iff the option is Some; its result is returned.)
pub assume_specification<T, F: FnOnce(T) -> bool> [Option::<T>::is_some_and] (o: Option<T>, f: F) -> (r: bool)
    requires o is Some ==> f.requires((o->0,)),
    ensures
        o is None ==> !r,
        o is Some ==> f.ensures((o->0,), r);

// rustdoc Option::map_or_else: "Computes a default function result (if none), or applies a different function to the
// contained value (if any)."
pub assume_specification<T, U, D: FnOnce() -> U, F: FnOnce(T) -> U> [Option::<T>::map_or_else] (o: Option<T>, default: D, f: F) -> (r: U)
    requires
        o is None ==> default.requires(()),
        o is Some ==> f.requires((o->0,)),
    ensures
        o is None ==> default.ensures((), r),
        o is Some ==> f.ensures((o->0,), r);

// the only external_body function: a diverging panic (panicking is an allowed outcome; UB is not)
#[verifier::external_body]
fn vpanic() -> ! { panic!() }

// E4b (option `safeindex`): the bounds check of safe indexing. `X[e]` on a Vec / slice panics when `e >= X.len()` (language-
// defined); the extractor writes `X[vx_idx(e, X.len())]`, and this VERIFIED helper diverges exactly in that case, so an
// out-of-range index is an allowed outcome (a panic) instead of a precondition of the enclosing function.
fn vx_idx(i: usize, n: usize) -> (r: usize)
    ensures
        r == i,
        i < n,
{
    if i >= n { vpanic(); }
    i
}

// E4: `.expect(msg)` / `.unwrap()` are documented panics; `vexpect()` diverges on None / Err
trait VExpect<T>: Sized {
    spec fn vx_ok(self) -> bool;
    spec fn vx_val(self) -> T;
    fn vexpect(self) -> (r: T)
        ensures self.vx_ok(), r == self.vx_val();
}
impl<T> VExpect<T> for Option<T> {
    spec fn vx_ok(self) -> bool { self is Some }
    spec fn vx_val(self) -> T { self->0 }
    #[verifier::external_body]
    fn vexpect(self) -> (r: T) { self.unwrap() }
}
impl<T, E: core::fmt::Debug> VExpect<T> for Result<T, E> {
    spec fn vx_ok(self) -> bool { self is Ok }
    spec fn vx_val(self) -> T { self->Ok_0 }
    #[verifier::external_body]
    fn vexpect(self) -> (r: T) { self.unwrap() }
}
