// ---- prelude (unit edge_list_gen2 only): assumed contracts on std, each restating the rustdoc / std source ----
// needs at crate top:  #![feature(allocator_api)]  use std::collections::BTreeSet;

// A: `impl<T: PartialEq, A: Allocator + Clone> PartialEq for BTreeSet<T, A>` ("Tests for self and other values to be equal, and
// is used by ==").  std source: `self.map == other.map`, and for BTreeMap
// `self.len() == other.len() && self.iter().zip(other).all(|(a, b)| a == b)`: same number of elements and pairwise equal
// elements in iteration order.  Both iterations are "in ascending order" (rustdoc BTreeSet::iter), so for an element type
// whose `Ord` is a lawful total order (as in vstd's own BTreeSet contracts) two sets are `==` exactly when they have the same
// elements.  vstd leaves `PartialEqSpec::eq_spec` uninterpreted for BTreeSet (the orphan rule forbids implementing
// `PartialEqSpecImpl` for it here), so its meaning is assumed by this axiom.
pub broadcast axiom fn axiom_btree_set_eq<T: Ord, A: core::alloc::Allocator + Clone>(a: BTreeSet<T, A>, b: BTreeSet<T, A>)
    ensures
        vstd::laws_cmp::obeys_cmp::<T>() ==>
            <BTreeSet<T, A> as vstd::std_specs::cmp::PartialEqSpec>::obeys_eq_spec()
            && (#[trigger] vstd::std_specs::cmp::PartialEqSpec::eq_spec(&a, &b)) == (a@ == b@);
