// ---- prelude (unit matrix_more): E12 wrappers (assumed; each body is exactly the std call, each contract restates the rustdoc) ----
// needs at crate top:  use vstd::std_specs::iter::IteratorSpec;

// rustdoc Iterator::all: "Tests if every element of the iterator matches a predicate. all() takes a closure that returns true or
// false. It applies this closure to each element of the iterator, and if they all return true, then so does all(). If any of
// them return false, it returns false. all() is short-circuiting; in other words, it will stop processing as soon as it finds a
// false ... An empty iterator returns true."
// vstd's contract of `Iterator::all` (precondition, both result cases) plus one fact that vstd leaves out: the result `true`
// means that the iterator was run until it returned None, so the prophesied item sequence is complete (`will_return_none()`,
// as in vstd's contracts of `Iterator::next` returning None and of `Iterator::collect`).  Verbatim from prelude/dm_metrics_std.rs.
#[verifier::external_body]
fn vx_all<I: Iterator, F: FnMut(I::Item) -> bool>(it: I, f: F) -> (r: bool)
    requires
        forall|k: int| 0 <= k < it.remaining().len() ==> #[trigger] f.requires((it.remaining()[k],)),
    ensures
        it.obeys_prophetic_iter_laws() && r ==> it.will_return_none()
            && forall|i: int| #![trigger it.remaining()[i]] 0 <= i < it.remaining().len() ==> f.ensures((it.remaining()[i],), true),
        it.obeys_prophetic_iter_laws() && !r ==> exists|i: int| #![trigger it.remaining()[i]] 0 <= i < it.remaining().len() && f.ensures((it.remaining()[i],), false),
{ let mut it = it; it.all(f) }
