#!/bin/bash
cd /verif
declare -A PROPS
PROPS[1]="C14 C13"; PROPS[2]="C15 C13"; PROPS[3]="C15 C13"; PROPS[4]="C18 C13"
for k in 1 2 3 4; do
  g=U
  mkdir -p /verif/harmless/$g$k; cp /tmp/harm_$g/harmless/$k/patch.diff /tmp/harm_$g/harmless/$k/meta.json /verif/harmless/$g$k/
  d=/verif/harmless/$g$k
  wt=/tmp/harmverify_$g$k
  git -C /repo worktree remove --force $wt 2>/dev/null
  git -C /repo worktree add -q --detach $wt HEAD
  (cd $wt && git apply $d/patch.diff) || { echo "$g$k APPLY-FAILED" >> /verif/harmless/results7.log; continue; }
  files=$(python3 -c "import json;print(' '.join(json.load(open('$d/meta.json'))['files']))")
  for p in ${PROPS[$k]}; do
    out=$(VERIF_REPO=$wt bin/check $p --tier quick 2>&1)
    rc=$?
    echo "$g$k [$files] $p exit=$rc $(echo "$out" | grep -E '^(VIOLATION|FAILED|UNDECIDED)' | head -3 | cut -c1-260 | tr '\n' '|')" >> /verif/harmless/results7.log
  done
  git -C /repo worktree remove --force $wt
done
echo HARMDONE >> /verif/harmless/results7.log
