#!/bin/bash
# re-run every stored seed (fast mode: demo/suite results kept from the first confirmation) against the current machinery
cd /verif
ls seeded > /tmp/seed_ids.txt
run_one() {
  id=$1
  props=$(python3 -c "
import json
m=json.load(open('/verif/seeded/$id/meta.json'))
ks=list((m.get('check_results') or {}).keys())
p=m.get('property')
if p and p not in ks: ks=[p]+ks
print(','.join(ks))")
  prop=$(echo $props | cut -d, -f1)
  out=$(bin/seedtest $prop seeded/$id $id --fast --props $props 2>&1 | tail -40)
  det=$(echo "$out" | python3 -c "
import sys,re
t=sys.stdin.read()
m=re.search(r'\"detected_by\": \[(.*?)\]', t, re.S)
print(re.sub(r'\s+','',m.group(1)) if m else 'PARSE-ERROR')")
  echo "$id [$props] detected_by=$det"
}
export -f run_one
cat /tmp/seed_ids.txt | xargs -P 3 -I{} bash -c 'run_one {}'
echo SEEDSDONE
