#!/bin/bash
# usage: run_seed7.sh <R> <k> <prop> <id> [extra props]
cd /verif
R=$1; k=$2; prop=$3; id=$4; props=${5:-$3}
( flock 9; bin/seedtest $prop /tmp/seed7_$R/seed/$k $id --props $props > /tmp/seed7_$id.log 2>&1; echo "DONE $id rc=$?" >> /tmp/seed7_done.log ) 9>/tmp/seed7.lock
