#!/usr/bin/env python3
"""commute_probe.py [mul|add] : robustness probe for the proofs (NOT a check). For every `a * b` (or `a + b`) with two
non-literal operands inside a function under contract, swap the operands in a scratch copy of /repo (behaviour-preserving on
integers) and run the owning unit(s). A FAIL is a brittle proof (a false alarm waiting to happen); UNDECIDED is tolerated."""
import glob, json, os, shutil, subprocess, sys, tempfile
VERIF = os.path.dirname(os.path.dirname(os.path.abspath(__file__)))
sys.path.insert(0, os.path.join(VERIF, "lib"))
import vcheck
REPO = "/repo"
VX = os.environ.get("VX_BIN", os.path.join(VERIF, "tools/vx/target/release/vx"))
kind = sys.argv[1] if len(sys.argv) > 1 else "mul"
tmp = tempfile.mkdtemp(prefix="commute_", dir="/tmp")
spans = []
for u in vcheck.load_units(None):
    try:
        u.generate(os.path.join(tmp, "gen", u.name))
    except Exception:
        continue
    for d in u.fns:
        if d.vx and not getattr(d, "dep", False):
            spans.append((d.opts["file"], d.vx["orig_start_line"], d.vx["orig_end_line"], u.name))
files = [f for f in sorted(glob.glob(os.path.join(REPO, "src", "**", "*.rs"), recursive=True)) if os.path.basename(f) not in ("fixture.rs", "proptest_strategy.rs")]
req = {"items": [{"id": os.path.relpath(f, REPO), "file": f, "kind": "inventory", "name": ""} for f in files]}
rp = os.path.join(tmp, "req.json")
json.dump(req, open(rp, "w"))
out = json.loads(subprocess.run([VX, rp], capture_output=True, text=True).stdout)
scratch = os.path.join(tmp, "repo")
os.makedirs(scratch)
shutil.copytree(os.path.join(REPO, "src"), os.path.join(scratch, "src"))
shutil.copy(os.path.join(REPO, "Cargo.toml"), scratch)
sites = []
for item in out:
    rel = item["id"]
    for row in item.get("inventory", []):
        if row.get("kind") != kind:
            continue
        ln = int(row["line"])
        units = sorted(set(n for (f, a, b, n) in spans if f == rel and a <= ln <= b))
        if units:
            sites.append((rel, ln, row, units))
print("%d %s sites in functions under contract" % (len(sites), kind), flush=True)
bad = 0
for rel, ln, row, units in sites:
    src = open(os.path.join(REPO, rel), "rb").read()
    if kind == "unchecked":
        ws, we = map(int, row["whole"].split(":"))
        r0, r1 = map(int, row["recv"].split(":"))
        a0, a1 = map(int, row["arg"].split(":"))
        L, R = src[ws:we].decode(), "checked index"
        amp = "&mut " if row["mut"] == "true" else "&"
        new = src[:ws] + ("(" + amp + src[r0:r1].decode() + "[" + src[a0:a1].decode() + "])").encode() + src[we:]
        ls = le = rs = re_ = 0
    elif kind == "ifelse":
        cs, ce = map(int, row["cond"].split(":"))
        ts, te = map(int, row["then"].split(":"))
        es, ee = map(int, row["else"].split(":"))
        L, R = src[cs:ce].decode(), "swap branches"
        new = src[:cs] + ("!(" + src[cs:ce].decode() + ")").encode() + src[ce:ts] + src[es:ee] + src[te:es] + src[ts:te] + src[ee:]
        ls = le = rs = re_ = 0
    else:
        ls, le = map(int, row["left"].split(":"))
    if kind not in ("ifelse", "unchecked"):
        rs, re_ = map(int, row["right"].split(":"))
        L, R = src[ls:le].decode(), src[rs:re_].decode()
    mid = src[le:rs]
    if kind == "cmp":
        flip = {"<": ">", "<=": ">=", ">": "<", ">=": "<=", "==": "==", "!=": "!="}
        op = row.get("op", "")
        if op not in flip:
            continue
        mid = (" " + flip[op] + " ").encode()
    if kind not in ("ifelse", "unchecked"):
        new = src[:ls] + ("(" + R + ")").encode() + mid + ("(" + L + ")").encode() + src[re_:]
    open(os.path.join(scratch, rel), "wb").write(new)
    for un in units:
        env = dict(os.environ, VERIF_REPO=scratch)
        p = subprocess.run([os.path.join(VERIF, "bin/unit"), un, "--novac"], capture_output=True, text=True, env=env)
        fails = [l for l in p.stdout.split("\n") if l.startswith("FAIL")]
        und = [l for l in p.stdout.split("\n") if l.startswith("UNDECIDED")]
        tag = "FAIL" if fails else ("undecided" if und else "ok")
        if fails:
            bad += 1
        print("%s %s:%d  `%s` <-> `%s`  unit %s  %s" % (tag, rel, ln, L[:40], R[:40], un, (fails or und or [""])[0][:200]), flush=True)
    open(os.path.join(scratch, rel), "wb").write(src)
shutil.rmtree(tmp, ignore_errors=True)
print("brittle sites:", bad)
