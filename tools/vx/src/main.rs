//! vx — mechanical extractor for the contract-verification pipeline.
//!
//! Reads a JSON request (file given as argv[1], or stdin), parses the named
//! source files of /repo with `syn`, selects items (functions, structs, type
//! aliases) and emits their *original source text* with a fixed set of text
//! splices (rules E0..E11 of DESIGN.md §5) applied.  Every splice is reported
//! in the response (`edits`), so the difference between the code that runs and
//! the code that is verified is explicit.  Anything outside the rules is a
//! refusal (`errors` non-empty), never a guess.
use proc_macro2::Span;
use serde::{Deserialize, Serialize};
use std::collections::BTreeMap;
use syn::spanned::Spanned;
use syn::visit::Visit;

#[derive(Deserialize, Debug, Default, Clone)]
struct ClosureSpec {
    params: String,
    ret: String,
}

#[derive(Deserialize, Debug, Default, Clone)]
struct HoistSpec {
    name: String,
    #[serde(default)]
    generics: String,
    params: String,
    ret: String,
}

#[derive(Deserialize, Debug, Default, Clone)]
struct Anchor {
    id: String,
    /// before | after | fn_start | fn_end | loop_start | loop_end
    #[serde(rename = "where")]
    where_: String,
    #[serde(default)]
    text: String,
    #[serde(default)]
    occ: usize,
    #[serde(default, rename = "loop")]
    loop_: usize,
}

#[derive(Deserialize, Debug, Default, Clone)]
struct Item {
    id: String,
    file: String,
    /// fn | struct | type | inventory
    kind: String,
    #[serde(default)]
    impl_type: Option<String>,
    #[serde(default, rename = "trait")]
    trait_: Option<String>,
    /// substring that the impl header text must contain (disambiguation)
    #[serde(default)]
    impl_contains: Option<String>,
    #[serde(default)]
    name: String,
    #[serde(default)]
    rename: Option<String>,
    #[serde(default)]
    subst: BTreeMap<String, String>,
    #[serde(default)]
    drop_generics: Vec<String>,
    #[serde(default)]
    drop_where: Vec<String>,
    #[serde(default)]
    closures: BTreeMap<String, ClosureSpec>,
    #[serde(default)]
    anchors: Vec<Anchor>,
    #[serde(default)]
    ret_name: Option<String>,
    #[serde(default)]
    no_ptr_rule: bool,
    #[serde(default)]
    keep_pub: bool,
    /// E5c: name of a raw-pointer FIELD (`f: *const T` next to a `PhantomData<&'a T>` marker) that is represented as the
    /// borrowed slice it was taken from: field type -> `&'a [T]`, `f: X.as_ptr()` in the struct literal -> `f: X.as_slice()`,
    /// `*self.f.add(e)` -> `self.f[e]`
    #[serde(default)]
    ptr_field: Option<String>,
    /// E4b: safe indexing `X[e]` panics when `e` is out of range (language-defined): `X[e]` -> `X[vx_idx(e, X.len())]`, where the
    /// verified prelude helper `vx_idx(i, n)` diverges for `i >= n` and returns `i` otherwise
    #[serde(default)]
    safe_index: bool,
    /// E8b: `for PAT in X.m()` where `m` is the unit's own iterator-returning method whose body is `CTOR(self)`:
    /// method name -> CTOR (e.g. "arcs" -> "ArcsIterator::new")
    #[serde(default)]
    iter_inline: BTreeMap<String, String>,
    /// E3: take the item from the transcriber of `macro_rules! NAME { ($type:ty) => { ... } }` with `$type` := macro_arg
    #[serde(default)]
    macro_rules: Option<String>,
    #[serde(default)]
    macro_arg: Option<String>,
    /// E10b: concretise an opaque `impl Trait` return type to the named struct type; only allowed when the
    /// function's tail expression is a struct literal (or `Self::new`-style path call is NOT accepted) of that type
    #[serde(default)]
    ret_type: Option<String>,
    /// E12: method calls `RECV.m(ARGS)` with `m` in this list are routed through the prelude wrapper `vx_m(RECV, ARGS)`
    /// (provided Iterator methods / adapters that vstd cannot specify; the wrapper's body is exactly the std call)
    #[serde(default)]
    wrap: Vec<String>,
    /// E9b: closure N (which must capture nothing: enforced by the compiler on the generated item) is emitted as a named
    /// associated fn generated from the closure's source text and referenced by path at the closure's position
    #[serde(default)]
    hoist: BTreeMap<String, HoistSpec>,
    /// exact-text replacements (escape hatch, reported as rule M)
    #[serde(default)]
    manual: Vec<(String, String, String)>,
    /// E14: `S1.chain(S2)...collect()` (each Si possibly `A.flat_map(|PAT| BODY)`) -> accumulator block with one `for` loop per
    /// segment (nested loops for flat_map) that inserts every item into `<loopify>::new()`; value = accumulator type path
    #[serde(default)]
    loopify: Option<String>,
    /// E14b (with `loopify`): `.map(closure)` / `.filter(closure)` stages of a collected pipeline are fused into the loop body
    /// (closure bodies inlined, parameters bound by `let`), so closures that capture `&mut` state (a PRNG) disappear
    #[serde(default)]
    fuse: bool,
    /// E14d (with `loopify=Vec fuse`): the function's TAIL expression is an iterator pipeline that is RETURNED
    /// (`X.flat_map(..)` as `impl Iterator`): it is evaluated eagerly into a Vec by the E14 loops and `vx_accN.into_iter()` is
    /// returned instead (same item sequence; laziness is dropped)
    #[serde(default)]
    eager: bool,
}

#[derive(Deserialize, Debug)]
struct Request {
    items: Vec<Item>,
}

#[derive(Serialize, Debug, Default, Clone)]
struct EditOut {
    rule: String,
    line: usize,
    from: String,
    to: String,
}

#[derive(Serialize, Debug, Default, Clone)]
struct LoopOut {
    ordinal: usize,
    kind: String,
    line: usize,
}

#[derive(Serialize, Debug, Default)]
struct ItemOut {
    id: String,
    text: String,
    orig_text: String,
    orig_file: String,
    orig_start_line: usize,
    orig_end_line: usize,
    edits: Vec<EditOut>,
    loops: Vec<LoopOut>,
    closures: usize,
    sites: BTreeMap<String, usize>,
    anchors_found: Vec<String>,
    errors: Vec<String>,
    inventory: Vec<BTreeMap<String, String>>,
}

#[derive(Debug, Clone)]
struct Edit {
    start: usize,
    end: usize,
    text: String,
    rule: String,
    seq: usize,
}

struct Src {
    text: String,
    line_starts: Vec<usize>,
}

impl Src {
    fn new(text: String) -> Self {
        let mut line_starts = vec![0];
        for (i, b) in text.bytes().enumerate() {
            if b == b'\n' {
                line_starts.push(i + 1);
            }
        }
        Self { text, line_starts }
    }
    fn off(&self, lc: proc_macro2::LineColumn) -> usize {
        // column is in chars
        let ls = self.line_starts[lc.line - 1];
        let line = &self.text[ls..];
        let mut off = ls;
        for (n, (i, _)) in line.char_indices().enumerate() {
            if n == lc.column {
                off = ls + i;
                return off;
            }
        }
        let _ = off;
        // column at end of text
        ls + line
            .char_indices()
            .nth(lc.column)
            .map(|(i, _)| i)
            .unwrap_or_else(|| line.find('\n').unwrap_or(line.len()).min(lc.column))
    }
    fn range(&self, sp: Span) -> (usize, usize) {
        (self.off(sp.start()), self.off(sp.end()))
    }
    fn slice(&self, sp: Span) -> &str {
        let (a, b) = self.range(sp);
        &self.text[a..b]
    }
    fn line_of(&self, off: usize) -> usize {
        match self.line_starts.binary_search(&off) {
            Ok(i) => i + 1,
            Err(i) => i,
        }
    }
}

fn norm(s: &str) -> String {
    s.split_whitespace().collect::<Vec<_>>().join(" ")
}

fn last_seg(p: &syn::Path) -> String {
    p.segments.last().map(|s| s.ident.to_string()).unwrap_or_default()
}

fn type_last_seg(t: &syn::Type) -> String {
    match t {
        syn::Type::Path(tp) => last_seg(&tp.path),
        syn::Type::Reference(r) => type_last_seg(&r.elem),
        _ => String::new(),
    }
}

struct Ctx<'a> {
    src: &'a Src,
    item: &'a Item,
    edits: Vec<Edit>,
    seq: usize,
    loops: Vec<LoopOut>,
    closures: usize,
    sites: BTreeMap<String, usize>,
    errors: Vec<String>,
    anchors_found: Vec<String>,
    /// pointer alias -> base expression text
    ptr_base: BTreeMap<String, String>,
    /// element pointer alias -> (base text, index text)
    ptr_elem: BTreeMap<String, (String, String)>,
    /// E5b: pointer induction variables: cursor alias -> base expression text
    ptr_cursor: BTreeMap<String, String>,
    /// E5b: end pointers: alias -> base
    ptr_end: BTreeMap<String, String>,
    tmp_n: usize,
    /// E5 side condition: base text -> offset after the first pointer binding
    ptr_pos: BTreeMap<String, usize>,
    /// E9b: (ordinal, body start, body end, lets, spec, body_is_block)
    hoisted: Vec<(usize, usize, usize, String, HoistSpec, bool)>,
    in_impl: bool,
    /// E8b side conditions to check against the file: (method, ctor)
    inline_checks: Vec<(String, String)>,
    /// occurrences counters for anchors
    anchor_occ: BTreeMap<String, usize>,
    self_iter_types: Vec<String>,
    eager_tail: Option<(usize, usize)>,
}

impl<'a> Ctx<'a> {
    fn add(&mut self, start: usize, end: usize, text: String, rule: &str) {
        self.seq += 1;
        self.edits.push(Edit { start, end, text, rule: rule.to_string(), seq: self.seq });
    }
    fn site(&mut self, k: &str) {
        *self.sites.entry(k.to_string()).or_insert(0) += 1;
    }
    /// E14 helper: registers a generated loop, returns (ordinal, text after `{`, text before `}`)
    fn gen_loop(&mut self, kind: &str, at: Span) -> (usize, String, String) {
        let ord = self.loops.len() + 1;
        self.loops.push(LoopOut { ordinal: ord, kind: kind.to_string(), line: self.src.line_of(self.src.range(at).0) });
        let mut ls = String::new();
        let mut le = String::new();
        let anchors: Vec<Anchor> = self.item.anchors.iter().filter(|a| a.loop_ == ord && (a.where_ == "loop_start" || a.where_ == "loop_end")).cloned().collect();
        for an in anchors {
            if an.where_ == "loop_start" { ls.push_str(&format!(" /*@ANCHOR:{}@*/ ", an.id)); } else { le.push_str(&format!(" /*@ANCHOR:{}@*/ ", an.id)); }
            self.anchors_found.push(an.id.clone());
        }
        (ord, ls, le)
    }
    /// E14: `S1.chain(S2)..collect()` -> `{ let mut vx_acc = ACC::new(); for .. { vx_acc.insert(..); } .. vx_acc }`
    /// justified by the rustdoc of `FromIterator for BTreeSet` (every item is inserted), `Iterator::chain` (all items of the
    /// first iterator, then all items of the second) and `Iterator::flat_map` (for every item of the outer iterator, in
    /// order, every item of the iterator the closure returns)
    /// E7 inside fused stages: `&x` sub-patterns (Copy items) -> fresh binder `x__r` + `let x = *x__r;`
    fn fuse_pat(&self, pat: &syn::Pat) -> (String, String) {
        fn collect<'p>(p: &'p syn::Pat, out: &mut Vec<(&'p syn::PatReference, String)>) {
            match p {
                syn::Pat::Reference(r) => {
                    if let syn::Pat::Ident(id) = &*r.pat { out.push((r, id.ident.to_string())); }
                }
                syn::Pat::Tuple(t) => { for e in &t.elems { collect(e, out); } }
                syn::Pat::Paren(pp) => collect(&pp.pat, out),
                _ => {}
            }
        }
        let mut refs = vec![];
        collect(pat, &mut refs);
        let (ps, pe) = self.src.range(pat.span());
        let mut text = String::new();
        let mut pos = ps;
        let mut lets = String::new();
        for (r, name) in refs {
            let (rs, re) = self.src.range(r.span());
            text.push_str(&self.src.text[pos..rs]);
            text.push_str(&format!("{name}__r"));
            pos = re;
            lets.push_str(&format!(" let {name} = *{name}__r;"));
        }
        text.push_str(&self.src.text[pos..pe]);
        (text, lets)
    }
    /// E14b: one collected segment as a loop; `.map(|PAT| B)` / `.filter(|PAT| B)` stages are fused into the loop body:
    /// `for vx_xK in BASE { let PAT = vx_xK; let vx_sK_1 = B; let PAT2 = &vx_sK_1; if (B2) { SINK(vx_sK_1); } }`.
    /// Items flow through all stages one at a time in source order, exactly as the lazy adapters evaluate them.
    /// The text from the end of the segment up to `seg_end` is replaced by the loop's closing text.
    fn emit_pipeline(&mut self, seg: &syn::Expr, seg_end: usize, sink: &str) {
        use syn::visit::Visit;
        // flat_map segment: nested pipeline on the closure's tail
        if let syn::Expr::MethodCall(fm) = seg {
            if fm.method == "flat_map" && fm.args.len() == 1 {
                if let syn::Expr::Closure(cl) = &fm.args[0] {
                    if cl.inputs.len() == 1 {
                        let pat = self.src.slice(cl.inputs[0].span()).to_string();
                        let (o1, l1s, l1e) = self.gen_loop("for-flat_map-outer", fm.span());
                        let (as_, ae) = self.src.range(fm.receiver.span());
                        self.add(as_, as_, format!("for {pat} in it{o1}: "), "E14 flat_map -> nested for");
                        self.visit_expr(&fm.receiver);
                        self.closures += 1;
                        let tail: &syn::Expr = match &*cl.body {
                            syn::Expr::Block(b) => match b.block.stmts.last() {
                                Some(syn::Stmt::Expr(t, None)) => t,
                                _ => { self.errors.push("E14: flat_map closure block without tail expression".into()); &*cl.body }
                            },
                            other => other,
                        };
                        let (bs, be) = self.src.range(cl.body.span());
                        let (_, te) = self.src.range(tail.span());
                        self.add(ae, bs, format!(" /*@LOOP{o1}@*/ {{ {l1s}"), "E14 flat_map -> nested for");
                        if let syn::Expr::Block(b) = &*cl.body {
                            let n = b.block.stmts.len();
                            for st in &b.block.stmts[..n.saturating_sub(1)] { self.visit_stmt(st); }
                        }
                        self.emit_pipeline(tail, te, sink);
                        self.add(be, seg_end, format!(" {l1e} }} "), "E14 flat_map -> nested for");
                        return;
                    }
                }
            }
        }
        // peel map / filter stages
        let mut stages: Vec<(&str, Option<&syn::ExprClosure>, &syn::ExprMethodCall)> = vec![];
        let mut base: &syn::Expr = seg;
        loop {
            match base {
                syn::Expr::MethodCall(m) if m.method == "copied" && m.args.is_empty() => {
                    stages.push(("copied", None, m));
                    base = &m.receiver;
                    continue;
                }
                syn::Expr::MethodCall(m) if (m.method == "map" || m.method == "filter") && m.args.len() == 1 => {
                    if let syn::Expr::Closure(cl) = &m.args[0] {
                        if cl.inputs.len() == 1 {
                            stages.push((if m.method == "map" { "map" } else { "filter" }, Some(cl), m));
                            base = &m.receiver;
                            continue;
                        }
                    }
                    break;
                }
                _ => break,
            }
        }
        stages.reverse();
        for (_, cl, _) in &stages {
            let cl = match cl { Some(c) => c, None => continue };
            struct HasRet(bool);
            impl<'x> syn::visit::Visit<'x> for HasRet {
                fn visit_expr_return(&mut self, _: &'x syn::ExprReturn) { self.0 = true; }
                fn visit_expr_try(&mut self, _: &'x syn::ExprTry) { self.0 = true; }
            }
            let mut h = HasRet(false);
            h.visit_expr(&cl.body);
            if h.0 { self.errors.push("E14b: `return` / `?` inside a fused closure".into()); }
        }
        // E14c: the root receiver of the base is itself a collected pipeline (`X.collect::<T>().difference(..)`): bind it first,
        // so that the temporary outlives the loop: `let vx_tmpK = <block>; for .. in vx_tmpK.difference(..)`
        let mut root: &syn::Expr = base;
        loop {
            match root {
                syn::Expr::MethodCall(m) if !(m.method == "collect" && m.args.is_empty()) => { root = &m.receiver; }
                _ => break,
            }
        }
        let hoist_root = !std::ptr::eq(root, base) && matches!(root, syn::Expr::MethodCall(m) if m.method == "collect" && m.args.is_empty());
        let (bs_, be_) = self.src.range(base.span());
        let mut tmp_id = 0;
        if hoist_root {
            self.tmp_n += 1;
            tmp_id = self.tmp_n;
            self.add(bs_, bs_, format!("let vx_tmp{tmp_id} = "), "E14c nested collect bound before the loop");
            self.visit_expr(root); // its loops are numbered before this segment's own loop (textual order)
        }
        let (o, ls, le) = self.gen_loop("for-collect-segment", seg.span());
        let var = format!("vx_x{o}");
        if hoist_root {
            let (_, re_) = self.src.range(root.span());
            self.add(re_, re_, format!("; for {var} in it{o}: vx_tmp{tmp_id}"), "E14c nested collect bound before the loop");
            // visit the rest of the base chain (arguments of the method calls above the root)
            let mut r: &syn::Expr = base;
            while !std::ptr::eq(r, root) {
                if let syn::Expr::MethodCall(m) = r { for a in &m.args { self.visit_expr(a); } r = &m.receiver; } else { break; }
            }
        } else {
            self.add(bs_, bs_, format!("for {var} in it{o}: "), "E14 collect -> accumulator loops");
            self.visit_expr(base);
        }
        let mut cur = var.clone();
        let mut prev_end = be_;
        let mut closers = String::new();
        let mut pending = format!(" /*@LOOP{o}@*/ {{ {ls} ");
        for (k, (kind, cl, _m)) in stages.iter().enumerate() {
            let cl = match cl {
                Some(c) => c,
                None => {
                    // `.copied()`: the item is a reference to a Copy value
                    let nv = format!("vx_s{o}_{}", k + 1);
                    let (_, me) = self.src.range(_m.span());
                    self.add(prev_end, me, format!("{pending}let {nv} = *{cur}"), "E14b fused copied stage");
                    pending = "; ".to_string();
                    cur = nv;
                    prev_end = me;
                    continue;
                }
            };
            self.closures += 1;
            let (pat, plets) = self.fuse_pat(&cl.inputs[0]);
            let (cbs, cbe) = self.src.range(cl.body.span());
            if *kind == "map" {
                let nv = format!("vx_s{o}_{}", k + 1);
                self.add(prev_end, cbs, format!("{pending}let {pat} = {cur};{plets} let {nv} = "), "E14b fused map stage");
                pending = "; ".to_string();
                cur = nv;
            } else {
                self.add(prev_end, cbs, format!("{pending}let {pat} = &{cur};{plets} if ("), "E14b fused filter stage");
                pending = ") { ".to_string();
                closers.push_str(" }");
            }
            self.visit_expr(&cl.body);
            prev_end = cbe;
        }
        self.add(prev_end, seg_end, format!("{pending}{sink}({cur}); {closers} {le} }} "), "E14 collect -> accumulator loops");
    }
    fn loopify_collect_fused(&mut self, whole: &syn::Expr, mc: &syn::ExprMethodCall) {
        self.loopify_pipeline(whole, &mc.receiver, "");
    }
    fn loopify_pipeline(&mut self, whole: &syn::Expr, recv: &syn::Expr, result_suffix: &str) {
        let n = self.sites.get("loopified_collect").cloned().unwrap_or(0);
        self.site("loopified_collect");
        let kinds: Vec<String> = self.item.loopify.clone().unwrap().split(',').map(|s| s.trim().to_string()).collect();
        let acc_ty = kinds[n.min(kinds.len() - 1)].clone();
        let acc = format!("vx_acc{}", n + 1);
        let sink = if acc_ty == "Vec" { format!("{acc}.push") } else { format!("{acc}.insert") };
        let mut segs: Vec<&syn::Expr> = vec![];
        let mut cur: &syn::Expr = recv;
        loop {
            match cur {
                syn::Expr::MethodCall(c) if c.method == "chain" && c.args.len() == 1 => { segs.push(&c.args[0]); cur = &c.receiver; }
                _ => { segs.push(cur); break; }
            }
        }
        segs.reverse();
        let (ws, we) = self.src.range(whole.span());
        let first_s = self.src.range(segs[0].span()).0;
        self.add(ws, first_s, format!("{{ let mut {acc} = {acc_ty}::new(); "), "E14 collect -> accumulator loops");
        for (k, seg) in segs.iter().enumerate() {
            let next_start = if k + 1 < segs.len() { self.src.range(segs[k + 1].span()).0 } else { we };
            self.emit_pipeline(seg, next_start, &sink);
        }
        let rule = if result_suffix.is_empty() { "E14 collect -> accumulator loops" } else { "E14d returned pipeline evaluated eagerly" };
        self.add(we, we, format!(" {acc}{result_suffix} }}"), rule);
    }
    fn loopify_collect(&mut self, whole: &syn::Expr, mc: &syn::ExprMethodCall) {
        use syn::visit::Visit;
        if self.item.fuse { self.loopify_collect_fused(whole, mc); return; }
        let acc = self.item.loopify.clone().unwrap();
        // flatten the chain tree (left-nested method calls)
        let mut segs: Vec<&syn::Expr> = vec![];
        let mut cur: &syn::Expr = &mc.receiver;
        loop {
            match cur {
                syn::Expr::MethodCall(c) if c.method == "chain" && c.args.len() == 1 => { segs.push(&c.args[0]); cur = &c.receiver; }
                _ => { segs.push(cur); break; }
            }
        }
        segs.reverse();
        let (ws, we) = self.src.range(whole.span());
        let (_, first_s) = (0, self.src.range(segs[0].span()).0);
        self.add(ws, first_s, format!("{{ let mut vx_acc = {acc}::new(); "), "E14 collect -> accumulator loops");
        self.site("loopified_collect");
        for (k, seg) in segs.iter().enumerate() {
            let (ss, se) = self.src.range(seg.span());
            // text between this segment and the next (`.chain(` / `)`), or up to the end of the whole expression
            let next_start = if k + 1 < segs.len() { self.src.range(segs[k + 1].span()).0 } else { we };
            let mut handled = false;
            if let syn::Expr::MethodCall(fm) = seg {
                if fm.method == "flat_map" && fm.args.len() == 1 {
                    if let syn::Expr::Closure(cl) = &fm.args[0] {
                        if cl.inputs.len() == 1 {
                            self.closures += 1; // the consumed closure keeps its source ordinal
                            let pat = self.src.slice(cl.inputs[0].span()).to_string();
                            let (o1, l1s, l1e) = self.gen_loop("for-flat_map-outer", fm.span());
                            let (as_, ae) = self.src.range(fm.receiver.span());
                            self.add(as_, as_, format!("for {pat} in it{o1}: "), "E14 flat_map -> nested for");
                            // tail expression of the closure body
                            let (tail, is_block): (&syn::Expr, bool) = match &*cl.body {
                                syn::Expr::Block(b) => match b.block.stmts.last() {
                                    Some(syn::Stmt::Expr(t, None)) => (t, true),
                                    _ => { self.errors.push("E14: flat_map closure block without tail expression".into()); (&*cl.body, false) }
                                },
                                other => (other, false),
                            };
                            let (bs, be) = self.src.range(cl.body.span());
                            let (ts, te) = self.src.range(tail.span());
                            let (o2, l2s, l2e) = self.gen_loop("for-flat_map-inner", tail.span());
                            if is_block {
                                // `A.flat_map(|u| { stmts; TAIL })` -> `for u in A /*LOOP*/ { { stmts; for vx_p in TAIL /*LOOP*/ { insert } } }`
                                self.add(ae, bs, format!(" /*@LOOP{o1}@*/ {{ {l1s}"), "E14 flat_map -> nested for");
                            } else {
                                self.add(ae, bs, format!(" /*@LOOP{o1}@*/ {{ {l1s}"), "E14 flat_map -> nested for");
                            }
                            self.add(ts, ts, format!("for vx_p in it{o2}: "), "E14 flat_map -> nested for");
                            self.add(te, te, format!(" /*@LOOP{o2}@*/ {{ {l2s} vx_acc.insert(vx_p); {l2e} }}"), "E14 flat_map -> nested for");
                            // from the end of the closure body to the start of the next segment
                            self.add(be, next_start, format!(" {l1e} }} "), "E14 flat_map -> nested for");
                            self.visit_expr(&fm.receiver);
                            if let syn::Expr::Block(b) = &*cl.body {
                                let n = b.block.stmts.len();
                                for st in &b.block.stmts[..n.saturating_sub(1)] { self.visit_stmt(st); }
                            }
                            self.visit_expr(tail);
                            handled = true;
                        }
                    }
                }
            }
            if !handled {
                let (o, ls, le) = self.gen_loop("for-collect-segment", seg.span());
                self.add(ss, ss, format!("for vx_p in it{o}: "), "E14 collect -> accumulator loops");
                self.add(se, next_start, format!(" /*@LOOP{o}@*/ {{ {ls} vx_acc.insert(vx_p); {le} }} "), "E14 collect -> accumulator loops");
                self.visit_expr(seg);
            }
        }
        self.add(we, we, " vx_acc }".to_string(), "E14 collect -> accumulator loops");
    }
    fn subst_key_for_path(&self, p: &syn::Path, full: &str) -> Option<(Span, String)> {
        let n = norm(full).replace(' ', "");
        if let Some(v) = self.item.subst.get(&n) {
            return Some((p.span(), v.clone()));
        }
        if p.leading_colon.is_none() && p.segments.len() >= 2 {
            let first = &p.segments[0];
            if first.arguments.is_empty() {
                if let Some(v) = self.item.subst.get(&first.ident.to_string()) {
                    return Some((first.ident.span(), v.clone()));
                }
            }
        }
        None
    }
    fn do_path(&mut self, p: &syn::Path) {
        let full = self.src.slice(p.span()).to_string();
        if let Some((sp, v)) = self.subst_key_for_path(p, &full) {
            let (a, b) = self.src.range(sp);
            self.add(a, b, v, "E2/E11 subst");
        }
    }
    fn macro_edit(&mut self, mac: &syn::Macro, whole: Span, had_semi: bool) {
        let name = last_seg(&mac.path);
        let (a, b) = self.src.range(whole);
        let parse_args = |m: &syn::Macro| -> Option<Vec<syn::Expr>> {
            m.parse_body_with(syn::punctuated::Punctuated::<syn::Expr, syn::Token![,]>::parse_terminated)
                .ok()
                .map(|p| p.into_iter().collect())
        };
        match name.as_str() {
            "assert" | "assert_eq" | "assert_ne" => {
                let Some(args) = parse_args(mac) else {
                    self.errors.push(format!("E4: cannot parse {name}! arguments"));
                    return;
                };
                let n = self.sites.get("panic").copied().unwrap_or(0) + 1;
                let cond = match name.as_str() {
                    "assert" => {
                        if args.is_empty() { self.errors.push("E4: empty assert".into()); return; }
                        self.src.slice(args[0].span()).to_string()
                    }
                    _ => {
                        if args.len() < 2 { self.errors.push("E4: assert_eq arity".into()); return; }
                        let op = if name == "assert_eq" { "==" } else { "!=" };
                        format!("({}) {} ({})", self.src.slice(args[0].span()), op, self.src.slice(args[1].span()))
                    }
                };
                self.site("panic");
                let _ = had_semi;
                self.add(a, b, format!("if !({cond}) {{ /*@PANIC{n}@*/ vpanic(); }}"), "E4 assert");
            }
            "panic" | "unreachable" | "unimplemented" | "todo" => {
                let n = self.sites.get("panic").copied().unwrap_or(0) + 1;
                self.site("panic");
                let semi = if had_semi { ";" } else { "" };
                self.add(a, b, format!("{{ /*@PANIC{n}@*/ vpanic(){semi} }}"), "E4 panic");
            }
            "debug_assert" | "debug_assert_eq" | "debug_assert_ne" => {
                self.errors.push(format!("unsupported macro {name}!"));
            }
            _ => {
                self.site("other_macro");
            }
        }
    }
    fn loop_marker(&mut self, kind: &str, body: &syn::Block, at: Span) -> usize {
        let ord = self.loops.len() + 1;
        let (bo, _) = self.src.range(body.brace_token.span.open());
        self.loops.push(LoopOut { ordinal: ord, kind: kind.to_string(), line: self.src.line_of(self.src.range(at).0) });
        self.add(bo, bo, format!("/*@LOOP{ord}@*/ "), "inject loop contract");
        // loop_start / loop_end anchors
        let anchors: Vec<Anchor> = self.item.anchors.iter().filter(|a| a.loop_ == ord && (a.where_ == "loop_start" || a.where_ == "loop_end")).cloned().collect();
        for an in anchors {
            if an.where_ == "loop_start" {
                let p = bo + 1;
                self.add(p, p, format!(" /*@ANCHOR:{}@*/ ", an.id), "inject hint");
            } else {
                let (bc, _) = self.src.range(body.brace_token.span.close());
                self.add(bc, bc, format!(" /*@ANCHOR:{}@*/ ", an.id), "inject hint");
            }
            self.anchors_found.push(an.id.clone());
        }
        ord
    }
    /// E7: `&x` sub-patterns (Copy items) -> fresh binder `x__r`; returns the `let x = *x__r;` text
    /// that must be placed at the start of the scope the pattern binds in.
    /// E7: `&x` / `&(a, b, _)` sub-patterns (Copy items) -> fresh binder; returns the `let` text that
    /// must be placed at the start of the scope the pattern binds in.
    fn ref_pats(&mut self, pat: &syn::Pat, in_closure_spec: bool) -> String {
        struct P { found: Vec<(Span, String, String)>, bad: bool, n: usize }
        impl<'ast> Visit<'ast> for P {
            fn visit_pat_reference(&mut self, r: &'ast syn::PatReference) {
                if r.mutability.is_none() {
                    if let syn::Pat::Ident(pi) = &*r.pat {
                        if pi.by_ref.is_none() && pi.subpat.is_none() {
                            let id = pi.ident.to_string();
                            self.found.push((r.span(), format!("{id}__r"), format!("let {id} = *{id}__r; ")));
                            return;
                        }
                    }
                    if let syn::Pat::Tuple(t) = &*r.pat {
                        self.n += 1;
                        let name = format!("t{}__r", self.n);
                        let mut lets = String::new();
                        let mut ok = true;
                        for (k, el) in t.elems.iter().enumerate() {
                            match el {
                                syn::Pat::Ident(pi) if pi.by_ref.is_none() && pi.subpat.is_none() => lets.push_str(&format!("let {} = {name}.{k}; ", pi.ident)),
                                syn::Pat::Wild(_) => {}
                                _ => ok = false,
                            }
                        }
                        if ok { self.found.push((r.span(), name, lets)); return; }
                    }
                }
                self.bad = true;
            }
        }
        let mut p = P { found: vec![], bad: false, n: self.tmp_n };
        p.visit_pat(pat);
        self.tmp_n = p.n;
        if p.bad { self.errors.push("E7: unsupported reference pattern".into()); }
        let mut lets = String::new();
        for (sp, name, l) in p.found {
            if !in_closure_spec {
                let (a, b) = self.src.range(sp);
                self.add(a, b, name, "E7 reference pattern");
            }
            lets.push_str(&l);
        }
        lets
    }
    /// E7/E9: closure parameters that are patterns; `names` are the parameter names given in the @closure header
    fn closure_param_lets(&mut self, inputs: &syn::punctuated::Punctuated<syn::Pat, syn::Token![,]>, names: &[String]) -> String {
        let mut lets = String::new();
        for (k, inp) in inputs.iter().enumerate() {
            let inp = match inp { syn::Pat::Type(pt) => &*pt.pat, p => p };
            let Some(name) = names.get(k) else { self.errors.push("E9: @closure header has fewer parameters than the closure".into()); continue; };
            match inp {
                // a plain parameter whose source name differs from the @closure header's name keeps its source name in the
                // body through an alias (renaming a closure parameter in the source is then harmless)
                syn::Pat::Ident(pi) if pi.by_ref.is_none() && pi.subpat.is_none() && pi.ident != name.as_str() => lets.push_str(&format!("let {} = {name}; ", pi.ident)),
                syn::Pat::Ident(_) | syn::Pat::Wild(_) => {}
                syn::Pat::Reference(r) => match &*r.pat {
                    syn::Pat::Ident(pi) => lets.push_str(&format!("let {} = *{name}; ", pi.ident)),
                    syn::Pat::Tuple(t) => {
                        for (j, el) in t.elems.iter().enumerate() {
                            match el {
                                syn::Pat::Ident(pi) => lets.push_str(&format!("let {} = {name}.{j}; ", pi.ident)),
                                syn::Pat::Wild(_) => {}
                                _ => self.errors.push("E7: unsupported closure parameter pattern".into()),
                            }
                        }
                    }
                    _ => self.errors.push("E7: unsupported closure parameter pattern".into()),
                },
                syn::Pat::Tuple(t) => {
                    for (j, el) in t.elems.iter().enumerate() {
                        match el {
                            syn::Pat::Ident(pi) => lets.push_str(&format!("let {} = {name}.{j}; ", pi.ident)),
                            syn::Pat::Reference(r) => match &*r.pat {
                                syn::Pat::Ident(pi) => lets.push_str(&format!("let {} = *{name}.{j}; ", pi.ident)),
                                _ => self.errors.push("E7: unsupported closure parameter pattern".into()),
                            },
                            syn::Pat::Wild(_) => {}
                            _ => self.errors.push("E7: unsupported closure parameter pattern".into()),
                        }
                    }
                }
                _ => self.errors.push("E7: unsupported closure parameter pattern".into()),
            }
        }
        lets
    }
    /// E5b: `P` or `P.add(k)` with P a pointer cursor -> (P, base, k-text or "")
    fn cursor_of(&self, e: &syn::Expr) -> Option<(String, String, String)> {
        match e {
            syn::Expr::Path(p) => {
                let id = p.path.get_ident()?.to_string();
                let base = self.ptr_cursor.get(&id)?;
                Some((id, base.clone(), String::new()))
            }
            syn::Expr::MethodCall(mc) if mc.method == "add" && mc.args.len() == 1 => {
                if let syn::Expr::Path(p) = &*mc.receiver {
                    let id = p.path.get_ident()?.to_string();
                    let base = self.ptr_cursor.get(&id)?;
                    return Some((id, base.clone(), self.src.slice(mc.args[0].span()).to_string()));
                }
                None
            }
            syn::Expr::Paren(p) => self.cursor_of(&p.expr),
            _ => None,
        }
    }
    fn ptr_name(&self, e: &syn::Expr) -> Option<String> {
        if let syn::Expr::Path(p) = e {
            let id = p.path.get_ident()?.to_string();
            if self.ptr_cursor.contains_key(&id) || self.ptr_end.contains_key(&id) { return Some(id); }
        }
        None
    }
    fn is_ptr_add(&self, e: &syn::Expr) -> Option<(String, String)> {
        // P.add(e) with P a recorded pointer alias  (possibly inside unsafe { } or parens)
        match e {
            syn::Expr::MethodCall(mc) if mc.method == "add" && mc.args.len() == 1 => {
                if let syn::Expr::Path(p) = &*mc.receiver {
                    if let Some(id) = p.path.get_ident() {
                        if let Some(base) = self.ptr_base.get(&id.to_string()) {
                            let idx = self.src.slice(mc.args[0].span()).to_string();
                            return Some((base.clone(), idx));
                        }
                    }
                }
                // E5c: `self.F.add(e)` with F the declared pointer field
                if let (Some(pf), syn::Expr::Field(fe)) = (&self.item.ptr_field, &*mc.receiver) {
                    if let (syn::Member::Named(m), syn::Expr::Path(bp)) = (&fe.member, &*fe.base) {
                        if m == pf && bp.path.is_ident("self") {
                            let idx = self.src.slice(mc.args[0].span()).to_string();
                            return Some((format!("self.{pf}"), idx));
                        }
                    }
                }
                None
            }
            syn::Expr::Unsafe(u) if u.block.stmts.len() == 1 => {
                if let syn::Stmt::Expr(inner, None) = &u.block.stmts[0] {
                    return self.is_ptr_add(inner);
                }
                None
            }
            syn::Expr::Paren(p) => self.is_ptr_add(&p.expr),
            _ => None,
        }
    }
    fn index_simple(&mut self, idx: &syn::Expr) {
        // side condition of E5: the index expression must be free of constructs
        // that themselves need rewriting
        struct Chk(bool);
        impl<'ast> Visit<'ast> for Chk {
            fn visit_expr_unary(&mut self, u: &'ast syn::ExprUnary) {
                if matches!(u.op, syn::UnOp::Deref(_)) { self.0 = false; }
                syn::visit::visit_expr_unary(self, u);
            }
            fn visit_expr_macro(&mut self, _: &'ast syn::ExprMacro) { self.0 = false; }
            fn visit_expr_closure(&mut self, _: &'ast syn::ExprClosure) { self.0 = false; }
            fn visit_expr_method_call(&mut self, m: &'ast syn::ExprMethodCall) {
                if m.method == "add" || m.method == "as_ptr" || m.method == "as_mut_ptr" { self.0 = false; }
                syn::visit::visit_expr_method_call(self, m);
            }
        }
        let mut c = Chk(true);
        c.visit_expr(idx);
        if !c.0 {
            self.errors.push(format!("E5: index expression `{}` is not simple", self.src.slice(idx.span())));
        }
    }
}

impl<'a, 'ast> Visit<'ast> for Ctx<'a> {
    fn visit_path(&mut self, p: &'ast syn::Path) {
        self.do_path(p);
        // still visit generic args inside
        syn::visit::visit_path(self, p);
    }

    fn visit_block(&mut self, b: &'ast syn::Block) {
        for st in &b.stmts {
            let sp = st.span();
            let (a, e) = self.src.range(sp);
            let t = norm(&self.src.text[a..e]);
            let anchors: Vec<Anchor> = self.item.anchors.iter().filter(|an| (an.where_ == "before" || an.where_ == "after") && !an.text.is_empty() && t.starts_with(&norm(&an.text))).cloned().collect();
            for an in anchors {
                let c = self.anchor_occ.entry(an.id.clone()).or_insert(0);
                *c += 1;
                let want = if an.occ == 0 { 1 } else { an.occ };
                if *c != want { continue; }
                let pos = if an.where_ == "before" { a } else { e };
                self.add(pos, pos, format!(" /*@ANCHOR:{}@*/ ", an.id), "inject hint");
                self.anchors_found.push(an.id.clone());
            }
        }
        syn::visit::visit_block(self, b);
    }

    fn visit_stmt(&mut self, s: &'ast syn::Stmt) {
        match s {
            syn::Stmt::Macro(sm) => {
                self.macro_edit(&sm.mac, sm.span(), sm.semi_token.is_some());
                return;
            }
            syn::Stmt::Local(l) if !self.item.no_ptr_rule => {
                // E5: let P = X.as_ptr() / as_mut_ptr();   let Q = P.add(e);
                let ident = match &l.pat {
                    syn::Pat::Ident(pi) => Some(pi.ident.to_string()),
                    syn::Pat::Type(pt) => match &*pt.pat { syn::Pat::Ident(pi) => Some(pi.ident.to_string()), _ => None },
                    _ => None,
                };
                let is_mut = match &l.pat { syn::Pat::Ident(pi) => pi.mutability.is_some(), _ => false };
                if let (Some(id), Some(init)) = (ident.clone(), &l.init) {
                    if let syn::Expr::MethodCall(mc) = &*init.expr {
                        // E5b: `let mut P = X.as_ptr();` is a pointer induction variable -> index cursor P__i
                        if is_mut && (mc.method == "as_ptr" || mc.method == "as_mut_ptr") && mc.args.is_empty() {
                            let base = self.src.slice(mc.receiver.span()).to_string();
                            self.ptr_cursor.insert(id.clone(), base.clone());
                            let (a, b) = self.src.range(l.span());
                            let e0 = *self.ptr_pos.get(&base).unwrap_or(&usize::MAX);
                            let _ = self.ptr_pos.insert(base.clone(), e0.min(b));
                            self.add(a, b, format!("let mut {id}__i: usize = 0; /* E5b: {id} == &{base}[{id}__i] */"), "E5b pointer cursor");
                            self.site("e5_binding");
                            return;
                        }
                        // E5b: `let E = X.as_ptr().add(e);` is an end pointer -> index bound E__i (e <= len is the UB condition of add)
                        if mc.method == "add" && mc.args.len() == 1 {
                            if let syn::Expr::MethodCall(inner) = &*mc.receiver {
                                if (inner.method == "as_ptr" || inner.method == "as_mut_ptr") && inner.args.is_empty() {
                                    let base = self.src.slice(inner.receiver.span()).to_string();
                                    let e = self.src.slice(mc.args[0].span()).to_string();
                                    self.ptr_end.insert(id.clone(), base.clone());
                                    let (a, b) = self.src.range(l.span());
                                    self.add(a, b, format!("let {id}__i: usize = {e}; assert({id}__i <= {base}.len()); /* E5b: {id} == &{base}[{id}__i] */"), "E5b end pointer");
                                    self.site("e5_binding");
                                    self.site("e5_access");
                                    return;
                                }
                            }
                        }
                        if (mc.method == "as_ptr" || mc.method == "as_mut_ptr") && mc.args.is_empty() {
                            let base = self.src.slice(mc.receiver.span()).to_string();
                            // subst inside base is not supported
                            self.ptr_base.insert(id.clone(), base.clone());
                            let (a, b) = self.src.range(l.span());
                            let e0 = *self.ptr_pos.get(&base).unwrap_or(&usize::MAX);
                            let _ = self.ptr_pos.insert(base.clone(), e0.min(b));
                            self.add(a, b, format!("/* E5: {id} := &{base}[..] */"), "E5 pointer binding");
                            self.site("e5_binding");
                            return;
                        }
                    }
                    if let Some((base, idx)) = self.is_ptr_add(&init.expr) {
                        // find the index expr for the simplicity check
                        self.ptr_elem.insert(id.clone(), (base.clone(), idx.clone()));
                        let (a, b) = self.src.range(l.span());
                        self.add(a, b, format!("/* E5: {id} := &{base}[{idx}] */"), "E5 element pointer binding");
                        self.site("e5_binding");
                        return;
                    }
                }
            }
            _ => {}
        }
        if let syn::Stmt::Local(l) = s {
            // E7: `let &x = e;` -> `let x__r = e; let x = *x__r;`
            let lets = self.ref_pats(&l.pat, false);
            if !lets.is_empty() {
                let (_, e) = self.src.range(l.span());
                self.add(e, e, format!(" {lets}"), "E7 reference pattern");
            }
        }
        syn::visit::visit_stmt(self, s);
    }

    fn visit_expr(&mut self, e: &'ast syn::Expr) {
        if let Some(r) = self.eager_tail {
            if self.src.range(e.span()) == r {
                self.eager_tail = None;
                self.loopify_pipeline(e, e, ".into_iter()");
                return;
            }
        }
        match e {
            syn::Expr::Macro(em) => {
                self.macro_edit(&em.mac, em.span(), false);
                return;
            }
            syn::Expr::Unary(u) if matches!(u.op, syn::UnOp::Deref(_)) && !self.item.no_ptr_rule && self.cursor_of(&u.expr).is_some() => {
                let (id, base, off) = self.cursor_of(&u.expr).unwrap();
                let (a, b) = self.src.range(u.span());
                let idx = if off.is_empty() { format!("{id}__i") } else { format!("{id}__i + ({off})") };
                self.add(a, b, format!("{base}[{idx}]"), "E5b cursor deref -> index");
                self.site("e5_access");
                return;
            }
            syn::Expr::Assign(asg) if !self.item.no_ptr_rule && self.cursor_of(&asg.left).map(|c| c.2.is_empty()).unwrap_or(false) => {
                // P = P.add(k)
                let (id, base, _) = self.cursor_of(&asg.left).unwrap();
                if let Some((id2, _, off)) = self.cursor_of(&asg.right) {
                    if id2 == id && !off.is_empty() {
                        let (a, b) = self.src.range(asg.span());
                        self.add(a, b, format!("{{ {id}__i = {id}__i + ({off}); assert({id}__i <= {base}.len()); }}"), "E5b cursor advance");
                        self.site("e5_access");
                        return;
                    }
                }
                self.errors.push(format!("E5b: unsupported assignment to pointer cursor {id}"));
                return;
            }
            syn::Expr::Binary(bin) if !self.item.no_ptr_rule && matches!(bin.op, syn::BinOp::Lt(_) | syn::BinOp::Le(_) | syn::BinOp::Gt(_) | syn::BinOp::Ge(_) | syn::BinOp::Eq(_) | syn::BinOp::Ne(_)) && self.ptr_name(&bin.left).is_some() && self.ptr_name(&bin.right).is_some() => {
                for side in [&bin.left, &bin.right] {
                    let id = self.ptr_name(side).unwrap();
                    let (a, b) = self.src.range(side.span());
                    self.add(a, b, format!("{id}__i"), "E5b pointer comparison -> index comparison");
                }
                return;
            }
            syn::Expr::Unary(u) if matches!(u.op, syn::UnOp::Deref(_)) && !self.item.no_ptr_rule => {
                if let Some((base, idx)) = self.is_ptr_add(&u.expr) {
                    if let syn::Expr::MethodCall(mc) = &*u.expr { let a0 = mc.args[0].clone(); self.index_simple(&a0); }
                    let (a, b) = self.src.range(u.span());
                    self.add(a, b, format!("{base}[{idx}]"), "E5 deref -> index");
                    self.site("e5_access");
                    return;
                }
                if let syn::Expr::Path(p) = &*u.expr {
                    if let Some(id) = p.path.get_ident() {
                        // `*P` with P a base pointer binding (`let P = X.as_ptr()`) is element 0
                        if let Some(base) = self.ptr_base.get(&id.to_string()).cloned() {
                            let (a, b) = self.src.range(u.span());
                            self.add(a, b, format!("{base}[0]"), "E5 deref of base pointer -> index 0");
                            self.site("e5_access");
                            return;
                        }
                        if let Some((base, idx)) = self.ptr_elem.get(&id.to_string()).cloned() {
                            let (a, b) = self.src.range(u.span());
                            self.add(a, b, format!("{base}[{idx}]"), "E5 deref -> index");
                            self.site("e5_access");
                            return;
                        }
                    }
                }
            }
            syn::Expr::MethodCall(mc) => {
                let m = mc.method.to_string();
                if m == "get_unchecked" || m == "get_unchecked_mut" || m == "unwrap_unchecked" {
                    self.site("unchecked_call");
                }
                if (m == "as_mut" || m == "as_ref") && mc.args.is_empty() && !self.item.no_ptr_rule {
                    // E5: `P.add(e).as_mut()` on a pointer taken from a Vec is never null -> `Some(&mut X[e])`
                    // (the bound e < X.len() becomes an obligation: it is the UB condition of the later dereference)
                    if let Some((base, idx)) = self.is_ptr_add(&mc.receiver) {
                        let (a, b) = self.src.range(e.span());
                        let r = if m == "as_mut" { "&mut " } else { "&" };
                        self.add(a, b, format!("Some({r}{base}[{idx}])"), "E5 pointer as_mut/as_ref -> Some(&mut X[e])");
                        self.site("e5_access");
                        return;
                    }
                }
                if m == "collect" && mc.args.is_empty() && self.item.loopify.is_some() {
                    self.loopify_collect(e, mc);
                    return;
                }
                if self.item.wrap.contains(&m) || self.item.wrap.contains(&format!("&{m}")) {
                    // E12: RECV.m(ARGS) -> vx_m(RECV, ARGS)   (`&m` in the list: the receiver is auto-referenced, vx_m(&RECV, ARGS))
                    let amp = if self.item.wrap.contains(&format!("&{m}")) { "&" } else { "" };
                    let (rs, re) = self.src.range(mc.receiver.span());
                    let (_, po) = self.src.range(mc.paren_token.span.open());
                    self.add(rs, rs, format!("vx_{m}({amp}"), "E12 adapter wrapper");
                    let sep = if mc.args.is_empty() { "" } else { ", " };
                    self.add(re, po, sep.to_string(), "E12 adapter wrapper");
                    self.site("wrapped_call");
                    self.visit_expr(&mc.receiver);
                    for a in &mc.args { self.visit_expr(a); }
                    return;
                }
                if (m == "expect" && mc.args.len() == 1) || (m == "unwrap" && mc.args.is_empty()) {
                    // E4: Option/Result::{expect, unwrap} are documented panics -> prelude `vexpect()` (diverges on None/Err)
                    let (a, _) = self.src.range(mc.method.span());
                    let (_, b) = self.src.range(mc.paren_token.span.close());
                    self.add(a, b, "vexpect()".to_string(), "E4 expect/unwrap");
                    self.site("panic_expect");
                    self.visit_expr(&mc.receiver);
                    return;
                }
                if (m == "add" || m == "as_ptr" || m == "as_mut_ptr" || m == "offset" || m == "sub") && !self.item.no_ptr_rule {
                    // a pointer operation that was not consumed by an E5 pattern
                    if (m != "add" && m != "sub" || self.is_ptr_add(e).is_some()) && self.cursor_of(e).is_none() {
                        self.errors.push(format!("E5: unsupported pointer use `{}` at line {}", norm(self.src.slice(e.span())), self.src.line_of(self.src.range(e.span()).0)));
                    }
                }
            }
            syn::Expr::Call(c) if !self.item.no_ptr_rule && c.args.len() == 2 && matches!(&*c.func, syn::Expr::Path(p) if last_seg(&p.path) == "write") && self.is_ptr_add(&c.args[0]).is_some() => {
                // E5: `ptr::write(P.add(e), v)` -> `X[e] = v` (for Copy element types no destructor runs on the overwritten slot)
                let (base, idx) = self.is_ptr_add(&c.args[0]).unwrap();
                let v = self.src.slice(c.args[1].span()).to_string();
                let (a, b) = self.src.range(c.span());
                self.add(a, b, format!("{base}[{idx}] = {v}"), "E5 ptr::write -> index assignment");
                self.site("e5_access");
                return;
            }
            syn::Expr::Call(c) => {
                // E12 (free functions): `once(x)` / `iter::repeat_n(x, n)` -> `vx_once(x)` / `vx_repeat_n(x, n)` when listed as `fn:<name>`
                if let syn::Expr::Path(p) = &*c.func {
                    let name = last_seg(&p.path);
                    if self.item.wrap.contains(&format!("fn:{name}")) {
                        let (a, b) = self.src.range(p.span());
                        self.add(a, b, format!("vx_{name}"), "E12 adapter wrapper (free function)");
                        self.site("wrapped_call");
                        for a in &c.args { self.visit_expr(a); }
                        return;
                    }
                }
            }
            syn::Expr::Struct(es) if self.item.ptr_field.is_some() => {
                // E5c: `F: X.as_ptr()` in a struct literal -> `F: X.as_slice()`
                let pf = self.item.ptr_field.clone().unwrap();
                for fv in &es.fields {
                    let is_pf = matches!(&fv.member, syn::Member::Named(m) if *m == pf);
                    if is_pf {
                        if let syn::Expr::MethodCall(mc) = &fv.expr {
                            if mc.method == "as_ptr" && mc.args.is_empty() {
                                let (a, b) = self.src.range(mc.method.span());
                                self.add(a, b, "as_slice".to_string(), "E5c pointer field initialiser -> borrowed slice");
                                self.visit_expr(&mc.receiver);
                                continue;
                            }
                        }
                        self.errors.push(format!("E5c: side condition failed: field `{pf}` is not initialised by `X.as_ptr()`"));
                    } else {
                        self.visit_expr(&fv.expr);
                    }
                }
                return;
            }
            syn::Expr::Assign(_) | syn::Expr::Binary(_) if self.item.safe_index && {
                // E4b, assignment to an indexed place: `X[e] = v` / `X[e] op= v`
                let left = match e { syn::Expr::Assign(a) => Some(&*a.left), syn::Expr::Binary(b) if matches!(b.op, syn::BinOp::AddAssign(_) | syn::BinOp::SubAssign(_) | syn::BinOp::MulAssign(_) | syn::BinOp::DivAssign(_) | syn::BinOp::RemAssign(_) | syn::BinOp::BitAndAssign(_) | syn::BinOp::BitOrAssign(_) | syn::BinOp::BitXorAssign(_) | syn::BinOp::ShlAssign(_) | syn::BinOp::ShrAssign(_)) => Some(&*b.left), _ => None };
                matches!(left, Some(syn::Expr::Index(ix)) if !matches!(&*ix.index, syn::Expr::Range(_)))
            } => {
                // `X[e] = v` -> `{ let vx_i = vx_idx(e, X.len()); X[vx_i] = v }` (the length cannot be read inside the index of a
                // mutable place). Side condition: X is a place expression and e is free of calls / macros / closures / nested
                // indexing; the relative order of the bounds-check panic and a panic inside `v` is not preserved (both are panics).
                let (left, right) = match e { syn::Expr::Assign(a) => (&*a.left, &*a.right), syn::Expr::Binary(b) => (&*b.left, &*b.right), _ => unreachable!() };
                if let syn::Expr::Index(ix) = left {
                    self.site("index");
                    if matches!(e, syn::Expr::Binary(_)) { self.site("arith"); }
                    struct Pure(bool);
                    impl<'ast> Visit<'ast> for Pure {
                        fn visit_expr_call(&mut self, _: &'ast syn::ExprCall) { self.0 = false; }
                        fn visit_expr_method_call(&mut self, _: &'ast syn::ExprMethodCall) { self.0 = false; }
                        fn visit_expr_macro(&mut self, _: &'ast syn::ExprMacro) { self.0 = false; }
                        fn visit_expr_closure(&mut self, _: &'ast syn::ExprClosure) { self.0 = false; }
                        fn visit_expr_index(&mut self, _: &'ast syn::ExprIndex) { self.0 = false; }
                        fn visit_expr_assign(&mut self, _: &'ast syn::ExprAssign) { self.0 = false; }
                    }
                    fn is_place3(e: &syn::Expr) -> bool {
                        match e {
                            syn::Expr::Path(_) => true,
                            syn::Expr::Field(f) => is_place3(&f.base),
                            syn::Expr::Paren(p) => is_place3(&p.expr),
                            _ => false,
                        }
                    }
                    let mut pu = Pure(true);
                    pu.visit_expr(&ix.index);
                    if pu.0 && is_place3(&ix.expr) {
                        let base = self.src.slice(ix.expr.span()).to_string();
                        let idx = self.src.slice(ix.index.span()).to_string();
                        let (a, _) = self.src.range(e.span());
                        let (_, b) = self.src.range(e.span());
                        let (ia, ib) = self.src.range(ix.index.span());
                        self.add(a, a, format!("{{ let vx_i = vx_idx({idx}, {base}.len()); "), "E4b safe-index bounds check (assignment)");
                        self.add(ia, ib, "vx_i".to_string(), "E4b safe-index bounds check (assignment)");
                        self.add(b, b, " }".to_string(), "E4b safe-index bounds check (assignment)");
                        self.visit_expr(right);
                        return;
                    }
                    self.errors.push(format!("E4b: side condition failed for `{}`", norm(self.src.slice(e.span()))));
                }
            }
            syn::Expr::Reference(rf) if self.item.safe_index && rf.mutability.is_some() && matches!(&*rf.expr, syn::Expr::Index(ix) if !matches!(&*ix.index, syn::Expr::Range(_))) => {
                // E4b, mutable place: `&mut X[e]` -> `{ let vx_n = X.len(); let vx_i = vx_idx(e, vx_n); &mut X[vx_i] }`
                // (the length cannot be read inside the index expression while X is mutably borrowed). Side condition: X is a
                // place expression and e is free of calls / macros / closures / nested indexing, so hoisting it is unobservable.
                if let syn::Expr::Index(ix) = &*rf.expr {
                    self.site("index");
                    struct Pure(bool);
                    impl<'ast> Visit<'ast> for Pure {
                        fn visit_expr_call(&mut self, _: &'ast syn::ExprCall) { self.0 = false; }
                        fn visit_expr_method_call(&mut self, _: &'ast syn::ExprMethodCall) { self.0 = false; }
                        fn visit_expr_macro(&mut self, _: &'ast syn::ExprMacro) { self.0 = false; }
                        fn visit_expr_closure(&mut self, _: &'ast syn::ExprClosure) { self.0 = false; }
                        fn visit_expr_index(&mut self, _: &'ast syn::ExprIndex) { self.0 = false; }
                        fn visit_expr_assign(&mut self, _: &'ast syn::ExprAssign) { self.0 = false; }
                    }
                    fn is_place2(e: &syn::Expr) -> bool {
                        match e {
                            syn::Expr::Path(_) => true,
                            syn::Expr::Field(f) => is_place2(&f.base),
                            syn::Expr::Paren(p) => is_place2(&p.expr),
                            _ => false,
                        }
                    }
                    let mut pu = Pure(true);
                    pu.visit_expr(&ix.index);
                    if pu.0 && is_place2(&ix.expr) {
                        let base = self.src.slice(ix.expr.span()).to_string();
                        let idx = self.src.slice(ix.index.span()).to_string();
                        let (a, b) = self.src.range(rf.span());
                        self.add(a, b, format!("{{ let vx_n = {base}.len(); let vx_i = vx_idx({idx}, vx_n); &mut {base}[vx_i] }}"), "E4b safe-index bounds check (mutable place)");
                        self.site("arith_in_index");
                        return;
                    }
                    self.errors.push(format!("E4b: side condition failed for `{}`", norm(self.src.slice(rf.span()))));
                }
            }
            syn::Expr::Index(ix) => {
                self.site("index");
                if self.item.safe_index && !matches!(&*ix.index, syn::Expr::Range(_)) {
                    // side condition: the indexed expression is a place (path / field chain), so evaluating `.len()` on it has no effect
                    fn is_place(e: &syn::Expr) -> bool {
                        match e {
                            syn::Expr::Path(_) => true,
                            syn::Expr::Field(f) => is_place(&f.base),
                            syn::Expr::Paren(p) => is_place(&p.expr),
                            syn::Expr::Unary(u) if matches!(u.op, syn::UnOp::Deref(_)) => is_place(&u.expr),
                            _ => false,
                        }
                    }
                    if is_place(&ix.expr) {
                        let base = self.src.slice(ix.expr.span()).to_string();
                        let (a, b) = self.src.range(ix.index.span());
                        self.add(a, a, "vx_idx(".to_string(), "E4b safe-index bounds check");
                        self.add(b, b, format!(", {base}.len())"), "E4b safe-index bounds check");
                    } else {
                        self.errors.push(format!("E4b: side condition failed: `{}` is not a place expression", norm(self.src.slice(ix.expr.span()))));
                    }
                }
            }
            syn::Expr::Unsafe(_) => self.site("unsafe_block"),
            syn::Expr::Binary(b) => {
                use syn::BinOp::*;
                match b.op {
                    Add(_) | Sub(_) | Mul(_) | Div(_) | Rem(_) | Shl(_) | Shr(_) | AddAssign(_) | SubAssign(_) | MulAssign(_) | DivAssign(_) | RemAssign(_) | ShlAssign(_) | ShrAssign(_) => self.site("arith"),
                    _ => {}
                }
            }
            syn::Expr::Cast(c) => {
                if matches!(&*c.ty, syn::Type::Ptr(_)) {
                    self.errors.push("E5: cast to raw pointer".into());
                }
            }
            _ => {}
        }
        syn::visit::visit_expr(self, e);
    }

    fn visit_expr_for_loop(&mut self, f: &'ast syn::ExprForLoop) {
        let expr_text = norm(self.src.slice(f.expr.span()));
        if expr_text == "self" || expr_text == "self.by_ref()" {
            // E8: language-defined desugaring of iterating over `self`
            let ord = self.loops.len() + 1;
            self.loops.push(LoopOut { ordinal: ord, kind: "for-self".into(), line: self.src.line_of(self.src.range(f.span()).0) });
            let pat = self.src.slice(f.pat.span()).to_string();
            let (fs, _) = self.src.range(f.for_token.span());
            let (bo, _) = self.src.range(f.body.brace_token.span.open());
            let (bc, _) = self.src.range(f.body.brace_token.span.close());
            self.add(fs, bo + 1, format!("loop /*@LOOP{ord}@*/ {{ /*@ANCHORBC{ord}@*/ match self.next() {{ Some({pat}) => {{ /*@ANCHORLS{ord}@*/"), "E8 self-iteration");
            self.add(bc, bc + 1, format!("/*@ANCHORLE{ord}@*/ }} None => {{ /*@ANCHORBR{ord}@*/ break; }} }} }}"), "E8 self-iteration");
            let anchors: Vec<Anchor> = self.item.anchors.iter().filter(|a| a.loop_ == ord && (a.where_ == "loop_start" || a.where_ == "loop_end" || a.where_ == "before_call" || a.where_ == "at_break")).cloned().collect();
            for an in anchors { self.anchors_found.push(an.id.clone()); }
            self.visit_block(&f.body);
            return;
        }
        if let syn::Expr::MethodCall(mc) = &*f.expr {
            if mc.args.is_empty() {
                if let Some(ctor) = self.item.iter_inline.get(&mc.method.to_string()).cloned() {
                    // E8b: language-defined desugaring with the (checked) body of the iterator-returning method inlined
                    let ord = self.loops.len() + 1;
                    self.loops.push(LoopOut { ordinal: ord, kind: "for-own-iterator".into(), line: self.src.line_of(self.src.range(f.span()).0) });
                    let recv = self.src.slice(mc.receiver.span()).to_string();
                    let pat = self.src.slice(f.pat.span()).to_string();
                    let name = format!("{}_it", mc.method);
                    if ctor == "@literal" {
                        // the method's body is a struct literal: inline it with `self` := receiver (filled in by extract_fn)
                        let (fs, _) = self.src.range(f.for_token.span());
                        let (bo, _) = self.src.range(f.body.brace_token.span.open());
                        self.add(fs, bo, format!("let mut {name} = /*@INLINE:{}:{}@*/; while let Some({pat}) = {name}.next() /*@LOOP{ord}@*/ ", mc.method, recv.replace(':', "\u{1}")), "E8b own-iterator loop (struct literal inlined)");
                        self.inline_checks.push((mc.method.to_string(), ctor));
                        self.visit_block(&f.body);
                        return;
                    }
                    let (fs, _) = self.src.range(f.for_token.span());
                    let (bo, _) = self.src.range(f.body.brace_token.span.open());
                    self.add(fs, bo, format!("let mut {name} = {ctor}({recv}); while let Some({pat}) = {name}.next() /*@LOOP{ord}@*/ "), "E8b own-iterator loop");
                    self.inline_checks.push((mc.method.to_string(), ctor));
                    self.visit_block(&f.body);
                    return;
                }
            }
        }
        let ord = self.loop_marker("for", &f.body, f.span());
        let (es, _) = self.src.range(f.expr.span());
        self.add(es, es, format!("it{ord}: "), "for-loop ghost iterator binder");
        // E7: `for &v in` / tuple patterns are left to Verus; report refusal for reference patterns
        let lets = self.ref_pats(&f.pat, false);
        if !lets.is_empty() {
            let (bo, _) = self.src.range(f.body.brace_token.span.open());
            self.add(bo + 1, bo + 1, format!(" {lets}"), "E7 reference pattern");
        }
        self.visit_expr(&f.expr);
        self.visit_block(&f.body);
    }

    fn visit_expr_if(&mut self, i: &'ast syn::ExprIf) {
        if let syn::Expr::Let(l) = &*i.cond {
            let lets = self.ref_pats(&l.pat, false);
            if !lets.is_empty() {
                let (bo, _) = self.src.range(i.then_branch.brace_token.span.open());
                self.add(bo + 1, bo + 1, format!(" {lets}"), "E7 reference pattern");
            }
        }
        syn::visit::visit_expr_if(self, i);
    }

    fn visit_expr_while(&mut self, w: &'ast syn::ExprWhile) {
        let _ = self.loop_marker("while", &w.body, w.span());
        if let syn::Expr::Let(l) = &*w.cond {
            let lets = self.ref_pats(&l.pat, false);
            if !lets.is_empty() {
                let (bo, _) = self.src.range(w.body.brace_token.span.open());
                self.add(bo + 1, bo + 1, format!(" {lets}"), "E7 reference pattern");
            }
        }
        self.visit_expr(&w.cond);
        self.visit_block(&w.body);
    }

    fn visit_expr_loop(&mut self, l: &'ast syn::ExprLoop) {
        let _ = self.loop_marker("loop", &l.body, l.span());
        self.visit_block(&l.body);
    }

    fn visit_expr_closure(&mut self, c: &'ast syn::ExprClosure) {
        self.closures += 1;
        let ord = self.closures;
        if let Some(h) = self.item.hoist.get(&ord.to_string()).cloned() {
            // parameter names from the @hoist header
            let mut names = vec![];
            let mut depth = 0i32; let mut cur = String::new();
            for ch in h.params.chars() {
                match ch { '(' | '[' | '<' => depth += 1, ')' | ']' | '>' => depth -= 1, _ => {} }
                if ch == ',' && depth == 0 { names.push(cur.clone()); cur.clear(); } else { cur.push(ch); }
            }
            if !cur.trim().is_empty() { names.push(cur); }
            let names: Vec<String> = names.iter().map(|n| n.split(':').next().unwrap_or("").trim().trim_start_matches("mut ").to_string()).collect();
            let lets = self.closure_param_lets(&c.inputs, &names);
            let (cs, ce) = self.src.range(c.span());
            let (bs, be) = self.src.range(c.body.span());
            let is_block = matches!(&*c.body, syn::Expr::Block(_));
            self.visit_expr(&c.body);
            let path = if self.in_impl { format!("Self::{}", h.name) } else { h.name.clone() };
            self.add(cs, ce, path, "E9b closure hoisted to a named fn item");
            self.hoisted.push((ord, bs, be, lets, h, is_block));
            return;
        }
        if let Some(spec) = self.item.closures.get(&ord.to_string()).cloned() {
            let (o1, _) = self.src.range(c.or1_token.span());
            let (_, o2) = self.src.range(c.or2_token.span());
            let (bs, be) = self.src.range(c.body.span());
            if !matches!(c.output, syn::ReturnType::Default) {
                self.errors.push("E9: closure already has a return type".into());
            }
            self.add(o1, o2, spec.params.clone(), "E9 closure parameter types");
            // parameter names from the @closure header: |a: T, b: U|
            let inner = spec.params.trim().trim_matches('|').to_string();
            let mut names = vec![];
            let mut depth = 0i32; let mut cur = String::new();
            for ch in inner.chars() {
                match ch { '(' | '[' | '<' => depth += 1, ')' | ']' | '>' => depth -= 1, _ => {} }
                if ch == ',' && depth == 0 { names.push(cur.clone()); cur.clear(); } else { cur.push(ch); }
            }
            if !cur.trim().is_empty() { names.push(cur); }
            let names: Vec<String> = names.iter().map(|n| n.split(':').next().unwrap_or("").trim().trim_start_matches("mut ").to_string()).collect();
            let lets = self.closure_param_lets(&c.inputs, &names);
            if let syn::Expr::Block(eb) = &*c.body {
                self.add(bs, bs, format!(" -> {} /*@CLOSURE{ord}@*/ ", spec.ret), "E9 closure contract");
                if !lets.is_empty() {
                    let (bo, _) = self.src.range(eb.block.brace_token.span.open());
                    self.add(bo + 1, bo + 1, format!(" {lets}"), "E7 reference pattern");
                }
            } else {
                self.add(bs, bs, format!(" -> {} /*@CLOSURE{ord}@*/ {{ {lets}", spec.ret), "E9 closure contract");
                self.add(be, be, " }".to_string(), "E9 closure contract");
            }
        }
        self.visit_expr(&c.body);
    }
}

fn apply_edits(src: &Src, start: usize, end: usize, mut edits: Vec<Edit>, errors: &mut Vec<String>) -> String {
    edits.retain(|e| e.start >= start && e.end <= end);
    edits.sort_by_key(|e| (e.start, e.end != e.start, e.seq));
    // drop edits nested inside a replacing edit (e.g. subst inside a deleted let); report overlaps
    let mut out = String::new();
    let mut pos = start;
    for e in &edits {
        if e.start < pos {
            if e.end <= pos {
                // fully inside previous replacement: only allowed if previous was a deletion of the whole statement
                continue;
            }
            errors.push(format!("overlapping edits at line {} ({})", src.line_of(e.start), e.rule));
            continue;
        }
        out.push_str(&src.text[pos..e.start]);
        out.push_str(&e.text);
        pos = e.end;
    }
    out.push_str(&src.text[pos..end]);
    out
}

fn generics_text(src: &Src, g: &syn::Generics, drop: &[String]) -> (String, String) {
    let mut params = vec![];
    for p in &g.params {
        let name = match p {
            syn::GenericParam::Type(t) => t.ident.to_string(),
            syn::GenericParam::Lifetime(l) => l.lifetime.to_string(),
            syn::GenericParam::Const(c) => c.ident.to_string(),
        };
        if drop.contains(&name) { continue; }
        params.push(src.slice(p.span()).to_string());
    }
    let gen = if params.is_empty() { String::new() } else { format!("<{}>", params.join(", ")) };
    (gen, String::new())
}

fn where_text(src: &Src, g: &syn::Generics, drop: &[String], drop_where: &[String], subst: &BTreeMap<String, String>) -> String {
    let Some(w) = &g.where_clause else { return String::new() };
    let mut preds = vec![];
    for p in &w.predicates {
        if let syn::WherePredicate::Type(t) = p {
            let bounded = norm(src.slice(t.bounded_ty.span()));
            if drop.contains(&bounded) || drop_where.contains(&bounded) || subst.contains_key(&bounded) { continue; }
        }
        preds.push(norm(src.slice(p.span())));
    }
    if preds.is_empty() { String::new() } else { format!(" where {},", preds.join(", ")) }
}

fn find_fn<'f>(file: &'f syn::File, src: &Src, it: &Item) -> Result<(Option<&'f syn::ItemImpl>, &'f [syn::Attribute], &'f syn::Visibility, &'f syn::Signature, &'f syn::Block, Span), String> {
    let mut found = vec![];
    for item in &file.items {
        match item {
            syn::Item::Impl(im) => {
                let Some(want) = &it.impl_type else { continue };
                if &type_last_seg(&im.self_ty) != want { continue; }
                let tr = im.trait_.as_ref().map(|(_, p, _)| last_seg(p));
                match (&it.trait_, &tr) {
                    (None, None) => {}
                    (Some(a), Some(b)) if a == b || a == "*" => {}
                    (Some(a), None) if a == "*" => {}
                    _ => continue,
                }
                if let Some(c) = &it.impl_contains {
                    let (a, _) = src.range(im.span());
                    let (b, _) = src.range(im.brace_token.span.open());
                    if !norm(&src.text[a..b]).contains(&norm(c)) { continue; }
                }
                for ii in &im.items {
                    if let syn::ImplItem::Fn(f) = ii {
                        if f.sig.ident == it.name {
                            found.push((Some(im), &f.attrs[..], &f.vis, &f.sig, &f.block, f.span()));
                        }
                    }
                }
            }
            syn::Item::Trait(t) if it.impl_type.is_none() && it.trait_.as_deref() == Some(&t.ident.to_string()) => {
                // default method of a trait definition (rule E1: becomes an inherent method of the unit's type)
                for ti in &t.items {
                    if let syn::TraitItem::Fn(f) = ti {
                        if f.sig.ident == it.name {
                            if let Some(b) = &f.default {
                                found.push((None, &f.attrs[..], &t.vis, &f.sig, b, f.span()));
                            }
                        }
                    }
                }
            }
            syn::Item::Fn(f) if it.impl_type.is_none() && it.trait_.is_none() => {
                if f.sig.ident == it.name {
                    found.push((None, &f.attrs[..], &f.vis, &f.sig, &*f.block, f.span()));
                }
            }
            _ => {}
        }
    }
    match found.len() {
        0 => Err(format!("lost anchor: fn {} (impl {:?} trait {:?}) not found in {}", it.name, it.impl_type, it.trait_, it.file)),
        1 => Ok(found.remove(0)),
        n => Err(format!("ambiguous: {} matches for fn {} (impl {:?} trait {:?})", n, it.name, it.impl_type, it.trait_)),
    }
}

fn extract_fn(file: &syn::File, src: &Src, it: &Item) -> ItemOut {
    let mut out = ItemOut { id: it.id.clone(), orig_file: it.file.clone(), ..Default::default() };
    let (_im, _attrs, _vis, sig, block, whole) = match find_fn(file, src, it) {
        Ok(x) => x,
        Err(e) => { out.errors.push(e); return out; }
    };
    let (ws, we) = src.range(whole);
    out.orig_text = src.text[ws..we].to_string();
    out.orig_start_line = src.line_of(ws);
    out.orig_end_line = src.line_of(we);

    let mut cx = Ctx { src, item: it, edits: vec![], seq: 0, loops: vec![], closures: 0, sites: BTreeMap::new(), errors: vec![], anchors_found: vec![], ptr_base: BTreeMap::new(), ptr_elem: BTreeMap::new(), ptr_cursor: BTreeMap::new(), ptr_end: BTreeMap::new(), tmp_n: 0, ptr_pos: BTreeMap::new(), hoisted: vec![], in_impl: false, inline_checks: vec![], anchor_occ: BTreeMap::new(), self_iter_types: vec![], eager_tail: None };

    // ---- signature, rebuilt from source slices (E0, E2, E10, E11) ----
    let mut sigtxt = String::new();
    if it.keep_pub { sigtxt.push_str("pub "); }
    if sig.constness.is_some() { sigtxt.push_str("const "); }
    if sig.unsafety.is_some() { sigtxt.push_str("unsafe "); }
    sigtxt.push_str("fn ");
    sigtxt.push_str(&it.rename.clone().unwrap_or_else(|| sig.ident.to_string()));
    let (g, _) = generics_text(src, &sig.generics, &it.drop_generics);
    sigtxt.push_str(&g);
    // inputs: visit for subst
    let (ps, pe) = src.range(sig.paren_token.span.join());
    {
        let mut sub = Ctx { src, item: it, edits: vec![], seq: 0, loops: vec![], closures: 0, sites: BTreeMap::new(), errors: vec![], anchors_found: vec![], ptr_base: BTreeMap::new(), ptr_elem: BTreeMap::new(), ptr_cursor: BTreeMap::new(), ptr_end: BTreeMap::new(), tmp_n: 0, ptr_pos: BTreeMap::new(), hoisted: vec![], in_impl: false, inline_checks: vec![], anchor_occ: BTreeMap::new(), self_iter_types: vec![], eager_tail: None };
        for inp in &sig.inputs { sub.visit_fn_arg(inp); }
        // E0b: a wildcard parameter pattern `_: T` (rejected by Verus) gets a fresh unused name
        let mut wn = 0;
        for inp in &sig.inputs {
            if let syn::FnArg::Typed(pt) = inp {
                if let syn::Pat::Wild(w) = &*pt.pat {
                    let (a, b) = src.range(w.span());
                    wn += 1;
                    sub.edits.push(Edit { start: a, end: b, text: format!("_wild{wn}"), rule: "E0b wildcard parameter named".into(), seq: 1000 + wn });
                }
            }
        }
        let mut errs = vec![];
        sigtxt.push_str(&norm(&apply_edits(src, ps, pe, sub.edits.clone(), &mut errs)));
        for e in &sub.edits { out.edits.push(EditOut { rule: e.rule.clone(), line: src.line_of(e.start), from: src.text[e.start..e.end].to_string(), to: e.text.clone() }); }
        out.errors.extend(errs);
    }
    if let syn::ReturnType::Type(_, ty) = &sig.output {
        let (ts, te) = src.range(ty.span());
        let mut sub = Ctx { src, item: it, edits: vec![], seq: 0, loops: vec![], closures: 0, sites: BTreeMap::new(), errors: vec![], anchors_found: vec![], ptr_base: BTreeMap::new(), ptr_elem: BTreeMap::new(), ptr_cursor: BTreeMap::new(), ptr_end: BTreeMap::new(), tmp_n: 0, ptr_pos: BTreeMap::new(), hoisted: vec![], in_impl: false, inline_checks: vec![], anchor_occ: BTreeMap::new(), self_iter_types: vec![], eager_tail: None };
        sub.visit_type(ty);
        let mut errs = vec![];
        let mut t = norm(&apply_edits(src, ts, te, sub.edits.clone(), &mut errs));
        for e in &sub.edits { out.edits.push(EditOut { rule: e.rule.clone(), line: src.line_of(e.start), from: src.text[e.start..e.end].to_string(), to: e.text.clone() }); }
        if let Some(rt) = &it.ret_type {
            let want = rt.split('<').next().unwrap_or("").trim().to_string();
            let ok = t.starts_with("impl ") && match block.stmts.last() {
                Some(syn::Stmt::Expr(syn::Expr::Struct(es), None)) => last_seg(&es.path) == want,
                // or an associated-function call `Want::ctor(..)` (the declared type is then checked by rustc inside Verus)
                Some(syn::Stmt::Expr(syn::Expr::Call(c), None)) => matches!(&*c.func, syn::Expr::Path(p) if p.path.segments.len() == 2 && p.path.segments[0].ident == want.as_str()),
                _ => false,
            };
            if ok {
                out.edits.push(EditOut { rule: "E10b opaque return type concretised to the struct type of the tail literal".into(), line: src.line_of(ts), from: t.clone(), to: rt.clone() });
                t = rt.clone();
            } else {
                out.errors.push(format!("E10b: side condition failed: return type is not `impl ..` or the tail expression is neither a `{want} {{ .. }}` literal nor a `{want}::f(..)` call"));
            }
        }
        if t.starts_with("impl ") && !t.contains("use<") { t.push_str(" + use<'_>"); }
        let rn = it.ret_name.clone().unwrap_or_else(|| "r".to_string());
        if t == "!" { sigtxt.push_str(" -> !"); } else { sigtxt.push_str(&format!(" -> ({rn}: {t})")); }
    }
    sigtxt.push_str(&where_text(src, &sig.generics, &it.drop_generics, &it.drop_where, &it.subst));
    sigtxt.push_str("\n/*@SIG@*/\n");

    // ---- body ----
    cx.in_impl = _im.is_some();
    if it.eager {
        match block.stmts.last() {
            Some(syn::Stmt::Expr(t, None)) => { cx.eager_tail = Some(src.range(t.span())); }
            _ => cx.errors.push("E14d: `eager` needs a tail expression".into()),
        }
    }
    cx.visit_block(block);
    let (bs, be) = src.range(block.span());
    // fn_start / fn_end anchors
    for an in &it.anchors {
        if an.where_ == "fn_start" {
            cx.seq += 1;
            cx.edits.push(Edit { start: bs + 1, end: bs + 1, text: format!(" /*@ANCHOR:{}@*/ ", an.id), rule: "inject hint".into(), seq: 0 });
            cx.anchors_found.push(an.id.clone());
        } else if an.where_ == "fn_end" {
            let pos = match block.stmts.last() {
                Some(syn::Stmt::Expr(e, None)) => src.range(e.span()).0,
                _ => be - 1,
            };
            cx.seq += 1;
            cx.edits.push(Edit { start: pos, end: pos, text: format!(" /*@ANCHOR:{}@*/ ", an.id), rule: "inject hint".into(), seq: cx.seq });
            cx.anchors_found.push(an.id.clone());
        }
    }
    // manual replacements (rule M)
    for (from, to, why) in &it.manual {
        let hay = &src.text[bs..be];
        let cnt = hay.matches(from.as_str()).count();
        if cnt != 1 {
            cx.errors.push(format!("lost anchor: manual replacement `{from}` matches {cnt} times"));
            continue;
        }
        let p = bs + hay.find(from.as_str()).unwrap();
        cx.seq += 1;
        cx.edits.push(Edit { start: p, end: p + from.len(), text: to.clone(), rule: format!("M manual: {why}"), seq: cx.seq });
    }
    let mut literal_bodies: BTreeMap<String, String> = BTreeMap::new();
    // E5 side condition: the Vec a pointer was taken from is not structurally modified (reallocated, shrunk, reassigned)
    // anywhere in the function; `set_len` keeps the allocation and is allowed
    {
        let mut bases: Vec<String> = cx.ptr_base.values().cloned().collect();
        bases.extend(cx.ptr_cursor.values().cloned());
        bases.sort(); bases.dedup();
        for base in bases {
            // only the text AFTER the pointer was taken matters
            let from = cx.ptr_pos.get(&base).copied().unwrap_or(bs).min(be);
            let body_txt = norm(&src.text[from..be]);
            let b = norm(&base);
            for m in ["push", "pop", "clear", "resize", "truncate", "insert", "remove", "extend", "reserve", "shrink_to_fit", "append", "drain", "retain", "dedup", "swap_remove", "split_off", "push_back", "push_front", "pop_back", "pop_front"] {
                if body_txt.contains(&format!("{b}.{m}(")) || body_txt.contains(&format!("{b} .{m}(")) {
                    cx.errors.push(format!("E5: side condition failed: `{b}` is modified by `{m}` while a raw pointer into it is in use"));
                }
            }
            if body_txt.contains(&format!("{b} = ")) && !body_txt.contains(&format!("let mut {b} = ")) && !body_txt.contains(&format!("let {b} = ")) {
                cx.errors.push(format!("E5: side condition failed: `{b}` is reassigned while a raw pointer into it is in use"));
            }
        }
    }
    for (m, ctor) in cx.inline_checks.clone() {
        // the method `m` of some impl in this file must have exactly the body `{ CTOR(self) }`
        let mut ok = false;
        if ctor == "@literal" {
            for item in &file.items {
                if let syn::Item::Impl(im) = item {
                    for ii in &im.items {
                        if let syn::ImplItem::Fn(f) = ii {
                            if f.sig.ident == m && f.sig.inputs.len() == 1 && f.block.stmts.len() == 1 {
                                if let Some(syn::Stmt::Expr(syn::Expr::Struct(es), None)) = f.block.stmts.last() {
                                    literal_bodies.insert(m.clone(), src.slice(es.span()).to_string());
                                    ok = true;
                                }
                            }
                        }
                    }
                }
            }
            if !ok { cx.errors.push(format!("E8b: side condition failed: method `{m}` has no body consisting of a single struct literal in {}", it.file)); }
            continue;
        }
        for item in &file.items {
            if let syn::Item::Impl(im) = item {
                for ii in &im.items {
                    if let syn::ImplItem::Fn(f) = ii {
                        if f.sig.ident == m && f.sig.inputs.len() == 1 {
                            let body = norm(src.slice(f.block.span())).replace(' ', "");
                            if body == format!("{{{ctor}(self)}}").replace(' ', "") { ok = true; }
                        }
                    }
                }
            }
        }
        if !ok { cx.errors.push(format!("E8b: side condition failed: no method `{m}` with body `{ctor}(self)` in {}", it.file)); }
    }
    for an in &it.anchors {
        if !cx.anchors_found.contains(&an.id) {
            cx.errors.push(format!("lost anchor: hint anchor {} ({} `{}` loop {})", an.id, an.where_, an.text, an.loop_));
        } else if an.occ == 0 && (an.where_ == "before" || an.where_ == "after") && cx.anchor_occ.get(&an.id).copied().unwrap_or(0) > 1 {
            // a text anchor without an explicit occurrence number must identify ONE statement: otherwise a rewrite of the
            // intended statement would silently move the hint to another match (a misplaced hint can fail a proof on correct code)
            cx.errors.push(format!("lost anchor: hint anchor {} ({} `{}`) is ambiguous: {} statements start with this text (make it longer or give #k)", an.id, an.where_, an.text, cx.anchor_occ.get(&an.id).copied().unwrap_or(0)));
        }
    }
    for (k, _) in &it.closures {
        if k.parse::<usize>().map(|n| n > cx.closures).unwrap_or(true) {
            cx.errors.push(format!("lost anchor: closure {k} (function has {})", cx.closures));
        }
    }
    let mut errs = vec![];
    let body = apply_edits(src, bs, be, cx.edits.clone(), &mut errs);
    for e in &cx.edits {
        if e.rule.starts_with("inject") || e.rule.starts_with("for-loop ghost") { continue; }
        out.edits.push(EditOut { rule: e.rule.clone(), line: src.line_of(e.start), from: src.text[e.start..e.end].to_string(), to: e.text.clone() });
    }
    // fill in inlined struct literals (`self` := receiver, token-wise)
    let mut body = body;
    while let Some(p0) = body.find("/*@INLINE:") {
        let p1 = body[p0..].find("@*/").map(|x| x + p0).unwrap_or(body.len());
        let spec = body[p0 + 10..p1].to_string();
        let mut parts = spec.splitn(2, ':');
        let m = parts.next().unwrap_or("").to_string();
        let recv = parts.next().unwrap_or("").replace('\u{1}', ":");
        let lit = literal_bodies.get(&m).cloned().unwrap_or_default();
        // replace the identifier `self` (not inside other identifiers) by the receiver
        let mut outl = String::new();
        let bytes: Vec<char> = lit.chars().collect();
        let mut i = 0;
        while i < bytes.len() {
            let is_id = |c: char| c.is_alphanumeric() || c == '_';
            if i + 4 <= bytes.len() && bytes[i..i + 4].iter().collect::<String>() == "self" && (i == 0 || !is_id(bytes[i - 1])) && (i + 4 == bytes.len() || !is_id(bytes[i + 4])) {
                outl.push_str(&recv);
                i += 4;
            } else {
                outl.push(bytes[i]);
                i += 1;
            }
        }
        body = format!("{}{}{}", &body[..p0], norm(&outl), &body[p1 + 3..]);
    }
    let mut hoisted_text = String::new();
    for (ord, hs, he, lets, h, is_block) in cx.hoisted.clone() {
        let mut errs2 = vec![];
        let inner = apply_edits(src, hs, he, cx.edits.clone(), &mut errs2);
        let body_txt = if is_block {
            // insert the lets after the opening brace
            let t = inner.trim_start();
            format!("{{ {lets}{}", &t[1..])
        } else {
            format!("{{ {lets}{inner} }}")
        };
        hoisted_text.push_str(&format!("\n\n    fn {}{}({}) -> {}\n/*@HOIST{}@*/\n{}\n", h.name, h.generics, h.params, h.ret, ord, body_txt));
        out.edits.push(EditOut { rule: format!("E9b closure {ord} emitted as fn {}", h.name), line: src.line_of(hs), from: norm(&src.text[hs..he]).chars().take(100).collect(), to: h.name.clone() });
        out.errors.extend(errs2);
    }
    out.text = format!("{sigtxt}{body}{hoisted_text}");
    out.loops = cx.loops;
    out.closures = cx.closures;
    out.sites = cx.sites;
    out.anchors_found = cx.anchors_found;
    out.errors.extend(cx.errors);
    out.errors.extend(errs);
    out
}

fn extract_struct(file: &syn::File, src: &Src, it: &Item) -> ItemOut {
    let mut out = ItemOut { id: it.id.clone(), orig_file: it.file.clone(), ..Default::default() };
    for item in &file.items {
        match item {
            syn::Item::Struct(s) if s.ident == it.name => {
                let (ws, we) = src.range(s.span());
                out.orig_text = src.text[ws..we].to_string();
                out.orig_start_line = src.line_of(ws);
                out.orig_end_line = src.line_of(we);
                let mut cx = Ctx { src, item: it, edits: vec![], seq: 0, loops: vec![], closures: 0, sites: BTreeMap::new(), errors: vec![], anchors_found: vec![], ptr_base: BTreeMap::new(), ptr_elem: BTreeMap::new(), ptr_cursor: BTreeMap::new(), ptr_end: BTreeMap::new(), tmp_n: 0, ptr_pos: BTreeMap::new(), hoisted: vec![], in_impl: false, inline_checks: vec![], anchor_occ: BTreeMap::new(), self_iter_types: vec![], eager_tail: None };
                cx.visit_fields(&s.fields);
                if let Some(pf) = &it.ptr_field {
                    // E5c: the raw-pointer field becomes the borrowed slice it is taken from
                    let lt = s.generics.lifetimes().next().map(|l| l.lifetime.to_string());
                    let has_marker = s.fields.iter().any(|f| { let t = norm(src.slice(f.ty.span())); t.starts_with("PhantomData<&") || t.contains("::PhantomData<&") });
                    let mut done = false;
                    for f in s.fields.iter() {
                        if f.ident.as_ref().map(|i| i == pf).unwrap_or(false) {
                            if let (syn::Type::Ptr(tp), Some(lt)) = (&f.ty, &lt) {
                                if tp.const_token.is_some() && has_marker {
                                    let (a, b) = src.range(f.ty.span());
                                    let elem = norm(src.slice(tp.elem.span()));
                                    cx.edits.push(Edit { start: a, end: b, text: format!("&{lt} [{elem}]"), rule: "E5c pointer field -> borrowed slice".into(), seq: 5000 });
                                    done = true;
                                }
                            }
                        }
                    }
                    if !done { out.errors.push(format!("E5c: side condition failed: `{pf}` is not a `*const T` field of a struct with a lifetime parameter and a PhantomData<&'a _> marker")); }
                    // side condition: every literal of this struct in the file initialises the field with `X.as_ptr()`
                    struct Lits<'x> { name: String, pf: String, bad: usize, n: usize, src: &'x Src }
                    impl<'x, 'ast> Visit<'ast> for Lits<'x> {
                        fn visit_expr_struct(&mut self, es: &'ast syn::ExprStruct) {
                            if last_seg(&es.path) == self.name {
                                self.n += 1;
                                let ok = es.fields.iter().any(|fv| matches!(&fv.member, syn::Member::Named(m) if *m == self.pf) && norm(self.src.slice(fv.expr.span())).ends_with(".as_ptr()"));
                                if !ok { self.bad += 1; }
                            }
                            syn::visit::visit_expr_struct(self, es);
                        }
                    }
                    let mut l = Lits { name: s.ident.to_string(), pf: pf.clone(), bad: 0, n: 0, src };
                    l.visit_file(file);
                    if l.bad > 0 || l.n == 0 { out.errors.push(format!("E5c: side condition failed: {} of {} literals of `{}` do not initialise `{pf}` with `X.as_ptr()`", l.bad, l.n, s.ident)); }
                }
                let (fs, fe) = src.range(s.fields.span());
                let mut errs = vec![];
                let mut fields = apply_edits(src, fs, fe, cx.edits.clone(), &mut errs);
                // strip doc comments inside the field list
                fields = fields.lines().filter(|l| !l.trim_start().starts_with("///")).collect::<Vec<_>>().join("\n");
                let (g, _) = generics_text(src, &s.generics, &it.drop_generics);
                let semi = if matches!(s.fields, syn::Fields::Named(_)) { "" } else { ";" };
                out.text = format!("struct {}{} {}{}", it.rename.clone().unwrap_or_else(|| s.ident.to_string()), g, fields, semi);
                for e in &cx.edits { out.edits.push(EditOut { rule: e.rule.clone(), line: src.line_of(e.start), from: src.text[e.start..e.end].to_string(), to: e.text.clone() }); }
                out.edits.push(EditOut { rule: "E0 attributes/derives/doc comments dropped".into(), line: out.orig_start_line, from: String::new(), to: String::new() });
                out.errors.extend(errs);
                return out;
            }
            syn::Item::Type(t) if t.ident == it.name && it.kind == "type" => {
                let (ws, we) = src.range(t.span());
                out.orig_text = src.text[ws..we].to_string();
                out.orig_start_line = src.line_of(ws);
                out.orig_end_line = src.line_of(we);
                out.text = format!("type {} = {};", t.ident, norm(src.slice(t.ty.span())));
                return out;
            }
            _ => {}
        }
    }
    out.errors.push(format!("lost anchor: {} {} not found in {}", it.kind, it.name, it.file));
    out
}

fn inventory(file: &syn::File, src: &Src, it: &Item) -> ItemOut {
    // every `unsafe` block / unsafe fn in the file with its enclosing function
    struct Inv<'a> { src: &'a Src, cur: Vec<String>, rows: Vec<BTreeMap<String, String>>, in_test: bool }
    impl<'a> Inv<'a> {
        fn fn_row(&mut self, sp: proc_macro2::Span) {
            let mut row = BTreeMap::new();
            row.insert("kind".to_string(), "fn".to_string());
            row.insert("fn".to_string(), self.cur.join("::"));
            row.insert("line".to_string(), self.src.line_of(self.src.range(sp).0).to_string());
            self.rows.push(row);
        }
    }
    impl<'a, 'ast> Visit<'ast> for Inv<'a> {
        fn visit_item_mod(&mut self, m: &'ast syn::ItemMod) {
            let is_test = m.attrs.iter().any(|a| norm(self.src.slice(a.span())).contains("cfg(test)"));
            if is_test { return; }
            syn::visit::visit_item_mod(self, m);
        }
        fn visit_item_impl(&mut self, im: &'ast syn::ItemImpl) {
            // impls compiled only for tests or for the verification hook are not part of the crate as built
            if im.attrs.iter().any(|a| { let t = norm(self.src.slice(a.span())); t.contains("cfg(test)") || t.contains("cfg(kani)") }) { return; }
            let ty = type_last_seg(&im.self_ty);
            let tr = im.trait_.as_ref().map(|(_, p, _)| last_seg(p)).unwrap_or_default();
            self.cur.push(if tr.is_empty() { ty } else { format!("<{ty} as {tr}>") });
            syn::visit::visit_item_impl(self, im);
            self.cur.pop();
        }
        fn visit_impl_item_fn(&mut self, f: &'ast syn::ImplItemFn) {
            self.cur.push(f.sig.ident.to_string());
            self.fn_row(f.sig.span());
            syn::visit::visit_impl_item_fn(self, f);
            self.cur.pop();
        }
        fn visit_item_trait(&mut self, t: &'ast syn::ItemTrait) {
            self.cur.push(format!("trait {}", t.ident));
            syn::visit::visit_item_trait(self, t);
            self.cur.pop();
        }
        fn visit_trait_item_fn(&mut self, f: &'ast syn::TraitItemFn) {
            if f.default.is_none() { return; }
            self.cur.push(f.sig.ident.to_string());
            self.fn_row(f.sig.span());
            syn::visit::visit_trait_item_fn(self, f);
            self.cur.pop();
        }
        fn visit_item_fn(&mut self, f: &'ast syn::ItemFn) {
            let is_test = f.attrs.iter().any(|a| { let t = norm(self.src.slice(a.span())); t.contains("cfg(test)") || t == "#[test]" });
            if is_test { return; }
            self.cur.push(f.sig.ident.to_string());
            self.fn_row(f.sig.span());
            syn::visit::visit_item_fn(self, f);
            self.cur.pop();
        }
        fn visit_expr_method_call(&mut self, m: &'ast syn::ExprMethodCall) {
            // `X.get_unchecked(e)` / `X.get_unchecked_mut(e)`: spans for the unchecked -> checked probe
            if (m.method == "get_unchecked" || m.method == "get_unchecked_mut") && m.args.len() == 1 && !self.cur.is_empty() {
                let (ws, we) = self.src.range(m.span());
                let (rs, re) = self.src.range(m.receiver.span());
                let (as_, ae) = self.src.range(m.args[0].span());
                let mut row = BTreeMap::new();
                row.insert("kind".to_string(), "unchecked".to_string());
                row.insert("fn".to_string(), self.cur.join("::"));
                row.insert("line".to_string(), self.src.line_of(ws).to_string());
                row.insert("whole".to_string(), format!("{ws}:{we}"));
                row.insert("recv".to_string(), format!("{rs}:{re}"));
                row.insert("arg".to_string(), format!("{as_}:{ae}"));
                row.insert("mut".to_string(), (m.method == "get_unchecked_mut").to_string());
                self.rows.push(row);
            }
            syn::visit::visit_expr_method_call(self, m);
        }
        fn visit_expr_if(&mut self, i: &'ast syn::ExprIf) {
            // `if c { A } else { B }` (no `if let`, no `else if`): spans for the branch-swap probe
            if let Some((_, els)) = &i.else_branch {
                if matches!(&**els, syn::Expr::Block(_)) && !matches!(&*i.cond, syn::Expr::Let(_)) && !self.cur.is_empty() {
                    let (cs, ce) = self.src.range(i.cond.span());
                    let (ts, te) = self.src.range(i.then_branch.span());
                    let (es, ee) = self.src.range(els.span());
                    let mut row = BTreeMap::new();
                    row.insert("kind".to_string(), "ifelse".to_string());
                    row.insert("fn".to_string(), self.cur.join("::"));
                    row.insert("line".to_string(), self.src.line_of(cs).to_string());
                    row.insert("cond".to_string(), format!("{cs}:{ce}"));
                    row.insert("then".to_string(), format!("{ts}:{te}"));
                    row.insert("else".to_string(), format!("{es}:{ee}"));
                    self.rows.push(row);
                }
            }
            syn::visit::visit_expr_if(self, i);
        }
        fn visit_expr_binary(&mut self, b: &'ast syn::ExprBinary) {
            // multiplication / addition sites with two non-literal operands (used by tools/commute_probe.py)
            let kind = match b.op {
                syn::BinOp::Mul(_) => Some("mul"), syn::BinOp::Add(_) => Some("add"),
                syn::BinOp::Eq(_) | syn::BinOp::Ne(_) | syn::BinOp::Lt(_) | syn::BinOp::Le(_) | syn::BinOp::Gt(_) | syn::BinOp::Ge(_) => Some("cmp"),
                _ => None };
            if let Some(kind) = kind {
                if !matches!(&*b.left, syn::Expr::Lit(_)) && !matches!(&*b.right, syn::Expr::Lit(_)) && !self.cur.is_empty() {
                    let (ls, le) = self.src.range(b.left.span());
                    let (rs, re) = self.src.range(b.right.span());
                    let mut row = BTreeMap::new();
                    row.insert("kind".to_string(), kind.to_string());
                    row.insert("fn".to_string(), self.cur.join("::"));
                    row.insert("line".to_string(), self.src.line_of(ls).to_string());
                    row.insert("left".to_string(), format!("{ls}:{le}"));
                    row.insert("right".to_string(), format!("{rs}:{re}"));
                    row.insert("op".to_string(), self.src.text[le..rs].trim().to_string());
                    self.rows.push(row);
                }
            }
            syn::visit::visit_expr_binary(self, b);
        }
        fn visit_expr_unsafe(&mut self, u: &'ast syn::ExprUnsafe) {
            let mut row = BTreeMap::new();
            row.insert("kind".to_string(), "unsafe".to_string());
            row.insert("fn".to_string(), self.cur.join("::"));
            row.insert("line".to_string(), self.src.line_of(self.src.range(u.span()).0).to_string());
            row.insert("text".to_string(), norm(self.src.slice(u.span())).chars().take(120).collect());
            self.rows.push(row);
            syn::visit::visit_expr_unsafe(self, u);
        }
    }
    let mut inv = Inv { src, cur: vec![], rows: vec![], in_test: false };
    let _ = inv.in_test;
    inv.visit_file(file);
    ItemOut { id: it.id.clone(), orig_file: it.file.clone(), inventory: inv.rows, ..Default::default() }
}

/// E3: text of the transcriber of `macro_rules! name { ($x:ty) => { BODY } ... }` (first rule) with `$x` replaced by `arg`
fn instantiate_macro(text: &str, name: &str, arg: &str) -> Result<String, String> {
    let pat = format!("macro_rules! {name}");
    let p = text.find(&pat).ok_or_else(|| format!("lost anchor: macro_rules! {name} not found"))?;
    let rest = &text[p..];
    // matcher: ($ident:ty)
    let m0 = rest.find("($").ok_or("E3: unsupported macro matcher")?;
    let m1 = rest[m0..].find(')').ok_or("E3: unsupported macro matcher")? + m0;
    let matcher = &rest[m0 + 1..m1];
    let mut vars = vec![];
    for piece in matcher.split(',') {
        let mut parts = piece.split(':');
        let var = parts.next().unwrap_or("").trim().to_string();
        let kind = parts.next().unwrap_or("").trim();
        if !var.starts_with('$') || kind != "ty" { return Err(format!("E3: unsupported macro matcher `{matcher}`")); }
        vars.push(var);
    }
    let args: Vec<&str> = arg.split(';').collect();
    if args.len() != vars.len() { return Err(format!("E3: macro `{name}` takes {} type parameters, {} given (separate with ;)", vars.len(), args.len())); }
    let arrow = rest[m1..].find("=>").ok_or("E3: no transcriber")? + m1;
    let open = rest[arrow..].find('{').ok_or("E3: no transcriber")? + arrow;
    let mut depth = 0i32;
    let mut close = None;
    for (i, ch) in rest[open..].char_indices() {
        match ch { '{' => depth += 1, '}' => { depth -= 1; if depth == 0 { close = Some(open + i); break; } } _ => {} }
    }
    let close = close.ok_or("E3: unbalanced transcriber")?;
    // preserve line numbers of the original file: pad with newlines up to the transcriber
    let prefix_lines = text[..p + open + 1].matches('\n').count();
    let mut body = rest[open + 1..close].to_string();
    for (v, a) in vars.iter().zip(args.iter()) { body = body.replace(v.as_str(), a); }
    Ok(format!("{}{}", "\n".repeat(prefix_lines), body))
}

fn main() {
    let args: Vec<String> = std::env::args().collect();
    let req_text = if args.len() > 1 { std::fs::read_to_string(&args[1]).expect("read request") } else { std::io::read_to_string(std::io::stdin()).expect("stdin") };
    let req: Request = serde_json::from_str(&req_text).expect("parse request");
    let mut cache: BTreeMap<String, (Src, Result<syn::File, String>)> = BTreeMap::new();
    let mut outs = vec![];
    for it in &req.items {
        if let Some(mname) = &it.macro_rules {
            // E3: instantiate the single-rule macro textually
            let key = format!("{}#{}#{}", it.file, mname, it.macro_arg.clone().unwrap_or_default());
            if !cache.contains_key(&key) {
                let text = std::fs::read_to_string(&it.file).unwrap_or_default();
                let inst = instantiate_macro(&text, mname, it.macro_arg.as_deref().unwrap_or(""));
                match inst {
                    Ok(t) => {
                        let parsed = syn::parse_file(&t).map_err(|e| format!("parse error in instance of {mname}: {e}"));
                        cache.insert(key.clone(), (Src::new(t), parsed));
                    }
                    Err(e) => { outs.push(ItemOut { id: it.id.clone(), errors: vec![e], ..Default::default() }); continue; }
                }
            }
            let (src, parsed) = cache.get(&key).unwrap();
            match parsed {
                Ok(f) => {
                    let mut o = extract_fn(f, src, it);
                    o.edits.push(EditOut { rule: format!("E3 macro instance {mname}!({})", it.macro_arg.clone().unwrap_or_default()), line: 0, from: "$type".into(), to: it.macro_arg.clone().unwrap_or_default() });
                    outs.push(o);
                }
                Err(e) => outs.push(ItemOut { id: it.id.clone(), errors: vec![e.clone()], ..Default::default() }),
            }
            continue;
        }
        if !cache.contains_key(&it.file) {
            let text = match std::fs::read_to_string(&it.file) {
                Ok(t) => t,
                Err(e) => {
                    outs.push(ItemOut { id: it.id.clone(), errors: vec![format!("lost anchor: cannot read {}: {e}", it.file)], ..Default::default() });
                    continue;
                }
            };
            let parsed = syn::parse_file(&text).map_err(|e| format!("parse error in {}: {e}", it.file));
            cache.insert(it.file.clone(), (Src::new(text), parsed));
        }
        let (src, parsed) = cache.get(&it.file).unwrap();
        let file = match parsed {
            Ok(f) => f,
            Err(e) => { outs.push(ItemOut { id: it.id.clone(), errors: vec![e.clone()], ..Default::default() }); continue; }
        };
        let out = match it.kind.as_str() {
            "fn" => extract_fn(file, src, it),
            "struct" | "type" => extract_struct(file, src, it),
            "inventory" => inventory(file, src, it),
            k => ItemOut { id: it.id.clone(), errors: vec![format!("unknown kind {k}")], ..Default::default() },
        };
        outs.push(out);
    }
    println!("{}", serde_json::to_string_pretty(&outs).unwrap());
}
