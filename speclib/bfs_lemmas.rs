// ---- BFS correctness lemmas over an abstract queue state (all proved; no axioms) ----
// abstract state: qv = queue vertices (front first), lv = their levels, vis = visited flags.
// `d` is the level function on visited vertices; it only occurs existentially in the concrete invariants.
spec fn unit_w() -> ArcW { |u: int, v: int| 1int }

spec fn is_vis(vis: Seq<bool>, v: int) -> bool { 0 <= v < vis.len() && vis[v] }

/// visited and no longer queued = already yielded
spec fn is_done(qv: Seq<int>, vis: Seq<bool>, v: int) -> bool { is_vis(vis, v) && !qv.contains(v) }

spec fn binv(has: ArcRel, qv: Seq<int>, lv: Seq<int>, vis: Seq<bool>, srcs: Set<int>, d: spec_fn(int) -> int) -> bool {
    &&& lv.len() == qv.len()
    &&& forall|s: int| #[trigger] srcs.contains(s) ==> is_vis(vis, s) && d(s) == 0
    &&& forall|v: int| #[trigger] is_vis(vis, v) ==> has_witness(has, unit_w(), srcs, v, d(v))
    &&& forall|i: int| 0 <= i < qv.len() ==> is_vis(vis, #[trigger] qv[i]) && d(qv[i]) == lv[i]
    &&& qv.no_duplicates()
    &&& forall|i: int, j: int| 0 <= i <= j < lv.len() ==> #[trigger] lv[i] <= #[trigger] lv[j]
    &&& forall|i: int| 0 <= i < lv.len() ==> #[trigger] lv[i] <= lv[0] + 1
    &&& forall|u: int, v: int| is_done(qv, vis, u) && #[trigger] has(u, v) ==> is_vis(vis, v) && d(v) <= d(u) + 1
    &&& forall|u: int| qv.len() > 0 && #[trigger] is_done(qv, vis, u) ==> d(u) <= lv[0]
}

/// one BFS step: pop the front (qv[0], lv[0]); `add` = its unvisited out-neighbours, appended with level lv[0] + 1 and marked
spec fn bstep(has: ArcRel, qv: Seq<int>, lv: Seq<int>, vis: Seq<bool>, qv2: Seq<int>, lv2: Seq<int>, vis2: Seq<bool>, add: Seq<int>) -> bool {
    &&& qv.len() > 0
    &&& lv.len() == qv.len()
    &&& vis2.len() == vis.len()
    &&& add.no_duplicates()
    &&& forall|k: int| 0 <= k < add.len() ==> 0 <= #[trigger] add[k] < vis.len() && !vis[add[k]] && has(qv[0], add[k])
    &&& forall|v: int| #[trigger] has(qv[0], v) && 0 <= v < vis.len() && !vis[v] ==> add.contains(v)
    &&& forall|v: int| 0 <= v < vis.len() ==> #[trigger] vis2[v] == (vis[v] || add.contains(v))
    &&& qv2 == qv.skip(1) + add
    &&& lv2 == lv.skip(1) + Seq::new(add.len(), |k: int| lv[0] + 1)
}

spec fn bstep_d(d: spec_fn(int) -> int, add: Seq<int>, l1: int) -> spec_fn(int) -> int {
    |v: int| if add.contains(v) { l1 } else { d(v) }
}

proof fn lemma_unit_w(p: Seq<int>)
    requires p.len() >= 1,
    ensures walk_weight(unit_w(), p) == p.len() - 1,
    decreases p.len(),
{
    if p.len() > 1 { lemma_unit_w(p.drop_last()); }
}

/// extending a witness by one arc
proof fn lemma_witness_extend(has: ArcRel, srcs: Set<int>, u: int, l: int, v: int)
    requires has_witness(has, unit_w(), srcs, u, l), has(u, v),
    ensures has_witness(has, unit_w(), srcs, v, l + 1),
{
    let p = choose|p: Seq<int>| #![auto] walk_from_to(has, srcs, u, p) && walk_weight(unit_w(), p) == l;
    lemma_walk_extend(has, unit_w(), p, v);
    assert(walk_from_to(has, srcs, v, p.push(v)));
}

/// every visited vertex has level <= front level + 1; queued ones have level >= front level
proof fn lemma_vis_bound(has: ArcRel, qv: Seq<int>, lv: Seq<int>, vis: Seq<bool>, srcs: Set<int>, d: spec_fn(int) -> int, v: int)
    requires binv(has, qv, lv, vis, srcs, d), qv.len() > 0, is_vis(vis, v),
    ensures d(v) <= lv[0] + 1, qv.contains(v) ==> lv[0] <= d(v),
{
    if qv.contains(v) {
        let i = choose|i: int| 0 <= i < qv.len() && qv[i] == v;
        assert(d(qv[i]) == lv[i]);
        assert(lv[0] <= lv[i]);
        assert(lv[i] <= lv[0] + 1);
    } else {
        assert(is_done(qv, vis, v));
    }
}

/// every visited vertex's level is its exact hop distance (non-empty queue; see lemma_exhausted for the empty one)
proof fn lemma_vis_exact_ne(has: ArcRel, qv: Seq<int>, lv: Seq<int>, vis: Seq<bool>, srcs: Set<int>, d: spec_fn(int) -> int, x: int)
    requires binv(has, qv, lv, vis, srcs, d), qv.len() > 0, is_vis(vis, x),
        forall|a: int, b: int| #[trigger] has(a, b) ==> 0 <= b < vis.len(),
    ensures is_min_walk_weight(has, unit_w(), srcs, x, d(x)),
{
    let l = lv[0];
    let dd = |v: int| if is_vis(vis, v) { d(v) } else { l + 1 };
    let r = set_int_range(0, vis.len() as int);
    assert forall|a: int, b: int| r.contains(a) && #[trigger] has(a, b) implies r.contains(b) && dd(b) <= dd(a) + unit_w()(a, b) by {
        if is_vis(vis, b) { lemma_vis_bound(has, qv, lv, vis, srcs, d, b); }
        if is_vis(vis, a) {
            lemma_vis_bound(has, qv, lv, vis, srcs, d, a);
            if !qv.contains(a) { assert(is_done(qv, vis, a)); }
        }
    }
    assert(feasible(has, unit_w(), srcs, r, dd));
    lemma_lower_bound_at(has, unit_w(), srcs, r, dd, x);
}

/// the front entry carries the exact hop distance
proof fn lemma_front_exact(has: ArcRel, qv: Seq<int>, lv: Seq<int>, vis: Seq<bool>, srcs: Set<int>, d: spec_fn(int) -> int)
    requires binv(has, qv, lv, vis, srcs, d), qv.len() > 0,
        forall|a: int, b: int| #[trigger] has(a, b) ==> 0 <= b < vis.len(),
    ensures is_min_walk_weight(has, unit_w(), srcs, qv[0], lv[0]),
{
    assert(is_vis(vis, qv[0]) && d(qv[0]) == lv[0]);
    lemma_vis_exact_ne(has, qv, lv, vis, srcs, d, qv[0]);
}

/// every queue entry carries the exact hop distance
proof fn lemma_queue_exact(has: ArcRel, qv: Seq<int>, lv: Seq<int>, vis: Seq<bool>, srcs: Set<int>, d: spec_fn(int) -> int, i: int)
    requires binv(has, qv, lv, vis, srcs, d), 0 <= i < qv.len(),
        forall|a: int, b: int| #[trigger] has(a, b) ==> 0 <= b < vis.len(),
    ensures is_min_walk_weight(has, unit_w(), srcs, qv[i], lv[i]),
{
    assert(is_vis(vis, qv[i]) && d(qv[i]) == lv[i]);
    lemma_vis_exact_ne(has, qv, lv, vis, srcs, d, qv[i]);
}

/// exhaustion: with an empty queue the visited set is exactly the reachable set and d is the exact distance
proof fn lemma_exhausted(has: ArcRel, qv: Seq<int>, lv: Seq<int>, vis: Seq<bool>, srcs: Set<int>, d: spec_fn(int) -> int)
    requires binv(has, qv, lv, vis, srcs, d), qv.len() == 0,
    ensures
        forall|v: int| #[trigger] is_vis(vis, v) <==> reachable(has, srcs, v),
        forall|v: int| #[trigger] is_vis(vis, v) ==> is_min_walk_weight(has, unit_w(), srcs, v, d(v)),
{
    let r = set_int_range(0, vis.len() as int).filter(|v: int| vis[v]);
    assert forall|v: int| #[trigger] r.contains(v) <==> is_vis(vis, v) by {}
    assert forall|a: int, b: int| r.contains(a) && #[trigger] has(a, b) implies r.contains(b) && d(b) <= d(a) + unit_w()(a, b) by {
        assert(is_done(qv, vis, a));
    }
    assert(feasible(has, unit_w(), srcs, r, d));
    assert forall|v: int| #[trigger] r.contains(v) implies has_witness(has, unit_w(), srcs, v, d(v)) by {
        assert(is_vis(vis, v));
    }
    lemma_certificate(has, unit_w(), srcs, r, d);
    assert forall|v: int| #[trigger] is_vis(vis, v) <==> reachable(has, srcs, v) by {
        assert(r.contains(v) <==> is_vis(vis, v));
    }
    assert forall|v: int| #[trigger] is_vis(vis, v) implies is_min_walk_weight(has, unit_w(), srcs, v, d(v)) by {
        assert(r.contains(v));
    }
}

/// the minimum walk weight is unique
proof fn lemma_min_unique(has: ArcRel, w: ArcW, srcs: Set<int>, v: int, a: int, b: int)
    requires is_min_walk_weight(has, w, srcs, v, a), is_min_walk_weight(has, w, srcs, v, b),
    ensures a == b,
{
    let pa = choose|p: Seq<int>| #![auto] walk_from_to(has, srcs, v, p) && walk_weight(w, p) == a;
    let pb = choose|p: Seq<int>| #![auto] walk_from_to(has, srcs, v, p) && walk_weight(w, p) == b;
    assert(walk_from_to(has, srcs, v, pa));
    assert(walk_from_to(has, srcs, v, pb));
}

/// membership in the new queue
proof fn lemma_step_queue(has: ArcRel, qv: Seq<int>, lv: Seq<int>, vis: Seq<bool>, qv2: Seq<int>, lv2: Seq<int>, vis2: Seq<bool>, add: Seq<int>)
    requires bstep(has, qv, lv, vis, qv2, lv2, vis2, add), qv.no_duplicates(),
        forall|i: int| 0 <= i < qv.len() ==> is_vis(vis, #[trigger] qv[i]),
    ensures
        qv2.len() == qv.len() - 1 + add.len(),
        lv2.len() == qv2.len(),
        forall|i: int| 0 <= i < qv.len() - 1 ==> #[trigger] qv2[i] == qv[i + 1] && lv2[i] == lv[i + 1],
        forall|i: int| qv.len() - 1 <= i < qv2.len() ==> #[trigger] qv2[i] == add[i - (qv.len() - 1)] && lv2[i] == lv[0] + 1,
        forall|v: int| #[trigger] qv2.contains(v) <==> (qv.contains(v) && v != qv[0]) || add.contains(v),
        forall|v: int| #[trigger] is_done(qv2, vis2, v) <==> is_done(qv, vis, v) || v == qv[0],
        !is_done(qv, vis, qv[0]),
        qv2.no_duplicates(),
{
    let n = qv.len() - 1;
    assert(qv.skip(1).len() == n);
    assert forall|i: int| 0 <= i < n implies #[trigger] qv2[i] == qv[i + 1] && lv2[i] == lv[i + 1] by {
        assert(qv.skip(1)[i] == qv[i + 1]);
        assert(lv.skip(1)[i] == lv[i + 1]);
    }
    assert forall|i: int| n <= i < qv2.len() implies #[trigger] qv2[i] == add[i - n] && lv2[i] == lv[0] + 1 by {
    }
    assert forall|v: int| #[trigger] qv2.contains(v) <==> (qv.contains(v) && v != qv[0]) || add.contains(v) by {
        if qv2.contains(v) {
            let i = choose|i: int| 0 <= i < qv2.len() && qv2[i] == v;
            if i < n {
                assert(qv2[i] == qv[i + 1]);
                assert(qv[i + 1] != qv[0]);
            } else {
                assert(qv2[i] == add[i - n]);
            }
        }
        if qv.contains(v) && v != qv[0] {
            let i = choose|i: int| 0 <= i < qv.len() && qv[i] == v;
            assert(qv2[i - 1] == qv[i]);
        }
        if add.contains(v) {
            let k = choose|k: int| 0 <= k < add.len() && add[k] == v;
            assert(qv2[n + k] == add[k]);
        }
    }
    assert(qv.contains(qv[0]));
    assert forall|v: int| #[trigger] is_done(qv2, vis2, v) <==> is_done(qv, vis, v) || v == qv[0] by {
        assert(is_vis(vis, qv[0]));
        if add.contains(v) {
            let k = choose|k: int| 0 <= k < add.len() && add[k] == v;
            assert(!vis[add[k]]);
        }
        if 0 <= v < vis.len() { assert(vis2[v] == (vis[v] || add.contains(v))); }
    }
    assert forall|i: int, j: int| 0 <= i < j < qv2.len() implies qv2[i] != qv2[j] by {
        if j < n {
            assert(qv2[i] == qv[i + 1] && qv2[j] == qv[j + 1]);
        } else if i < n {
            assert(qv2[i] == qv[i + 1] && qv2[j] == add[j - n]);
            assert(is_vis(vis, qv[i + 1]));
            assert(!vis[add[j - n]]);
        } else {
            assert(qv2[i] == add[i - n] && qv2[j] == add[j - n]);
        }
    }
}

/// one step preserves the invariant (with the level function extended to the new vertices)
proof fn lemma_step(has: ArcRel, qv: Seq<int>, lv: Seq<int>, vis: Seq<bool>, qv2: Seq<int>, lv2: Seq<int>, vis2: Seq<bool>, add: Seq<int>, srcs: Set<int>, d: spec_fn(int) -> int)
    requires
        binv(has, qv, lv, vis, srcs, d),
        bstep(has, qv, lv, vis, qv2, lv2, vis2, add),
        forall|a: int, b: int| #[trigger] has(a, b) ==> 0 <= b < vis.len(),
    ensures
        binv(has, qv2, lv2, vis2, srcs, bstep_d(d, add, lv[0] + 1)),
        forall|i: int| 0 <= i < lv2.len() ==> lv[0] <= #[trigger] lv2[i],
{
    let l = lv[0];
    let u = qv[0];
    let n = qv.len() - 1;
    let d2 = bstep_d(d, add, l + 1);
    lemma_step_queue(has, qv, lv, vis, qv2, lv2, vis2, add);
    assert(is_vis(vis, qv[0]) && d(qv[0]) == lv[0]);
    // add is disjoint from the visited set, so d2 agrees with d on it
    assert forall|v: int| is_vis(vis, v) implies !add.contains(v) && #[trigger] d2(v) == d(v) && is_vis(vis2, v) by {
        if add.contains(v) {
            let k = choose|k: int| 0 <= k < add.len() && add[k] == v;
            assert(!vis[add[k]]);
        }
        assert(vis2[v] == (vis[v] || add.contains(v)));
    }
    assert forall|v: int| is_vis(vis2, v) && !is_vis(vis, v) implies add.contains(v) && #[trigger] d2(v) == l + 1 && has(u, v) by {
        assert(vis2[v] == (vis[v] || add.contains(v)));
        let k = choose|k: int| 0 <= k < add.len() && add[k] == v;
        assert(has(qv[0], add[k]));
    }
    assert forall|s: int| #[trigger] srcs.contains(s) implies is_vis(vis2, s) && d2(s) == 0 by {
        assert(is_vis(vis, s));
        assert(d2(s) == d(s));
    }
    assert forall|v: int| #[trigger] is_vis(vis2, v) implies has_witness(has, unit_w(), srcs, v, d2(v)) by {
        if is_vis(vis, v) {
            assert(d2(v) == d(v));
        } else {
            assert(d2(v) == l + 1);
            lemma_witness_extend(has, srcs, u, l, v);
        }
    }
    assert forall|i: int| 0 <= i < qv2.len() implies is_vis(vis2, #[trigger] qv2[i]) && d2(qv2[i]) == lv2[i] by {
        if i < n {
            assert(qv2[i] == qv[i + 1]);
            assert(is_vis(vis, qv[i + 1]));
            assert(d2(qv[i + 1]) == d(qv[i + 1]));
        } else {
            assert(qv2[i] == add[i - n]);
            assert(add.contains(add[i - n]));
            assert(vis2[add[i - n]] == (vis[add[i - n]] || add.contains(add[i - n])));
        }
    }
    assert forall|i: int| 0 <= i < lv2.len() implies l <= #[trigger] lv2[i] && lv2[i] <= l + 1 by {
        if i < n {
            assert(qv2[i] == qv[i + 1] && lv2[i] == lv[i + 1]);
            assert(lv[0] <= lv[i + 1]);
            assert(lv[i + 1] <= lv[0] + 1);
        } else {
            assert(qv2[i] == add[i - n] && lv2[i] == l + 1);
        }
    }
    assert forall|i: int, j: int| 0 <= i <= j < lv2.len() implies #[trigger] lv2[i] <= #[trigger] lv2[j] by {
        assert(l <= lv2[i] && lv2[i] <= l + 1);
        if j < n {
            assert(qv2[i] == qv[i + 1] && lv2[i] == lv[i + 1]);
            assert(qv2[j] == qv[j + 1] && lv2[j] == lv[j + 1]);
            assert(lv[i + 1] <= lv[j + 1]);
        } else {
            assert(qv2[j] == add[j - n] && lv2[j] == l + 1);
        }
    }
    assert forall|i: int| 0 <= i < lv2.len() implies #[trigger] lv2[i] <= lv2[0] + 1 by {
        assert(l <= lv2[0]);
        assert(l <= lv2[i] && lv2[i] <= l + 1);
    }
    assert forall|a: int, b: int| is_done(qv2, vis2, a) && #[trigger] has(a, b) implies is_vis(vis2, b) && d2(b) <= d2(a) + 1 by {
        assert(is_done(qv, vis, a) || a == u);
        assert(is_vis(vis, a));
        assert(d2(a) == d(a));
        if is_done(qv, vis, a) {
            assert(is_vis(vis, b));
            assert(d2(b) == d(b));
        } else {
            if is_vis(vis, b) {
                lemma_vis_bound(has, qv, lv, vis, srcs, d, b);
                assert(d2(b) == d(b));
            } else {
                assert(add.contains(b));
                assert(vis2[b] == (vis[b] || add.contains(b)));
            }
        }
    }
    assert forall|a: int| qv2.len() > 0 && #[trigger] is_done(qv2, vis2, a) implies d2(a) <= lv2[0] by {
        assert(is_done(qv, vis, a) || a == u);
        assert(is_vis(vis, a));
        assert(d2(a) == d(a));
        assert(l <= lv2[0]);
    }
}

/// fresh state (as built by `new` from distinct in-range sources): the invariant holds with srcs = queued vertices, d = 0
proof fn lemma_fresh(has: ArcRel, qv: Seq<int>, lv: Seq<int>, vis: Seq<bool>)
    requires
        lv.len() == qv.len(),
        forall|i: int| 0 <= i < lv.len() ==> #[trigger] lv[i] == 0,
        qv.no_duplicates(),
        forall|v: int| #[trigger] is_vis(vis, v) <==> qv.contains(v),
    ensures
        binv(has, qv, lv, vis, qv.to_set(), |v: int| 0int),
        forall|v: int| !is_done(qv, vis, v),
{
    let srcs = qv.to_set();
    let d = |v: int| 0int;
    assert forall|v: int| #[trigger] is_vis(vis, v) implies has_witness(has, unit_w(), srcs, v, d(v)) by {
        lemma_walk_single(has, unit_w(), v);
        assert(qv.contains(v));
        assert(walk_from_to(has, srcs, v, seq![v]));
    }
    assert forall|i: int| 0 <= i < qv.len() implies is_vis(vis, #[trigger] qv[i]) && d(qv[i]) == lv[i] by {
        assert(qv.contains(qv[i]));
    }
}

/// hop distance from the nearest source (meaningful for reachable vertices)
spec fn hop(has: ArcRel, srcs: Set<int>, v: int) -> int {
    choose|l: int| is_min_walk_weight(has, unit_w(), srcs, v, l)
}

proof fn lemma_hop(has: ArcRel, srcs: Set<int>, v: int, l: int)
    requires is_min_walk_weight(has, unit_w(), srcs, v, l),
    ensures hop(has, srcs, v) == l,
{
    lemma_min_unique(has, unit_w(), srcs, v, l, hop(has, srcs, v));
}

/// number of visited vertices
spec fn ct(vis: Seq<bool>) -> int
    decreases vis.len(),
{
    if vis.len() == 0 { 0 } else { ct(vis.drop_last()) + if vis.last() { 1int } else { 0int } }
}

proof fn lemma_ct_bounds(vis: Seq<bool>)
    ensures 0 <= ct(vis) <= vis.len(),
    decreases vis.len(),
{
    if vis.len() > 0 { lemma_ct_bounds(vis.drop_last()); }
}

proof fn lemma_ct_false(vis: Seq<bool>)
    requires forall|i: int| 0 <= i < vis.len() ==> !#[trigger] vis[i],
    ensures ct(vis) == 0,
    decreases vis.len(),
{
    if vis.len() > 0 { lemma_ct_false(vis.drop_last()); }
}

proof fn lemma_ct_set(vis: Seq<bool>, i: int)
    requires 0 <= i < vis.len(), !vis[i],
    ensures ct(vis.update(i, true)) == ct(vis) + 1,
    decreases vis.len(),
{
    let v2 = vis.update(i, true);
    if i == vis.len() - 1 {
        assert(v2.drop_last() =~= vis.drop_last());
    } else {
        lemma_ct_set(vis.drop_last(), i);
        assert(v2.drop_last() =~= vis.drop_last().update(i, true));
    }
}

/// consequences of one step for a state whose invariant holds for SOME level function
proof fn lemma_next_post(has: ArcRel, qv: Seq<int>, lv: Seq<int>, vis: Seq<bool>, qv2: Seq<int>, lv2: Seq<int>, vis2: Seq<bool>, add: Seq<int>, srcs: Set<int>)
    requires
        exists|d: spec_fn(int) -> int| binv(has, qv, lv, vis, srcs, d),
        bstep(has, qv, lv, vis, qv2, lv2, vis2, add),
        forall|a: int, b: int| #[trigger] has(a, b) ==> 0 <= b < vis.len(),
    ensures
        exists|d: spec_fn(int) -> int| binv(has, qv2, lv2, vis2, srcs, d),
        is_min_walk_weight(has, unit_w(), srcs, qv[0], lv[0]),
        forall|i: int| 0 <= i < lv2.len() ==> lv[0] <= #[trigger] lv2[i],
        forall|v: int| #[trigger] is_done(qv2, vis2, v) <==> is_done(qv, vis, v) || v == qv[0],
        !is_done(qv, vis, qv[0]),
{
    let d = choose|d: spec_fn(int) -> int| binv(has, qv, lv, vis, srcs, d);
    lemma_step(has, qv, lv, vis, qv2, lv2, vis2, add, srcs, d);
    lemma_front_exact(has, qv, lv, vis, srcs, d);
    lemma_step_queue(has, qv, lv, vis, qv2, lv2, vis2, add);
}

proof fn lemma_exhausted_ex(has: ArcRel, qv: Seq<int>, lv: Seq<int>, vis: Seq<bool>, srcs: Set<int>)
    requires
        exists|d: spec_fn(int) -> int| binv(has, qv, lv, vis, srcs, d),
        qv.len() == 0,
    ensures
        forall|v: int| #[trigger] is_done(qv, vis, v) <==> reachable(has, srcs, v),
{
    let d = choose|d: spec_fn(int) -> int| binv(has, qv, lv, vis, srcs, d);
    lemma_exhausted(has, qv, lv, vis, srcs, d);
    assert forall|v: int| #[trigger] is_done(qv, vis, v) <==> reachable(has, srcs, v) by {
        assert(is_vis(vis, v) <==> reachable(has, srcs, v));
    }
}
