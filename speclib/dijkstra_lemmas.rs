// ---- Dijkstra: label-correcting invariant over (dist, heap multiset), step relations, measure (all proved; no axioms) ----
// needs prelude/dgw_usize.rs, prelude/binary_heap.rs, speclib/graph.rs
type HItem = (Reverse<usize>, usize);

spec fn has_of(dg: &Dgw) -> ArcRel { |u: int, v: int| dg.has(u, v) }
spec fn wt_of(dg: &Dgw) -> ArcW { |u: int, v: int| dg.wt(u, v) }

/// the property's arithmetic side condition ("path sums fit in usize"): every duplicate-free path from a source,
/// extended by at most one further arc, weighs less than usize::MAX.  (usize::MAX itself is the "unreachable" marker,
/// so a distance equal to it would be ambiguous; the one further arc is what `w_prev + w` adds before comparing.)
spec fn paths_fit(dg: &Dgw, s: Set<int>) -> bool {
    forall|v: int, p: Seq<int>| #[trigger] walk_from_to(has_of(dg), s, v, p) && p.drop_last().no_duplicates()
        ==> walk_weight(wt_of(dg), p) < usize::MAX
}
/// p is a duplicate-free path from a source to v of weight k on which no vertex is labelled above its prefix weight
spec fn pwit(dg: &Dgw, dist: Seq<usize>, s: Set<int>, v: int, k: int, p: Seq<int>) -> bool {
    &&& walk_from_to(has_of(dg), s, v, p)
    &&& walk_weight(wt_of(dg), p) == k
    &&& p.no_duplicates()
    &&& forall|i: int| 0 <= i < p.len() ==> 0 <= #[trigger] p[i] < dist.len() && dist[p[i]] <= walk_weight(wt_of(dg), p.take(i + 1))
}
spec fn has_pwit(dg: &Dgw, dist: Seq<usize>, s: Set<int>, v: int, k: int) -> bool {
    exists|p: Seq<int>| pwit(dg, dist, s, v, k, p)
}

/// v's current label is waiting in the heap
spec fn pending(dist: Seq<usize>, h: Multiset<HItem>, v: int) -> bool {
    h.count((Reverse(dist[v]), v as usize)) > 0
}
/// v is labelled and its current label has been taken out of the heap
spec fn done(dist: Seq<usize>, h: Multiset<HItem>, v: int) -> bool {
    dist[v] < usize::MAX && !pending(dist, h, v)
}
spec fn relaxed(dg: &Dgw, dist: Seq<usize>, v: int, x: int) -> bool {
    dg.has(v, x) ==> dist[x] <= dist[v] + dg.wt(v, x)
}
spec fn item_ok(dg: &Dgw, dist: Seq<usize>, s: Set<int>, it: HItem) -> bool {
    &&& it.1 < dist.len()
    &&& dist[it.1 as int] <= it.0.0
    &&& has_pwit(dg, dist, s, it.1 as int, it.0.0 as int)
}
/// label-correcting clause for v; while the out-arcs of `um` are being relaxed only those to `seen` are promised
spec fn vert_ok(dg: &Dgw, dist: Seq<usize>, h: Multiset<HItem>, s: Set<int>, v: int, um: int, seen: Set<int>) -> bool {
    dist[v] < usize::MAX ==> {
        &&& has_pwit(dg, dist, s, v, dist[v] as int)
        &&& (pending(dist, h, v) || forall|x: int| (v == um ==> seen.contains(x)) ==> #[trigger] relaxed(dg, dist, v, x))
    }
}
spec fn dj_inv_x(dg: &Dgw, dist: Seq<usize>, h: Multiset<HItem>, s: Set<int>, um: int, seen: Set<int>) -> bool {
    &&& dg.wf()
    &&& dist.len() == dg.ord()
    &&& paths_fit(dg, s)
    &&& forall|v: int| #[trigger] s.contains(v) ==> 0 <= v < dist.len() && dist[v] == 0
    &&& forall|it: HItem| #[trigger] h.count(it) > 0 ==> item_ok(dg, dist, s, it)
    &&& forall|it: HItem| #[trigger] h.count(it) <= 1
    &&& forall|v: int| 0 <= v < dist.len() ==> #[trigger] vert_ok(dg, dist, h, s, v, um, seen)
}
/// the invariant of Dijkstra / DijkstraDist between calls, for source set s
spec fn dj_inv(dg: &Dgw, dist: Seq<usize>, h: Multiset<HItem>, s: Set<int>) -> bool {
    dj_inv_x(dg, dist, h, s, -1, Set::empty())
}

spec fn keys_ge(h: Multiset<HItem>, k: int) -> bool {
    forall|it: HItem| #[trigger] h.count(it) > 0 ==> it.0.0 >= k
}

// ---- termination measure: (sum of labels, heap size) lexicographic ----
spec fn dsum(s: Seq<usize>) -> int
    decreases s.len(),
{
    if s.len() == 0 { 0 } else { dsum(s.drop_last()) + s.last() as int }
}
proof fn lemma_dsum_nonneg(s: Seq<usize>)
    ensures dsum(s) >= 0,
    decreases s.len(),
{
    if s.len() > 0 { lemma_dsum_nonneg(s.drop_last()); }
}
proof fn lemma_dsum_update(s: Seq<usize>, i: int, x: usize)
    requires 0 <= i < s.len(),
    ensures dsum(s.update(i, x)) == dsum(s) - s[i] + x,
    decreases s.len(),
{
    if i == s.len() - 1 {
        assert(s.update(i, x).drop_last() =~= s.drop_last());
    } else {
        assert(s.update(i, x).drop_last() =~= s.drop_last().update(i, x));
        lemma_dsum_update(s.drop_last(), i, x);
    }
}
spec fn lex_le(d1: Seq<usize>, h1: Multiset<HItem>, d0: Seq<usize>, h0: Multiset<HItem>) -> bool {
    dsum(d1) < dsum(d0) || (dsum(d1) == dsum(d0) && h1.len() <= h0.len())
}
spec fn lex_lt(d1: Seq<usize>, h1: Multiset<HItem>, d0: Seq<usize>, h0: Multiset<HItem>) -> bool {
    dsum(d1) < dsum(d0) || (dsum(d1) == dsum(d0) && h1.len() < h0.len())
}

// ---- witnesses ----
proof fn lemma_pwit_witness(dg: &Dgw, dist: Seq<usize>, s: Set<int>, v: int, k: int)
    requires has_pwit(dg, dist, s, v, k),
    ensures has_witness(has_of(dg), wt_of(dg), s, v, k),
{
    let p = choose|p: Seq<int>| pwit(dg, dist, s, v, k, p);
    assert(walk_from_to(has_of(dg), s, v, p) && walk_weight(wt_of(dg), p) == k);
}
proof fn lemma_pwit_mono(dg: &Dgw, d1: Seq<usize>, d2: Seq<usize>, s: Set<int>, v: int, k: int)
    requires has_pwit(dg, d1, s, v, k), d2.len() == d1.len(), forall|i: int| 0 <= i < d1.len() ==> #[trigger] d2[i] <= d1[i],
    ensures has_pwit(dg, d2, s, v, k),
{
    let p = choose|p: Seq<int>| pwit(dg, d1, s, v, k, p);
    assert(pwit(dg, d2, s, v, k, p));
}
/// non-negative weights: a prefix of a walk weighs at most the whole walk
proof fn lemma_prefix_weight_le(dg: &Dgw, p: Seq<int>, i: int)
    requires dg.wf(), is_walk(has_of(dg), p), 0 <= i < p.len(),
    ensures walk_weight(wt_of(dg), p.take(i + 1)) <= walk_weight(wt_of(dg), p),
    decreases p.len(),
{
    if i == p.len() - 1 {
        assert(p.take(i + 1) =~= p);
    } else {
        lemma_walk_prefix(has_of(dg), p);
        let q = p.drop_last();
        lemma_prefix_weight_le(dg, q, i);
        assert(q.take(i + 1) =~= p.take(i + 1));
        assert(dg.has(p[p.len() - 2], p[p.len() - 1]));
    }
}
proof fn lemma_pwit_fits(dg: &Dgw, dist: Seq<usize>, s: Set<int>, u: int, k: int)
    requires paths_fit(dg, s), has_pwit(dg, dist, s, u, k),
    ensures k < usize::MAX,
{
    let p = choose|p: Seq<int>| pwit(dg, dist, s, u, k, p);
    assert(walk_from_to(has_of(dg), s, u, p));
    assert(p.drop_last().no_duplicates());
}
/// extending the path of a popped entry (k, u) by the arc (u, x): the sum fits; if it improves x's label the
/// extended path is again duplicate-free (a vertex on the path is never labelled above k)
proof fn lemma_extend_pwit(dg: &Dgw, dist: Seq<usize>, s: Set<int>, u: int, k: int, x: int)
    requires dg.wf(), dist.len() == dg.ord(), paths_fit(dg, s), has_pwit(dg, dist, s, u, k), dg.has(u, x),
    ensures
        0 <= k + dg.wt(u, x) < usize::MAX,
        k + dg.wt(u, x) < dist[x] ==> has_pwit(dg, dist.update(x, (k + dg.wt(u, x)) as usize), s, x, k + dg.wt(u, x)),
{
    let has = has_of(dg); let w = wt_of(dg);
    let p = choose|p: Seq<int>| pwit(dg, dist, s, u, k, p);
    lemma_walk_extend(has, w, p, x);
    let q = p.push(x);
    let nk = k + dg.wt(u, x);
    assert(q.drop_last() =~= p);
    assert(walk_from_to(has, s, x, q));
    assert(walk_weight(w, q) == nk);
    assert(k >= 0) by { assert(p[0] == p[0]); assert(dist[p[0]] <= walk_weight(w, p.take(1))); lemma_prefix_weight_le(dg, p, 0); }
    if nk < dist[x] {
        let d2 = dist.update(x, nk as usize);
        assert forall|i: int| 0 <= i < p.len() implies p[i] != x by {
            lemma_prefix_weight_le(dg, p, i);
            assert(dist[p[i]] <= walk_weight(w, p.take(i + 1)));
        }
        assert(q.no_duplicates());
        assert forall|i: int| 0 <= i < q.len() implies 0 <= #[trigger] q[i] < d2.len() && d2[q[i]] <= walk_weight(w, q.take(i + 1)) by {
            if i < p.len() {
                assert(q[i] == p[i]);
                assert(q.take(i + 1) =~= p.take(i + 1));
                assert(dist[p[i]] <= walk_weight(w, p.take(i + 1)));
            } else {
                assert(q.take(i + 1) =~= q);
            }
        }
        assert(pwit(dg, d2, s, x, nk, q));
    }
}

// ---- one pop ----
proof fn lemma_pop(dg: &Dgw, dist: Seq<usize>, h: Multiset<HItem>, s: Set<int>, it: HItem)
    requires dj_inv(dg, dist, h, s), h.count(it) > 0,
    ensures
        item_ok(dg, dist, s, it),
        dj_inv_x(dg, dist, h.remove(it), s, if dist[it.1 as int] == it.0.0 { it.1 as int } else { -1 }, Set::empty()),
{
    let h2 = h.remove(it);
    let um = if dist[it.1 as int] == it.0.0 { it.1 as int } else { -1 };
    let e = Set::<int>::empty();
    assert forall|j: HItem| #[trigger] h2.count(j) > 0 implies item_ok(dg, dist, s, j) by { assert(h.count(j) > 0); }
    assert forall|j: HItem| #[trigger] h2.count(j) <= 1 by { assert(h.count(j) <= 1); }
    assert forall|v: int| 0 <= v < dist.len() implies #[trigger] vert_ok(dg, dist, h2, s, v, um, e) by {
        assert(vert_ok(dg, dist, h, s, v, -1, e));
        if dist[v] < usize::MAX && v != um {
            let cur: HItem = (Reverse(dist[v]), v as usize);
            assert(cur != it);
            assert(h2.count(cur) == h.count(cur));
            if !pending(dist, h, v) {
                assert forall|x: int| (v == um ==> e.contains(x)) implies #[trigger] relaxed(dg, dist, v, x) by {}
            }
        }
    }
}

// ---- relaxing one arc (u, x) from a popped entry (k, u) ----
proof fn lemma_relax_update(dg: &Dgw, dist: Seq<usize>, h: Multiset<HItem>, s: Set<int>, um: int, seen: Set<int>, u: int, k: usize, x: int, nk: usize)
    requires
        dj_inv_x(dg, dist, h, s, um, seen),
        0 <= u < dist.len(), dist[u] <= k, um == -1 || (um == u && dist[u] == k),
        has_pwit(dg, dist, s, u, k as int),
        dg.has(u, x), nk == k + dg.wt(u, x), nk < dist[x],
    ensures
        dj_inv_x(dg, dist.update(x, nk), h.insert((Reverse(nk), x as usize)), s, um, seen.insert(x)),
        has_pwit(dg, dist.update(x, nk), s, u, k as int),
{
    let d2 = dist.update(x, nk);
    let ni: HItem = (Reverse(nk), x as usize);
    let h2 = h.insert(ni);
    let seen2 = seen.insert(x);
    lemma_extend_pwit(dg, dist, s, u, k as int, x);
    assert(x != u && 0 <= x < dist.len());
    assert(forall|i: int| 0 <= i < dist.len() ==> #[trigger] d2[i] <= dist[i]);
    lemma_pwit_mono(dg, dist, d2, s, u, k as int);
    assert forall|v: int| #[trigger] s.contains(v) implies 0 <= v < d2.len() && d2[v] == 0 by {}
    assert forall|j: HItem| #[trigger] h2.count(j) > 0 implies item_ok(dg, d2, s, j) by {
        if j != ni {
            assert(h.count(j) > 0); assert(item_ok(dg, dist, s, j));
            lemma_pwit_mono(dg, dist, d2, s, j.1 as int, j.0.0 as int);
        }
    }
    assert forall|j: HItem| #[trigger] h2.count(j) <= 1 by {
        assert(h.count(j) <= 1);
        if j == ni && h.count(j) > 0 { assert(item_ok(dg, dist, s, j)); }
    }
    assert forall|v: int| 0 <= v < d2.len() implies #[trigger] vert_ok(dg, d2, h2, s, v, um, seen2) by {
        assert(vert_ok(dg, dist, h, s, v, um, seen));
        if v == x {
            assert(h2.count(ni) > 0);
        } else if d2[v] < usize::MAX {
            lemma_pwit_mono(dg, dist, d2, s, v, dist[v] as int);
            let cur: HItem = (Reverse(dist[v]), v as usize);
            assert(h2.count(cur) >= h.count(cur));
            if !pending(dist, h, v) {
                assert forall|y: int| (v == um ==> seen2.contains(y)) implies #[trigger] relaxed(dg, d2, v, y) by {
                    if v == um && y == x {
                    } else {
                        assert(relaxed(dg, dist, v, y));
                    }
                }
            }
        }
    }
}

proof fn lemma_relax_skip(dg: &Dgw, dist: Seq<usize>, h: Multiset<HItem>, s: Set<int>, um: int, seen: Set<int>, u: int, k: usize, x: int)
    requires
        dj_inv_x(dg, dist, h, s, um, seen),
        0 <= u < dist.len(), um == -1 || (um == u && dist[u] == k),
        dg.has(u, x), dist[x] <= k + dg.wt(u, x),
    ensures
        dj_inv_x(dg, dist, h, s, um, seen.insert(x)),
{
    let seen2 = seen.insert(x);
    assert forall|v: int| 0 <= v < dist.len() implies #[trigger] vert_ok(dg, dist, h, s, v, um, seen2) by {
        assert(vert_ok(dg, dist, h, s, v, um, seen));
        if dist[v] < usize::MAX && !pending(dist, h, v) {
            assert forall|y: int| (v == um ==> seen2.contains(y)) implies #[trigger] relaxed(dg, dist, v, y) by {
                if v == um && y == x {
                } else {
                    assert(relaxed(dg, dist, v, y));
                }
            }
        }
    }
}

/// all out-arcs of um seen ==> the plain invariant is back
proof fn lemma_relax_done(dg: &Dgw, dist: Seq<usize>, h: Multiset<HItem>, s: Set<int>, um: int, seen: Set<int>)
    requires
        dj_inv_x(dg, dist, h, s, um, seen),
        forall|x: int| dg.has(um, x) ==> seen.contains(x),
    ensures
        dj_inv(dg, dist, h, s),
{
    let e = Set::<int>::empty();
    assert forall|v: int| 0 <= v < dist.len() implies #[trigger] vert_ok(dg, dist, h, s, v, -1, e) by {
        assert(vert_ok(dg, dist, h, s, v, um, seen));
        if dist[v] < usize::MAX && !pending(dist, h, v) {
            assert forall|y: int| (v == -1 ==> e.contains(y)) implies #[trigger] relaxed(dg, dist, v, y) by {
                if v == um && !seen.contains(y) {
                    assert(!dg.has(v, y));
                } else {
                    assert(relaxed(dg, dist, v, y));
                }
            }
        }
    }
}

// ---- what the labels mean ----
/// a popped current entry (k, u) whose key is a lower bound of all pending keys carries the exact distance of u
proof fn lemma_settled(dg: &Dgw, dist: Seq<usize>, h: Multiset<HItem>, s: Set<int>, u: int, k: int)
    requires dj_inv(dg, dist, h, s), keys_ge(h, k), 0 <= u < dist.len(), dist[u] == k, k < usize::MAX,
    ensures is_min_walk_weight(has_of(dg), wt_of(dg), s, u, k),
{
    let has = has_of(dg); let w = wt_of(dg);
    let r = vstd::set_lib::set_int_range(0, dist.len() as int);
    let d = |v: int| if dist[v] < k { dist[v] as int } else { k };
    assert forall|a: int, b: int| r.contains(a) && #[trigger] has(a, b) implies r.contains(b) && d(b) <= d(a) + w(a, b) by {
        assert(dg.has(a, b));
        if dist[a] < k {
            assert(vert_ok(dg, dist, h, s, a, -1, Set::empty()));
            let cur: HItem = (Reverse(dist[a]), a as usize);
            if h.count(cur) > 0 { assert(cur.0.0 >= k); }
            assert(relaxed(dg, dist, a, b));
        }
    }
    assert(feasible(has, w, s, r, d));
    lemma_lower_bound_at(has, w, s, r, d, u);
    assert(vert_ok(dg, dist, h, s, u, -1, Set::empty()));
    lemma_pwit_witness(dg, dist, s, u, k);
}

/// heap exhausted ==> labels are exactly the distances, MAX exactly on the unreachable vertices
proof fn lemma_exhausted(dg: &Dgw, dist: Seq<usize>, h: Multiset<HItem>, s: Set<int>)
    requires dj_inv(dg, dist, h, s), h.len() == 0,
    ensures
        forall|v: int| 0 <= v < dist.len() ==> (dist[v] == usize::MAX <==> !#[trigger] reachable(has_of(dg), s, v)),
        forall|v: int| 0 <= v < dist.len() && dist[v] < usize::MAX ==> #[trigger] is_min_walk_weight(has_of(dg), wt_of(dg), s, v, dist[v] as int),
{
    let has = has_of(dg); let w = wt_of(dg);
    let r = vstd::set_lib::set_int_range(0, dist.len() as int).filter(|v: int| dist[v] < usize::MAX);
    let d = |v: int| dist[v] as int;
    assert forall|a: int, b: int| r.contains(a) && #[trigger] has(a, b) implies r.contains(b) && d(b) <= d(a) + w(a, b) by {
        assert(dg.has(a, b));
        assert(vert_ok(dg, dist, h, s, a, -1, Set::empty()));
        let cur: HItem = (Reverse(dist[a]), a as usize);
        assert(h.count(cur) == 0);
        assert(relaxed(dg, dist, a, b));
        lemma_extend_pwit(dg, dist, s, a, dist[a] as int, b);
    }
    assert(feasible(has, w, s, r, d));
    assert forall|v: int| #[trigger] r.contains(v) implies has_witness(has, w, s, v, d(v)) by {
        assert(vert_ok(dg, dist, h, s, v, -1, Set::empty()));
        lemma_pwit_witness(dg, dist, s, v, dist[v] as int);
    }
    lemma_certificate(has, w, s, r, d);
    assert forall|v: int| 0 <= v < dist.len() implies (dist[v] == usize::MAX <==> !#[trigger] reachable(has, s, v)) by {
        assert(r.contains(v) <==> reachable(has, s, v));
    }
    assert forall|v: int| 0 <= v < dist.len() && dist[v] < usize::MAX implies #[trigger] is_min_walk_weight(has, w, s, v, dist[v] as int) by {
        assert(r.contains(v));
    }
}

// ---- relations between states (what one call of `next` may change) ----
/// inner loop: from labels dm / heap ha (just after the pop of key k) to labels dc / heap hc
spec fn rr_vert(dm: Seq<usize>, dc: Seq<usize>, hc: Multiset<HItem>, v: int) -> bool {
    dc[v] <= dm[v] && (dc[v] < dm[v] ==> pending(dc, hc, v))
}
spec fn rr_item(dm: Seq<usize>, ha: Multiset<HItem>, hc: Multiset<HItem>, k: int, it: HItem) -> bool {
    hc.count(it) >= ha.count(it) && (hc.count(it) > ha.count(it) ==> it.1 < dm.len() && it.0.0 < dm[it.1 as int] && it.0.0 >= k)
}
spec fn relax_rel(dm: Seq<usize>, ha: Multiset<HItem>, dc: Seq<usize>, hc: Multiset<HItem>, k: int) -> bool {
    &&& dc.len() == dm.len()
    &&& forall|v: int| 0 <= v < dm.len() ==> #[trigger] rr_vert(dm, dc, hc, v)
    &&& forall|it: HItem| #[trigger] rr_item(dm, ha, hc, k, it)
    &&& (dsum(dc) < dsum(dm) || (dc == dm && hc == ha))
}
proof fn lemma_relax_rel_refl(dm: Seq<usize>, ha: Multiset<HItem>, k: int)
    ensures relax_rel(dm, ha, dm, ha, k),
{
    assert forall|v: int| 0 <= v < dm.len() implies #[trigger] rr_vert(dm, dm, ha, v) by {}
    assert forall|it: HItem| #[trigger] rr_item(dm, ha, ha, k, it) by {}
}
proof fn lemma_relax_rel_step(dm: Seq<usize>, ha: Multiset<HItem>, dc: Seq<usize>, hc: Multiset<HItem>, k: int, x: int, nk: usize)
    requires relax_rel(dm, ha, dc, hc, k), 0 <= x < dc.len(), nk < dc[x], nk >= k, dm.len() <= usize::MAX,
    ensures relax_rel(dm, ha, dc.update(x, nk), hc.insert((Reverse(nk), x as usize)), k),
{
    let d2 = dc.update(x, nk);
    let ni: HItem = (Reverse(nk), x as usize);
    let h2 = hc.insert(ni);
    assert forall|v: int| 0 <= v < dm.len() implies #[trigger] rr_vert(dm, d2, h2, v) by {
        assert(rr_vert(dm, dc, hc, v));
        if v == x {
            assert(h2.count(ni) > 0);
        } else {
            let cur: HItem = (Reverse(dc[v]), v as usize);
            assert(h2.count(cur) >= hc.count(cur));
        }
    }
    assert forall|it: HItem| #[trigger] rr_item(dm, ha, h2, k, it) by {
        assert(rr_item(dm, ha, hc, k, it));
        assert(rr_vert(dm, dc, hc, x));
        assert(h2.count(it) >= hc.count(it));
        if it != ni { assert(h2.count(it) == hc.count(it)); }
    }
    lemma_dsum_update(dc, x, nk);
}

/// outer relation, per vertex: labels only go down; a vertex that is done was done before with the same label;
/// a label can only be (re-)pending if it was pending or the label went down
spec fn tr_vert(d0: Seq<usize>, h0: Multiset<HItem>, d1: Seq<usize>, h1: Multiset<HItem>, v: int, except: int) -> bool {
    &&& d1[v] <= d0[v]
    &&& (v != except && done(d1, h1, v) ==> done(d0, h0, v) && d1[v] == d0[v])
    &&& (pending(d1, h1, v) ==> pending(d0, h0, v) || d1[v] < d0[v])
}
spec fn keys_mono(h0: Multiset<HItem>, h1: Multiset<HItem>) -> bool {
    forall|k0: int| #[trigger] keys_ge(h0, k0) ==> keys_ge(h1, k0)
}
/// relation between the state before `next` and a state in which `next` has skipped only superseded entries
spec fn trans(d0: Seq<usize>, h0: Multiset<HItem>, d1: Seq<usize>, h1: Multiset<HItem>) -> bool {
    &&& d1.len() == d0.len()
    &&& forall|v: int| 0 <= v < d0.len() ==> #[trigger] tr_vert(d0, h0, d1, h1, v, -1)
    &&& keys_mono(h0, h1)
    &&& lex_le(d1, h1, d0, h0)
}
/// relation between the state before `next` and the state in which it returns vertex u with key k
spec fn ret_rel(d0: Seq<usize>, h0: Multiset<HItem>, d1: Seq<usize>, h1: Multiset<HItem>, u: int, k: int) -> bool {
    &&& d1.len() == d0.len()
    &&& 0 <= u < d1.len() && d1[u] == k
    &&& forall|v: int| 0 <= v < d0.len() ==> #[trigger] tr_vert(d0, h0, d1, h1, v, u)
    &&& !pending(d1, h1, u)
    &&& (pending(d0, h0, u) || d1[u] < d0[u])
    &&& keys_mono(h0, h1)
    &&& forall|k0: int| #[trigger] keys_ge(h0, k0) ==> k >= k0
    &&& keys_ge(h1, k)
    &&& lex_lt(d1, h1, d0, h0)
}
proof fn lemma_trans_refl(d0: Seq<usize>, h0: Multiset<HItem>)
    ensures trans(d0, h0, d0, h0),
{
    assert forall|v: int| 0 <= v < d0.len() implies #[trigger] tr_vert(d0, h0, d0, h0, v, -1) by {}
}

/// one iteration of next's outer loop: pop `it` from (dm, hm), relax to (dc, hc)
proof fn lemma_compose(d0: Seq<usize>, h0: Multiset<HItem>, dm: Seq<usize>, hm: Multiset<HItem>, it: HItem, dc: Seq<usize>, hc: Multiset<HItem>)
    requires
        trans(d0, h0, dm, hm), dm.len() <= usize::MAX,
        hm.count(it) > 0,
        forall|j: HItem| #[trigger] hm.count(j) <= 1,
        it.1 < dm.len(), dm[it.1 as int] <= it.0.0,
        keys_ge(hm, it.0.0 as int),
        relax_rel(dm, hm.remove(it), dc, hc, it.0.0 as int),
    ensures
        dc[it.1 as int] != it.0.0 ==> trans(d0, h0, dc, hc),
        dc[it.1 as int] == it.0.0 ==> ret_rel(d0, h0, dc, hc, it.1 as int, it.0.0 as int),
        lex_lt(dc, hc, dm, hm),
{
    let ha = hm.remove(it);
    let u = it.1 as int;
    let k = it.0.0 as int;
    let ex = if dc[u] == k { u } else { -1 };
    assert(rr_vert(dm, dc, hc, u));
    assert(tr_vert(d0, h0, dm, hm, u, -1));
    assert forall|v: int| 0 <= v < d0.len() implies #[trigger] tr_vert(d0, h0, dc, hc, v, ex) by {
        assert(tr_vert(d0, h0, dm, hm, v, -1));
        assert(rr_vert(dm, dc, hc, v));
        let cur: HItem = (Reverse(dc[v]), v as usize);
        assert(rr_item(dm, ha, hc, k, cur));
        if dc[v] == dm[v] {
            if v != ex { assert(cur != it); assert(ha.count(cur) == hm.count(cur)); }
            assert(ha.count(cur) <= hm.count(cur));
        }
    }
    // keys
    assert(keys_ge(hc, k)) by {
        assert forall|j: HItem| #[trigger] hc.count(j) > 0 implies j.0.0 >= k by {
            assert(rr_item(dm, ha, hc, k, j));
            if ha.count(j) > 0 { assert(hm.count(j) > 0); }
        }
    }
    assert forall|k0: int| #[trigger] keys_ge(h0, k0) implies keys_ge(hc, k0) && k >= k0 by {
        assert(keys_ge(hm, k0));
        assert(k >= k0);
    }
    // measure
    assert(ha.len() == hm.len() - 1);
    if dc[u] == k {
        let cur: HItem = (Reverse(dc[u]), u as usize);
        assert(cur == it);
        assert(rr_item(dm, ha, hc, k, cur));
        assert(ha.count(cur) == 0);
        assert(!pending(dc, hc, u));
        assert(pending(dm, hm, u));
    }
}

// ---- fresh states (as built by `new`) ----
spec fn srcs_of(dist: Seq<usize>) -> Set<int> {
    vstd::set_lib::set_int_range(0, dist.len() as int).filter(|v: int| dist[v] == 0)
}
spec fn fresh(dg: &Dgw, dist: Seq<usize>, h: Multiset<HItem>) -> bool {
    &&& dg.wf()
    &&& dist.len() == dg.ord()
    &&& forall|v: int| 0 <= v < dist.len() ==> #[trigger] dist[v] == 0 || dist[v] == usize::MAX
    &&& forall|it: HItem| #[trigger] h.count(it) == (if it.0.0 == 0 && it.1 < dist.len() && dist[it.1 as int] == 0 { 1nat } else { 0nat })
}
proof fn lemma_pwit_single(dg: &Dgw, dist: Seq<usize>, s: Set<int>, v: int)
    requires s.contains(v), 0 <= v < dist.len(), dist[v] == 0,
    ensures has_pwit(dg, dist, s, v, 0),
{
    let has = has_of(dg); let w = wt_of(dg);
    lemma_walk_single(has, w, v);
    let p = seq![v];
    assert(walk_from_to(has, s, v, p));
    assert forall|i: int| 0 <= i < p.len() implies 0 <= #[trigger] p[i] < dist.len() && dist[p[i]] <= walk_weight(w, p.take(i + 1)) by {
        assert(p.take(i + 1) =~= p);
    }
    assert(pwit(dg, dist, s, v, 0, p));
}
proof fn lemma_fresh_inv(dg: &Dgw, dist: Seq<usize>, h: Multiset<HItem>)
    requires fresh(dg, dist, h), paths_fit(dg, srcs_of(dist)),
    ensures
        dj_inv(dg, dist, h, srcs_of(dist)),
        forall|v: int| 0 <= v < dist.len() ==> !#[trigger] done(dist, h, v),
{
    let s = srcs_of(dist);
    assert forall|it: HItem| #[trigger] h.count(it) > 0 implies item_ok(dg, dist, s, it) by {
        assert(s.contains(it.1 as int));
        lemma_pwit_single(dg, dist, s, it.1 as int);
    }
    assert forall|v: int| 0 <= v < dist.len() implies #[trigger] vert_ok(dg, dist, h, s, v, -1, Set::empty()) && !done(dist, h, v) by {
        let cur: HItem = (Reverse(dist[v]), v as usize);
        if dist[v] < usize::MAX {
            assert(h.count(cur) == 1);
            assert(s.contains(v));
            lemma_pwit_single(dg, dist, s, v);
        }
    }
}
spec fn fresh_from(dist: Seq<usize>, h: Multiset<HItem>, src: Seq<usize>) -> bool {
    &&& forall|v: int| 0 <= v < dist.len() ==> #[trigger] dist[v] == (if src.contains(v as usize) { 0usize } else { usize::MAX })
    &&& forall|it: HItem| #[trigger] h.count(it) == (if it.0.0 == 0 && src.contains(it.1) { 1nat } else { 0nat })
    &&& forall|i: int| 0 <= i < src.len() ==> #[trigger] src[i] < dist.len()
}
proof fn lemma_fresh_step(dist: Seq<usize>, h: Multiset<HItem>, src: Seq<usize>, u: usize)
    requires fresh_from(dist, h, src), u < dist.len(), !src.contains(u), dist.len() <= usize::MAX,
    ensures fresh_from(dist.update(u as int, 0), h.insert((Reverse(0usize), u)), src.push(u)),
{
    let d2 = dist.update(u as int, 0);
    let ni: HItem = (Reverse(0usize), u);
    let h2 = h.insert(ni);
    let s2 = src.push(u);
    assert(forall|x: usize| s2.contains(x) <==> (src.contains(x) || x == u)) by {
        assert forall|x: usize| s2.contains(x) <==> (src.contains(x) || x == u) by {
            if src.contains(x) { let i = choose|i: int| 0 <= i < src.len() && src[i] == x; assert(s2[i] == x); }
            if x == u { assert(s2[src.len() as int] == u); }
            if s2.contains(x) { let i = choose|i: int| 0 <= i < s2.len() && s2[i] == x; if i < src.len() { assert(src[i] == x); } }
        }
    }
    assert forall|it: HItem| #[trigger] h2.count(it) == (if it.0.0 == 0 && s2.contains(it.1) { 1nat } else { 0nat }) by {
        if it != ni { assert(h2.count(it) == h.count(it)); }
    }
    assert forall|i: int| 0 <= i < s2.len() implies #[trigger] s2[i] < d2.len() by {
        if i < src.len() { assert(s2[i] == src[i]); }
    }
}
proof fn lemma_fresh_from_fresh(dg: &Dgw, dist: Seq<usize>, h: Multiset<HItem>, src: Seq<usize>)
    requires dg.wf(), dist.len() == dg.ord(), fresh_from(dist, h, src),
    ensures
        fresh(dg, dist, h),
        forall|v: int| #[trigger] srcs_of(dist).contains(v) <==> 0 <= v <= usize::MAX && src.contains(v as usize),
{
    assert forall|v: int| #[trigger] srcs_of(dist).contains(v) <==> 0 <= v <= usize::MAX && src.contains(v as usize) by {
        if 0 <= v <= usize::MAX && src.contains(v as usize) {
            let i = choose|i: int| 0 <= i < src.len() && src[i] == v as usize;
            assert(src[i] < dist.len());
        }
    }
}

// ---- a table filled from the yielded items (what `distances` builds) ----
spec fn res_ok(d: Seq<usize>, h: Multiset<HItem>, res: Seq<usize>, v: int) -> bool {
    (done(d, h, v) ==> res[v] == d[v]) && (d[v] == usize::MAX ==> res[v] == usize::MAX)
}
/// res agrees with the labels on every done vertex and is MAX on every unlabelled vertex
spec fn res_inv(d: Seq<usize>, h: Multiset<HItem>, res: Seq<usize>) -> bool {
    res.len() == d.len() && forall|v: int| 0 <= v < d.len() ==> #[trigger] res_ok(d, h, res, v)
}
proof fn lemma_res_none(d0: Seq<usize>, h0: Multiset<HItem>, d1: Seq<usize>, h1: Multiset<HItem>)
    requires trans(d0, h0, d1, h1),
    ensures forall|res: Seq<usize>| #[trigger] res_inv(d0, h0, res) ==> res_inv(d1, h1, res),
{
    assert forall|res: Seq<usize>| #[trigger] res_inv(d0, h0, res) implies res_inv(d1, h1, res) by {
        assert forall|v: int| 0 <= v < d1.len() implies #[trigger] res_ok(d1, h1, res, v) by {
            assert(tr_vert(d0, h0, d1, h1, v, -1));
            assert(res_ok(d0, h0, res, v));
        }
    }
}
proof fn lemma_res_ret(d0: Seq<usize>, h0: Multiset<HItem>, d1: Seq<usize>, h1: Multiset<HItem>, u: int, k: usize)
    requires ret_rel(d0, h0, d1, h1, u, k as int), k < usize::MAX,
    ensures forall|res: Seq<usize>| #[trigger] res_inv(d0, h0, res) ==> res_inv(d1, h1, res.update(u, k)),
{
    assert forall|res: Seq<usize>| #[trigger] res_inv(d0, h0, res) implies res_inv(d1, h1, res.update(u, k)) by {
        let r2 = res.update(u, k);
        assert forall|v: int| 0 <= v < d1.len() implies #[trigger] res_ok(d1, h1, r2, v) by {
            assert(tr_vert(d0, h0, d1, h1, v, u));
            assert(res_ok(d0, h0, res, v));
        }
    }
}
proof fn lemma_res_fresh(d: Seq<usize>, h: Multiset<HItem>, res: Seq<usize>)
    requires res.len() == d.len(), forall|v: int| 0 <= v < d.len() ==> !#[trigger] done(d, h, v), forall|v: int| 0 <= v < res.len() ==> #[trigger] res[v] == usize::MAX,
    ensures res_inv(d, h, res),
{
    assert forall|v: int| 0 <= v < d.len() implies #[trigger] res_ok(d, h, res, v) by { assert(!done(d, h, v)); }
}
/// heap exhausted: the table holds the exact distances (the property's statement about `distances()`)
proof fn lemma_distances_final(dg: &Dgw, d: Seq<usize>, h: Multiset<HItem>, s: Set<int>, res: Seq<usize>)
    requires dj_inv(dg, d, h, s), h.len() == 0, res_inv(d, h, res),
    ensures
        res.len() == dg.ord(),
        forall|v: int| 0 <= v < res.len() ==> (res[v] == usize::MAX <==> !#[trigger] reachable(has_of(dg), s, v)),
        forall|v: int| 0 <= v < res.len() && res[v] != usize::MAX ==> #[trigger] is_min_walk_weight(has_of(dg), wt_of(dg), s, v, res[v] as int),
{
    lemma_exhausted(dg, d, h, s);
    assert forall|v: int| 0 <= v < res.len() implies res[v] == d[v] by {
        assert(res_ok(d, h, res, v));
        let cur: HItem = (Reverse(d[v]), v as usize);
        assert(h.count(cur) == 0);
    }
}

// ---- the sequence of yielded items (vertex, key) ----
spec fn em_ok(dg: &Dgw, d: Seq<usize>, h: Multiset<HItem>, s: Set<int>, e: (usize, usize)) -> bool {
    &&& e.0 < d.len()
    &&& e.1 == d[e.0 as int] && e.1 < usize::MAX
    &&& !pending(d, h, e.0 as int)
    &&& is_min_walk_weight(has_of(dg), wt_of(dg), s, e.0 as int, e.1 as int)
}
spec fn emitted(em: Seq<(usize, usize)>, v: int) -> bool {
    exists|i: int| 0 <= i < em.len() && (#[trigger] em[i]).0 == v
}
/// em lists distinct vertices with their exact distances in non-decreasing order, no pending key is below the last
/// one, and every done vertex is listed
spec fn trace_inv(dg: &Dgw, d: Seq<usize>, h: Multiset<HItem>, s: Set<int>, em: Seq<(usize, usize)>) -> bool {
    &&& forall|i: int| 0 <= i < em.len() ==> em_ok(dg, d, h, s, #[trigger] em[i])
    &&& forall|i: int, j: int| 0 <= i < j < em.len() ==> (#[trigger] em[i]).0 != (#[trigger] em[j]).0 && em[i].1 <= em[j].1
    &&& (em.len() > 0 ==> keys_ge(h, em.last().1 as int))
    &&& forall|v: int| 0 <= v < d.len() && #[trigger] done(d, h, v) ==> emitted(em, v)
}
proof fn lemma_trace_none(dg: &Dgw, d0: Seq<usize>, h0: Multiset<HItem>, d1: Seq<usize>, h1: Multiset<HItem>, s: Set<int>, em: Seq<(usize, usize)>)
    requires trans(d0, h0, d1, h1), dj_inv(dg, d1, h1, s), trace_inv(dg, d0, h0, s, em),
    ensures trace_inv(dg, d1, h1, s, em),
{
    assert forall|i: int| 0 <= i < em.len() implies em_ok(dg, d1, h1, s, #[trigger] em[i]) by {
        let e = em[i]; let v = e.0 as int;
        assert(em_ok(dg, d0, h0, s, e));
        assert(tr_vert(d0, h0, d1, h1, v, -1));
        assert(vert_ok(dg, d1, h1, s, v, -1, Set::empty()));
        lemma_pwit_witness(dg, d1, s, v, d1[v] as int);
        lemma_lower_bound_use(dg, s, v, e.1 as int, d1[v] as int);
    }
    if em.len() > 0 { assert(keys_ge(h0, em.last().1 as int)); }
    assert forall|v: int| 0 <= v < d1.len() && #[trigger] done(d1, h1, v) implies emitted(em, v) by {
        assert(tr_vert(d0, h0, d1, h1, v, -1));
        assert(done(d0, h0, v));
    }
}
/// a witness cannot weigh less than the minimum
proof fn lemma_lower_bound_use(dg: &Dgw, s: Set<int>, v: int, m: int, k: int)
    requires is_min_walk_weight(has_of(dg), wt_of(dg), s, v, m), has_witness(has_of(dg), wt_of(dg), s, v, k),
    ensures m <= k,
{
    let p = choose|p: Seq<int>| walk_from_to(has_of(dg), s, v, p) && walk_weight(wt_of(dg), p) == k;
    assert(walk_from_to(has_of(dg), s, v, p));
}
proof fn lemma_trace_ret(dg: &Dgw, d0: Seq<usize>, h0: Multiset<HItem>, d1: Seq<usize>, h1: Multiset<HItem>, s: Set<int>, em: Seq<(usize, usize)>, u: usize, k: usize)
    requires
        ret_rel(d0, h0, d1, h1, u as int, k as int), dj_inv(dg, d1, h1, s), trace_inv(dg, d0, h0, s, em),
        is_min_walk_weight(has_of(dg), wt_of(dg), s, u as int, k as int), k < usize::MAX,
    ensures trace_inv(dg, d1, h1, s, em.push((u, k))),
{
    let em2 = em.push((u, k));
    assert(vert_ok(dg, d1, h1, s, u as int, -1, Set::empty()));
    lemma_pwit_witness(dg, d1, s, u as int, d1[u as int] as int);
    // the returned vertex was not yielded before
    assert forall|i: int| 0 <= i < em.len() implies (#[trigger] em[i]).0 != u && em[i].1 <= k by {
        let e = em[i];
        assert(em_ok(dg, d0, h0, s, e));
        if e.0 == u {
            lemma_lower_bound_use(dg, s, u as int, e.1 as int, d1[u as int] as int);
        }
        assert(keys_ge(h0, em.last().1 as int));
        if i < em.len() - 1 { assert(em[i].1 <= em[em.len() - 1].1); }
    }
    assert forall|i: int| 0 <= i < em2.len() implies em_ok(dg, d1, h1, s, #[trigger] em2[i]) by {
        if i < em.len() {
            let e = em[i]; let v = e.0 as int;
            assert(em2[i] == e);
            assert(em_ok(dg, d0, h0, s, e));
            assert(tr_vert(d0, h0, d1, h1, v, u as int));
            assert(vert_ok(dg, d1, h1, s, v, -1, Set::empty()));
            lemma_pwit_witness(dg, d1, s, v, d1[v] as int);
            lemma_lower_bound_use(dg, s, v, e.1 as int, d1[v] as int);
        }
    }
    assert forall|i: int, j: int| 0 <= i < j < em2.len() implies (#[trigger] em2[i]).0 != (#[trigger] em2[j]).0 && em2[i].1 <= em2[j].1 by {
        assert(em2[i] == em[i]);
        if j < em.len() { assert(em2[j] == em[j]); }
    }
    assert forall|v: int| 0 <= v < d1.len() && #[trigger] done(d1, h1, v) implies emitted(em2, v) by {
        if v == u {
            assert(em2[em.len() as int].0 == v);
        } else {
            assert(tr_vert(d0, h0, d1, h1, v, u as int));
            assert(done(d0, h0, v));
            let i = choose|i: int| 0 <= i < em.len() && (#[trigger] em[i]).0 == v;
            assert(em2[i].0 == v);
        }
    }
}
/// the property's statement about iteration, over the complete sequence of yielded items
spec fn yields_ok(dg: &Dgw, s: Set<int>, em: Seq<(usize, usize)>) -> bool {
    // each item is a reachable vertex with its exact distance
    &&& forall|i: int| 0 <= i < em.len() ==> (#[trigger] em[i]).0 < dg.ord() && reachable(has_of(dg), s, em[i].0 as int)
            && is_min_walk_weight(has_of(dg), wt_of(dg), s, em[i].0 as int, em[i].1 as int)
    // exactly once, in non-decreasing distance order
    &&& forall|i: int, j: int| 0 <= i < j < em.len() ==> (#[trigger] em[i]).0 != (#[trigger] em[j]).0 && em[i].1 <= em[j].1
    // every reachable vertex
    &&& forall|v: int| 0 <= v < dg.ord() && #[trigger] reachable(has_of(dg), s, v) ==> emitted(em, v)
}
proof fn lemma_trace_final(dg: &Dgw, d: Seq<usize>, h: Multiset<HItem>, s: Set<int>, em: Seq<(usize, usize)>)
    requires dj_inv(dg, d, h, s), h.len() == 0, trace_inv(dg, d, h, s, em),
    ensures yields_ok(dg, s, em),
{
    lemma_exhausted(dg, d, h, s);
    assert forall|i: int| 0 <= i < em.len() implies (#[trigger] em[i]).0 < dg.ord() && reachable(has_of(dg), s, em[i].0 as int)
            && is_min_walk_weight(has_of(dg), wt_of(dg), s, em[i].0 as int, em[i].1 as int) by {
        assert(em_ok(dg, d, h, s, em[i]));
        lemma_witness_reachable(has_of(dg), wt_of(dg), s, em[i].0 as int, em[i].1 as int);
    }
    assert forall|v: int| 0 <= v < dg.ord() && #[trigger] reachable(has_of(dg), s, v) implies emitted(em, v) by {
        let cur: HItem = (Reverse(d[v]), v as usize);
        assert(h.count(cur) == 0);
        assert(done(d, h, v));
    }
}
