// ---- Johnson circuit-finding spec library (all proved; no axioms) ----
// Abstract state of src/algo/johnson_75.rs inside ONE call `circuit(start, start, &component, ..)`:
//   has / ink : arc relation / vertex predicate of the component (the digraph `scc` of `circuit`), n = self.b.len()
//   JS        : blocked set, the B-lists, the stack
// `jinv` is the invariant at every call boundary of `circuit`; the three transitions are
//   push (lemma_push), pop after failure with the B-list insertions (lemma_fail), pop after `unblock` (lemma_succ);
// `ub_rel` is the contract of `unblock` (lemma_ub_*: its loop).
type JArc = spec_fn(usize, usize) -> bool;
type JIn = spec_fn(usize) -> bool;
type JLab = spec_fn(usize) -> int;
type JSet = spec_fn(usize) -> bool;

ghost struct JS {
    blk: Set<usize>,
    b: Seq<Set<usize>>,
    stk: Seq<usize>,
}

/// the component: arcs join distinct vertices of the component, vertex ids index the B-lists
spec fn jg(has: JArc, ink: JIn, n: int) -> bool {
    &&& forall|u: usize, v: usize| #[trigger] has(u, v) ==> ink(u) && ink(v) && u != v
    &&& forall|x: usize| #[trigger] ink(x) ==> x < n
}

/// x is the stack entry at position p
spec fn at(stk: Seq<usize>, p: int, x: usize) -> bool { 0 <= p < stk.len() && stk[p] == x }
spec fn onstk(stk: Seq<usize>, x: usize) -> bool { exists|p: int| at(stk, p, x) }
/// x is a blocked vertex of the component that is not on the stack
spec fn bns(ink: JIn, st: JS, x: usize) -> bool { ink(x) && st.blk.contains(x) && !onstk(st.stk, x) }
/// y is on the B-list of x
spec fn inb(st: JS, x: usize, y: usize) -> bool { x < st.b.len() && st.b[x as int].contains(y) }
spec fn stk_arc(has: JArc, stk: Seq<usize>, p: int) -> bool { has(stk[p], stk[p + 1]) }

/// the stack is a simple path of blocked component vertices starting at s
spec fn inv_stack(has: JArc, ink: JIn, n: int, s: usize, st: JS) -> bool {
    &&& st.b.len() == n
    &&& st.stk.no_duplicates()
    &&& forall|p: int| 0 <= p < st.stk.len() ==> ink(#[trigger] st.stk[p]) && st.blk.contains(st.stk[p])
    &&& forall|p: int| 0 <= p < st.stk.len() - 1 ==> #[trigger] stk_arc(has, st.stk, p)
    &&& ink(s)
    &&& st.stk.len() > 0 ==> st.stk[0] == s
}

/// B-lists: empty for unblocked vertices; entries are predecessors; a blocked vertex that is not on the stack has only
/// blocked successors and is on the B-list of each of them
spec fn inv_b(has: JArc, ink: JIn, st: JS) -> bool {
    &&& forall|x: usize, y: usize| ink(x) && !st.blk.contains(x) ==> !#[trigger] inb(st, x, y)
    &&& forall|x: usize, y: usize| ink(x) && #[trigger] inb(st, x, y) ==> has(y, x)
    &&& forall|u: usize, w: usize| #![trigger bns(ink, st, u), has(u, w)] bns(ink, st, u) && has(u, w) ==> st.blk.contains(w) && inb(st, w, u)
}

/// the labelling d: for a blocked vertex u off the stack, d(u) bounds (strictly, from above) the stack positions that u
/// reaches through blocked vertices off the stack.  A stale B-list entry that is on the stack lies at or above d.
spec fn inv_d(has: JArc, ink: JIn, st: JS, d: JLab) -> bool {
    &&& forall|u: usize, w: usize, p: int| #![trigger has(u, w), at(st.stk, p, w)] bns(ink, st, u) && has(u, w) && at(st.stk, p, w) ==> p < d(u)
    &&& forall|u: usize, w: usize| #![trigger bns(ink, st, u), has(u, w)] bns(ink, st, u) && has(u, w) && !onstk(st.stk, w) ==> d(w) <= d(u)
    &&& forall|u: usize| #[trigger] bns(ink, st, u) ==> d(u) <= st.stk.len()
    &&& forall|p: int, q: int| 0 <= p < st.stk.len() && 0 <= q < st.stk.len() && #[trigger] inb(st, st.stk[p], st.stk[q]) ==> q > p
    &&& forall|u: usize, q: int| 0 <= q < st.stk.len() && bns(ink, st, u) && #[trigger] inb(st, u, st.stk[q]) ==> d(u) <= q
}

spec fn jinv_d(has: JArc, ink: JIn, n: int, s: usize, st: JS, d: JLab) -> bool {
    inv_stack(has, ink, n, s, st) && inv_b(has, ink, st) && inv_d(has, ink, st, d)
}

#[verifier::opaque]
spec fn jinv(has: JArc, ink: JIn, n: int, s: usize, st: JS) -> bool {
    exists|d: JLab| jinv_d(has, ink, n, s, st, d)
}

// ---------------------------------------------------------------------------------------------
// stack helpers
// ---------------------------------------------------------------------------------------------
proof fn lemma_at_push(stk: Seq<usize>, v: usize)
    ensures
        forall|p: int, x: usize| #[trigger] at(stk.push(v), p, x) <==> at(stk, p, x) || (p == stk.len() && x == v),
        forall|x: usize| #[trigger] onstk(stk.push(v), x) <==> onstk(stk, x) || x == v,
{
    let s2 = stk.push(v);
    assert forall|x: usize| #[trigger] onstk(s2, x) <==> onstk(stk, x) || x == v by {
        if onstk(stk, x) { let p = choose|p: int| at(stk, p, x); assert(at(s2, p, x)); }
        if x == v { assert(at(s2, stk.len() as int, x)); }
        if onstk(s2, x) { let p = choose|p: int| at(s2, p, x); if p < stk.len() { assert(at(stk, p, x)); } }
    }
}

proof fn lemma_at_pop(stk: Seq<usize>)
    requires stk.len() > 0, stk.no_duplicates(),
    ensures
        forall|p: int, x: usize| #[trigger] at(stk.drop_last(), p, x) <==> at(stk, p, x) && p < stk.len() - 1,
        forall|x: usize| #[trigger] onstk(stk.drop_last(), x) <==> onstk(stk, x) && x != stk.last(),
        stk.drop_last().no_duplicates(),
{
    let s2 = stk.drop_last();
    let k = stk.len() - 1;
    assert forall|x: usize| #[trigger] onstk(s2, x) <==> onstk(stk, x) && x != stk.last() by {
        if onstk(s2, x) { let p = choose|p: int| at(s2, p, x); assert(at(stk, p, x)); assert(stk[p] != stk[k]); }
        if onstk(stk, x) && x != stk.last() { let p = choose|p: int| at(stk, p, x); assert(at(s2, p, x)); }
    }
}

/// the stack is part of the blocked set
proof fn lemma_stack_blocked(has: JArc, ink: JIn, n: int, s: usize, st: JS, x: usize)
    requires jinv(has, ink, n, s, st), onstk(st.stk, x),
    ensures st.blk.contains(x), ink(x),
{
    reveal(jinv);
    let p = choose|p: int| at(st.stk, p, x);
    assert(st.stk[p] == x);
}

/// readable consequences of the invariant
proof fn lemma_jinv_facts(has: JArc, ink: JIn, n: int, s: usize, st: JS)
    requires jinv(has, ink, n, s, st),
    ensures
        st.b.len() == n,
        st.stk.no_duplicates(),
        forall|p: int| 0 <= p < st.stk.len() ==> ink(#[trigger] st.stk[p]) && st.blk.contains(st.stk[p]),
        forall|p: int| 0 <= p < st.stk.len() - 1 ==> #[trigger] stk_arc(has, st.stk, p),
        ink(s),
        st.stk.len() > 0 ==> st.stk[0] == s,
{
    reveal(jinv);
}

// ---------------------------------------------------------------------------------------------
// start: every vertex of the component is unblocked with an empty B-list, the stack is empty
// ---------------------------------------------------------------------------------------------
proof fn lemma_jinv_init(has: JArc, ink: JIn, n: int, s: usize, st: JS)
    requires
        ink(s),
        st.b.len() == n,
        st.stk.len() == 0,
        forall|x: usize| #[trigger] ink(x) ==> !st.blk.contains(x),
        forall|x: usize, y: usize| ink(x) ==> !#[trigger] inb(st, x, y),
    ensures
        jinv(has, ink, n, s, st),
{
    reveal(jinv);
    let d = |u: usize| 0int;
    assert(jinv_d(has, ink, n, s, st, d));
}

// ---------------------------------------------------------------------------------------------
// push
// ---------------------------------------------------------------------------------------------
spec fn push_st(st: JS, v: usize) -> JS { JS { blk: st.blk.insert(v), b: st.b, stk: st.stk.push(v) } }

proof fn lemma_jpush(has: JArc, ink: JIn, n: int, s: usize, st: JS, v: usize)
    requires
        jg(has, ink, n),
        jinv(has, ink, n, s, st),
        ink(v),
        !st.blk.contains(v),
        st.stk.len() == 0 ==> v == s,
        st.stk.len() > 0 ==> has(st.stk.last(), v),
    ensures
        jinv(has, ink, n, s, push_st(st, v)),
        !onstk(st.stk, v),
{
    reveal(jinv);
    let d = choose|d: JLab| jinv_d(has, ink, n, s, st, d);
    let st2 = push_st(st, v);
    let len = st.stk.len() as int;
    lemma_at_push(st.stk, v);
    if onstk(st.stk, v) { let p = choose|p: int| at(st.stk, p, v); assert(st.blk.contains(st.stk[p])); }
    assert forall|u: usize| #[trigger] bns(ink, st2, u) implies bns(ink, st, u) by {}
    assert forall|x: usize, y: usize| inb(st2, x, y) == inb(st, x, y) by {}
    assert(inv_stack(has, ink, n, s, st2)) by {
        assert forall|p: int| 0 <= p < st2.stk.len() - 1 implies #[trigger] stk_arc(has, st2.stk, p) by {
            if p < len - 1 { assert(stk_arc(has, st.stk, p)); }
        }
        assert forall|a: int, c: int| 0 <= a < st2.stk.len() && 0 <= c < st2.stk.len() && a != c implies st2.stk[a] != st2.stk[c] by {
            if a < len && c < len { assert(st.stk[a] != st.stk[c]); }
            else if a < len { assert(at(st.stk, a, st.stk[a])); }
            else { assert(at(st.stk, c, st.stk[c])); }
        }
    }
    assert(inv_b(has, ink, st2)) by {
        assert forall|u: usize, w: usize| #![trigger bns(ink, st2, u), has(u, w)] bns(ink, st2, u) && has(u, w) implies st2.blk.contains(w) && inb(st2, w, u) by {
            assert(bns(ink, st, u));
        }
    }
    assert(inv_d(has, ink, st2, d)) by {
        assert forall|u: usize, w: usize, p: int| #![trigger has(u, w), at(st2.stk, p, w)] bns(ink, st2, u) && has(u, w) && at(st2.stk, p, w) implies p < d(u) by {
            assert(bns(ink, st, u));
            if p == len { assert(st.blk.contains(w)); } else { assert(at(st.stk, p, w)); }
        }
        assert forall|u: usize, w: usize| #![trigger bns(ink, st2, u), has(u, w)] bns(ink, st2, u) && has(u, w) && !onstk(st2.stk, w) implies d(w) <= d(u) by {
            assert(bns(ink, st, u));
        }
        assert forall|u: usize| #[trigger] bns(ink, st2, u) implies d(u) <= st2.stk.len() by { assert(bns(ink, st, u)); }
        assert forall|p: int, q: int| 0 <= p < st2.stk.len() && 0 <= q < st2.stk.len() && #[trigger] inb(st2, st2.stk[p], st2.stk[q]) implies q > p by {
            if p == len { assert(inb(st, v, st2.stk[q])); }
            else if q < len { assert(inb(st, st.stk[p], st.stk[q])); }
        }
        assert forall|u: usize, q: int| 0 <= q < st2.stk.len() && bns(ink, st2, u) && #[trigger] inb(st2, u, st2.stk[q]) implies d(u) <= q by {
            assert(bns(ink, st, u));
            if q < len { assert(inb(st, u, st.stk[q])); }
        }
    }
    assert(jinv_d(has, ink, n, s, st2, d));
}

// ---------------------------------------------------------------------------------------------
// pop after failure: every successor of the top x is blocked; x is put on the B-list of each successor
// ---------------------------------------------------------------------------------------------
spec fn fail_rel(has: JArc, st: JS, st2: JS, x: usize) -> bool {
    &&& st2.stk == st.stk.drop_last()
    &&& st2.blk == st.blk
    &&& st2.b.len() == st.b.len()
    &&& forall|w: usize, y: usize| #[trigger] inb(st2, w, y) <==> inb(st, w, y) || (has(x, w) && y == x)
}

proof fn lemma_jfail(has: JArc, ink: JIn, n: int, s: usize, st: JS, st2: JS, x: usize)
    requires
        jg(has, ink, n),
        jinv(has, ink, n, s, st),
        st.stk.len() > 0,
        st.stk.last() == x,
        forall|w: usize| #[trigger] has(x, w) ==> st.blk.contains(w),
        fail_rel(has, st, st2, x),
    ensures
        jinv(has, ink, n, s, st2),
{
    reveal(jinv);
    let d = choose|d: JLab| jinv_d(has, ink, n, s, st, d);
    let k = st.stk.len() - 1;
    let d2 = |u: usize| if u == x { k } else if d(u) <= k { d(u) } else { k };
    lemma_at_pop(st.stk);
    assert(at(st.stk, k, x));
    assert(ink(x) && st.blk.contains(x)) by { assert(st.stk[k] == x); }
    assert forall|u: usize| #[trigger] bns(ink, st2, u) implies u == x || bns(ink, st, u) by {}
    assert(inv_stack(has, ink, n, s, st2)) by {
        assert forall|p: int| 0 <= p < st2.stk.len() implies ink(#[trigger] st2.stk[p]) && st2.blk.contains(st2.stk[p]) by {
            assert(st2.stk[p] == st.stk[p]);
        }
        assert forall|p: int| 0 <= p < st2.stk.len() - 1 implies #[trigger] stk_arc(has, st2.stk, p) by {
            assert(stk_arc(has, st.stk, p));
        }
    }
    assert(inv_b(has, ink, st2)) by {
        assert forall|u: usize, w: usize| #![trigger bns(ink, st2, u), has(u, w)] bns(ink, st2, u) && has(u, w) implies st2.blk.contains(w) && inb(st2, w, u) by {
            if u != x { assert(bns(ink, st, u)); }
        }
    }
    assert(inv_d(has, ink, st2, d2)) by {
        assert forall|u: usize, w: usize, p: int| #![trigger has(u, w), at(st2.stk, p, w)] bns(ink, st2, u) && has(u, w) && at(st2.stk, p, w) implies p < d2(u) by {
            assert(at(st.stk, p, w));
            if u != x { assert(bns(ink, st, u)); }
        }
        assert forall|u: usize, w: usize| #![trigger bns(ink, st2, u), has(u, w)] bns(ink, st2, u) && has(u, w) && !onstk(st2.stk, w) implies d2(w) <= d2(u) by {
            if u != x {
                assert(bns(ink, st, u));
                if w == x { assert(at(st.stk, k, w)); } else { assert(!onstk(st.stk, w)); }
            } else {
                assert(st.blk.contains(w) && ink(w));
                assert(bns(ink, st2, w));
                if w != x { assert(bns(ink, st, w)); }
            }
        }
        assert forall|u: usize| #[trigger] bns(ink, st2, u) implies d2(u) <= st2.stk.len() by {}
        assert forall|p: int, q: int| 0 <= p < st2.stk.len() && 0 <= q < st2.stk.len() && #[trigger] inb(st2, st2.stk[p], st2.stk[q]) implies q > p by {
            assert(st2.stk[p] == st.stk[p] && st2.stk[q] == st.stk[q]);
            assert(st.stk[q] != st.stk[k]);
            assert(inb(st, st.stk[p], st.stk[q]));
        }
        assert forall|u: usize, q: int| 0 <= q < st2.stk.len() && bns(ink, st2, u) && #[trigger] inb(st2, u, st2.stk[q]) implies d2(u) <= q by {
            assert(st2.stk[q] == st.stk[q]);
            assert(st.stk[q] != st.stk[k]);
            assert(inb(st, u, st.stk[q]));
            if u == x { assert(inb(st, st.stk[k], st.stk[q])); } else { assert(bns(ink, st, u)); }
        }
    }
    assert(jinv_d(has, ink, n, s, st2, d2));
}

// ---------------------------------------------------------------------------------------------
// unblock
// ---------------------------------------------------------------------------------------------
/// c is closed under "blocked entry of the B-list of a member"
spec fn closed(st: JS, c: JSet) -> bool {
    forall|w: usize, y: usize| #![trigger c(w), inb(st, w, y)] c(w) && inb(st, w, y) && st.blk.contains(y) ==> c(y)
}

/// x was unblocked between st0 and st1
spec fn freed(st0: JS, st1: JS, x: usize) -> bool { st0.blk.contains(x) && !st1.blk.contains(x) }

/// what `unblock(u)` does (st0 -> st1): only vertices of the cascade from u are unblocked, exactly their B-lists are emptied
spec fn ub_rel(st0: JS, st1: JS, u: usize) -> bool {
    &&& st1.stk == st0.stk
    &&& st1.b.len() == st0.b.len()
    &&& st1.blk.subset_of(st0.blk)
    &&& !st1.blk.contains(u)
    &&& forall|x: usize, y: usize| #![trigger inb(st1, x, y)] #![trigger inb(st0, x, y)] !freed(st0, st1, x) ==> inb(st1, x, y) == inb(st0, x, y)
    &&& forall|x: usize, y: usize| freed(st0, st1, x) ==> !#[trigger] inb(st1, x, y)
    &&& forall|w: usize, y: usize| #![trigger freed(st0, st1, w), inb(st0, w, y)] freed(st0, st1, w) && inb(st0, w, y) ==> !st1.blk.contains(y)
    &&& forall|c: JSet| #[trigger] closed(st0, c) && (st0.blk.contains(u) ==> c(u)) ==> (forall|y: usize| #[trigger] freed(st0, st1, y) ==> c(y))
}

/// state inside the pop loop of `unblock(u)` (u was blocked at entry)
spec fn ub_loop(st0: JS, st: JS, u: usize) -> bool {
    &&& st.stk == st0.stk
    &&& st.b.len() == st0.b.len()
    &&& u < st0.b.len()
    &&& st.blk.subset_of(st0.blk)
    &&& st0.blk.contains(u)
    &&& !st.blk.contains(u)
    &&& forall|x: usize, y: usize| #![trigger inb(st, x, y)] #![trigger inb(st0, x, y)] x != u && !freed(st0, st, x) ==> inb(st, x, y) == inb(st0, x, y)
    &&& forall|x: usize, y: usize| x != u && freed(st0, st, x) ==> !#[trigger] inb(st, x, y)
    &&& forall|y: usize| #[trigger] inb(st, u, y) ==> inb(st0, u, y)
    &&& forall|y: usize| #[trigger] inb(st0, u, y) && !inb(st, u, y) ==> !st.blk.contains(y)
    &&& forall|w: usize, y: usize| #![trigger freed(st0, st, w), inb(st0, w, y)] w != u && freed(st0, st, w) && inb(st0, w, y) ==> !st.blk.contains(y)
    &&& forall|c: JSet| #[trigger] closed(st0, c) && c(u) ==> (forall|y: usize| #[trigger] freed(st0, st, y) ==> c(y))
}

/// u is not blocked: nothing happens
proof fn lemma_ub_noop(st0: JS, u: usize)
    requires !st0.blk.contains(u),
    ensures ub_rel(st0, st0, u),
{
}

/// after `blocked.remove(&u)`
proof fn lemma_ub_init(st0: JS, st: JS, u: usize)
    requires
        st0.blk.contains(u),
        u < st0.b.len(),
        st.stk == st0.stk,
        st.b == st0.b,
        st.blk == st0.blk.remove(u),
    ensures
        ub_loop(st0, st, u),
{
    assert forall|c: JSet| #[trigger] closed(st0, c) && c(u) implies (forall|y: usize| #[trigger] freed(st0, st, y) ==> c(y)) by {
        assert forall|y: usize| #[trigger] freed(st0, st, y) implies c(y) by { assert(y == u); }
    }
}

/// one iteration: v is popped from B(u) (st -> sp), then `unblock(v)` (sp -> st2)
proof fn lemma_ub_step(st0: JS, st: JS, sp: JS, st2: JS, u: usize, v: usize)
    requires
        ub_loop(st0, st, u),
        inb(st, u, v),
        sp.stk == st.stk,
        sp.blk == st.blk,
        sp.b.len() == st.b.len(),
        forall|x: usize, y: usize| #[trigger] inb(sp, x, y) <==> inb(st, x, y) && !(x == u && y == v),
        ub_rel(sp, st2, v),
    ensures
        ub_loop(st0, st2, u),
{
    assert forall|x: usize, y: usize| #![trigger inb(st2, x, y)] #![trigger inb(st0, x, y)] x != u && !freed(st0, st2, x) implies inb(st2, x, y) == inb(st0, x, y) by {
        assert(!freed(sp, st2, x));
        assert(inb(st2, x, y) == inb(sp, x, y));
        assert(!freed(st0, st, x));
        assert(inb(st, x, y) == inb(st0, x, y));
    }
    assert forall|x: usize, y: usize| x != u && freed(st0, st2, x) implies !#[trigger] inb(st2, x, y) by {
        if freed(st0, st, x) {
            assert(!inb(st, x, y));
            assert(!freed(sp, st2, x));
            assert(inb(st2, x, y) == inb(sp, x, y));
        } else {
            assert(freed(sp, st2, x));
        }
    }
    assert forall|y: usize| #[trigger] inb(st2, u, y) implies inb(st0, u, y) by {
        assert(!freed(sp, st2, u));
        assert(inb(st2, u, y) == inb(sp, u, y));
        assert(inb(st, u, y));
    }
    assert forall|y: usize| #[trigger] inb(st0, u, y) && !inb(st2, u, y) implies !st2.blk.contains(y) by {
        assert(!freed(sp, st2, u));
        assert(inb(st2, u, y) == inb(sp, u, y));
        if y != v { assert(!inb(st, u, y)); }
    }
    assert forall|w: usize, y: usize| #![trigger freed(st0, st2, w), inb(st0, w, y)] w != u && freed(st0, st2, w) && inb(st0, w, y) implies !st2.blk.contains(y) by {
        if freed(st0, st, w) {
        } else {
            assert(freed(sp, st2, w));
            assert(inb(st, w, y) == inb(st0, w, y));
            assert(inb(sp, w, y));
        }
    }
    assert forall|c: JSet| #[trigger] closed(st0, c) && c(u) implies (forall|y: usize| #[trigger] freed(st0, st2, y) ==> c(y)) by {
        // c is closed in sp as well (fewer entries, fewer blocked vertices) and contains v if v is blocked
        assert(closed(sp, c)) by {
            assert forall|w: usize, y: usize| #![trigger c(w), inb(sp, w, y)] c(w) && inb(sp, w, y) && sp.blk.contains(y) implies c(y) by {
                assert(inb(st, w, y));
                if w == u { assert(inb(st0, u, y)); } else {
                    if freed(st0, st, w) { assert(!inb(st, w, y)); } else { assert(inb(st, w, y) == inb(st0, w, y)); }
                }
                assert(inb(st0, w, y));
            }
        }
        if sp.blk.contains(v) { assert(inb(st0, u, v)); assert(c(v)); }
        assert forall|y: usize| #[trigger] freed(st0, st2, y) implies c(y) by {
            if !freed(st0, st, y) { assert(freed(sp, st2, y)); }
        }
    }
}

/// B(u) is empty: the loop has established the contract
proof fn lemma_ub_final(st0: JS, st: JS, u: usize)
    requires
        ub_loop(st0, st, u),
        forall|y: usize| !inb(st, u, y),
    ensures
        ub_rel(st0, st, u),
{
    assert(freed(st0, st, u));
    assert forall|x: usize, y: usize| #![trigger inb(st, x, y)] #![trigger inb(st0, x, y)] !freed(st0, st, x) implies inb(st, x, y) == inb(st0, x, y) by {}
    assert forall|w: usize, y: usize| #![trigger freed(st0, st, w), inb(st0, w, y)] freed(st0, st, w) && inb(st0, w, y) implies !st.blk.contains(y) by {
        if w == u { assert(!inb(st, u, y)); }
    }
}

// ---------------------------------------------------------------------------------------------
// pop after success: `unblock(x)` for the top x, then pop
// ---------------------------------------------------------------------------------------------
/// the cascade from the top x stays inside { x } + { blocked vertices off the stack with label len }
spec fn top_set(ink: JIn, st: JS, d: JLab, x: usize) -> JSet {
    |y: usize| y == x || (bns(ink, st, y) && d(y) == st.stk.len())
}

proof fn lemma_top_closed(has: JArc, ink: JIn, n: int, s: usize, st: JS, d: JLab, x: usize)
    requires
        jg(has, ink, n),
        jinv_d(has, ink, n, s, st, d),
        st.stk.len() > 0,
        st.stk.last() == x,
    ensures
        closed(st, top_set(ink, st, d, x)),
{
    let c = top_set(ink, st, d, x);
    let k = st.stk.len() - 1;
    assert(at(st.stk, k, x));
    assert(st.stk[k] == x);
    assert forall|w: usize, y: usize| #![trigger c(w), inb(st, w, y)] c(w) && inb(st, w, y) && st.blk.contains(y) implies c(y) by {
        assert(ink(w));
        assert(has(y, w));
        if y != x {
            if onstk(st.stk, y) {
                let q = choose|q: int| at(st.stk, q, y);
                if w == x { assert(inb(st, st.stk[k], st.stk[q])); } else { assert(inb(st, w, st.stk[q])); }
                assert(false);
            }
            assert(bns(ink, st, y));
            if w == x { assert(at(st.stk, k, w)); } else { assert(!onstk(st.stk, w)); }
        }
    }
}

proof fn lemma_jsucc(has: JArc, ink: JIn, n: int, s: usize, st: JS, st1: JS, st2: JS, x: usize)
    requires
        jg(has, ink, n),
        jinv(has, ink, n, s, st),
        st.stk.len() > 0,
        st.stk.last() == x,
        ub_rel(st, st1, x),
        st2.blk == st1.blk,
        st2.b == st1.b,
        st2.stk == st.stk.drop_last(),
    ensures
        jinv(has, ink, n, s, st2),
{
    reveal(jinv);
    let d = choose|d: JLab| jinv_d(has, ink, n, s, st, d);
    let k = st.stk.len() - 1;
    let d2 = |u: usize| if d(u) <= k { d(u) } else { k };
    let c = top_set(ink, st, d, x);
    lemma_top_closed(has, ink, n, s, st, d, x);
    lemma_at_pop(st.stk);
    assert(at(st.stk, k, x));
    assert(st.stk[k] == x);
    assert(c(x));
    assert(closed(st, c) && (st.blk.contains(x) ==> c(x)));
    assert forall|y: usize| #[trigger] freed(st, st1, y) implies c(y) by {}
    assert forall|x1: usize, y: usize| inb(st2, x1, y) == inb(st1, x1, y) by {}
    assert forall|x1: usize, y: usize| #[trigger] inb(st2, x1, y) implies inb(st, x1, y) by {
        if freed(st, st1, x1) { assert(!inb(st1, x1, y)); } else { assert(inb(st1, x1, y) == inb(st, x1, y)); }
    }
    assert forall|u: usize| #[trigger] bns(ink, st2, u) implies bns(ink, st, u) && u != x by {}
    assert(inv_stack(has, ink, n, s, st2)) by {
        assert forall|p: int| 0 <= p < st2.stk.len() implies ink(#[trigger] st2.stk[p]) && st2.blk.contains(st2.stk[p]) by {
            let y = st.stk[p];
            assert(st2.stk[p] == y);
            assert(at(st.stk, p, y));
            assert(y != st.stk[k]);
            if !st1.blk.contains(y) { assert(freed(st, st1, y)); assert(c(y)); }
        }
        assert forall|p: int| 0 <= p < st2.stk.len() - 1 implies #[trigger] stk_arc(has, st2.stk, p) by {
            assert(stk_arc(has, st.stk, p));
        }
    }
    assert(inv_b(has, ink, st2)) by {
        assert forall|x1: usize, y: usize| ink(x1) && !st2.blk.contains(x1) implies !#[trigger] inb(st2, x1, y) by {
            if freed(st, st1, x1) { assert(!inb(st1, x1, y)); } else { assert(inb(st1, x1, y) == inb(st, x1, y)); }
        }
        assert forall|u: usize, w: usize| #![trigger bns(ink, st2, u), has(u, w)] bns(ink, st2, u) && has(u, w) implies st2.blk.contains(w) && inb(st2, w, u) by {
            assert(bns(ink, st, u));
            assert(st.blk.contains(w) && inb(st, w, u));
            if !st1.blk.contains(w) { assert(freed(st, st1, w)); assert(!st1.blk.contains(u)); }
            assert(!freed(st, st1, w));
            assert(inb(st1, w, u) == inb(st, w, u));
        }
    }
    assert(inv_d(has, ink, st2, d2)) by {
        assert forall|u: usize, w: usize, p: int| #![trigger has(u, w), at(st2.stk, p, w)] bns(ink, st2, u) && has(u, w) && at(st2.stk, p, w) implies p < d2(u) by {
            assert(bns(ink, st, u));
            assert(at(st.stk, p, w));
        }
        assert forall|u: usize, w: usize| #![trigger bns(ink, st2, u), has(u, w)] bns(ink, st2, u) && has(u, w) && !onstk(st2.stk, w) implies d2(w) <= d2(u) by {
            assert(bns(ink, st, u));
            if w == x {
                assert(inb(st, x, u));
                assert(freed(st, st1, x));
                assert(!st1.blk.contains(u));
            }
            assert(!onstk(st.stk, w));
        }
        assert forall|u: usize| #[trigger] bns(ink, st2, u) implies d2(u) <= st2.stk.len() by {}
        assert forall|p: int, q: int| 0 <= p < st2.stk.len() && 0 <= q < st2.stk.len() && #[trigger] inb(st2, st2.stk[p], st2.stk[q]) implies q > p by {
            assert(st2.stk[p] == st.stk[p] && st2.stk[q] == st.stk[q]);
            assert(inb(st, st.stk[p], st.stk[q]));
        }
        assert forall|u: usize, q: int| 0 <= q < st2.stk.len() && bns(ink, st2, u) && #[trigger] inb(st2, u, st2.stk[q]) implies d2(u) <= q by {
            assert(st2.stk[q] == st.stk[q]);
            assert(bns(ink, st, u));
            assert(inb(st, u, st.stk[q]));
        }
    }
    assert(jinv_d(has, ink, n, s, st2, d2));
}

// ---------------------------------------------------------------------------------------------
// the emitted sequences (stages 2 and 3)
// ---------------------------------------------------------------------------------------------
spec fn is_prefix(pre: Seq<usize>, c: Seq<usize>) -> bool {
    pre.len() <= c.len() && forall|i: int| 0 <= i < pre.len() ==> c[i] == pre[i]
}

/// c is an elementary circuit of the component through s, written from s: at least two vertices, pairwise distinct,
/// consecutive vertices joined by arcs, and an arc from the last vertex back to s
spec fn circ_in(has: JArc, ink: JIn, s: usize, c: Seq<usize>) -> bool {
    &&& c.len() >= 2
    &&& c[0] == s
    &&& c.no_duplicates()
    &&& forall|i: int| 0 <= i < c.len() ==> ink(#[trigger] c[i])
    &&& forall|i: int| 0 <= i < c.len() - 1 ==> #[trigger] stk_arc(has, c, i)
    &&& has(c.last(), s)
}

/// r1 extends r0
spec fn ext_by(r0: Seq<Seq<usize>>, r1: Seq<Seq<usize>>) -> bool {
    r0.len() <= r1.len() && forall|i: int| 0 <= i < r0.len() ==> #[trigger] r1[i] == r0[i]
}

/// the sequences appended to r0: circuits through s that start with `pre`, no two equal
spec fn seg_ok(has: JArc, ink: JIn, s: usize, pre: Seq<usize>, r0: Seq<Seq<usize>>, r1: Seq<Seq<usize>>) -> bool {
    &&& ext_by(r0, r1)
    &&& forall|i: int| r0.len() <= i < r1.len() ==> circ_in(has, ink, s, #[trigger] r1[i]) && is_prefix(pre, r1[i])
    &&& forall|i: int, j: int| r0.len() <= i < j < r1.len() ==> #[trigger] r1[i] != #[trigger] r1[j]
}

/// c was emitted while one of the first k out-neighbours was handled: either c == pre (the neighbour was s) or c
/// continues pre with that neighbour
spec fn tagged(pre: Seq<usize>, c: Seq<usize>, nbs: Seq<usize>, k: int, s: usize) -> bool {
    ||| (c.len() == pre.len() && exists|j: int| 0 <= j < k && #[trigger] nbs[j] == s)
    ||| (c.len() > pre.len() && c[pre.len() as int] != s && exists|j: int| 0 <= j < k && #[trigger] nbs[j] == c[pre.len() as int])
}

spec fn seg_loop(has: JArc, ink: JIn, s: usize, pre: Seq<usize>, r0: Seq<Seq<usize>>, r1: Seq<Seq<usize>>, nbs: Seq<usize>, k: int) -> bool {
    &&& seg_ok(has, ink, s, pre, r0, r1)
    &&& 0 <= k <= nbs.len()
    &&& forall|i: int| r0.len() <= i < r1.len() ==> tagged(pre, #[trigger] r1[i], nbs, k, s)
}

proof fn lemma_seg_skip(has: JArc, ink: JIn, s: usize, pre: Seq<usize>, r0: Seq<Seq<usize>>, r1: Seq<Seq<usize>>, nbs: Seq<usize>, k: int)
    requires seg_loop(has, ink, s, pre, r0, r1, nbs, k), k < nbs.len(),
    ensures seg_loop(has, ink, s, pre, r0, r1, nbs, k + 1),
{
    assert forall|i: int| r0.len() <= i < r1.len() implies tagged(pre, #[trigger] r1[i], nbs, k + 1, s) by {
        let c = r1[i];
        assert(tagged(pre, c, nbs, k, s));
        if c.len() == pre.len() {
            let j = choose|j: int| 0 <= j < k && #[trigger] nbs[j] == s;
            assert(0 <= j < k + 1 && nbs[j] == s);
        } else {
            let j = choose|j: int| 0 <= j < k && #[trigger] nbs[j] == c[pre.len() as int];
            assert(0 <= j < k + 1 && nbs[j] == c[pre.len() as int]);
        }
    }
}

/// the k-th out-neighbour is s: `pre` itself is emitted
proof fn lemma_seg_emit(has: JArc, ink: JIn, s: usize, pre: Seq<usize>, r0: Seq<Seq<usize>>, r1: Seq<Seq<usize>>, nbs: Seq<usize>, k: int)
    requires
        seg_loop(has, ink, s, pre, r0, r1, nbs, k), k < nbs.len(),
        nbs.no_duplicates(),
        nbs[k] == s,
        circ_in(has, ink, s, pre),
    ensures
        seg_loop(has, ink, s, pre, r0, r1.push(pre), nbs, k + 1),
{
    let r2 = r1.push(pre);
    lemma_seg_skip(has, ink, s, pre, r0, r1, nbs, k);
    assert forall|i: int| r0.len() <= i < r2.len() implies tagged(pre, #[trigger] r2[i], nbs, k + 1, s) by {
        if i < r1.len() { assert(r2[i] == r1[i]); } else { assert(0 <= k < k + 1 && nbs[k] == s); }
    }
    assert forall|i: int, j: int| r0.len() <= i < j < r2.len() implies #[trigger] r2[i] != #[trigger] r2[j] by {
        assert(r2[i] == r1[i]);
        if j < r1.len() { assert(r2[j] == r1[j]); } else {
            if r1[i] == pre {
                assert(tagged(pre, r1[i], nbs, k, s));
                let j2 = choose|j2: int| 0 <= j2 < k && #[trigger] nbs[j2] == s;
                assert(nbs[j2] == nbs[k]);
            }
        }
    }
    assert forall|i: int| r0.len() <= i < r2.len() implies circ_in(has, ink, s, #[trigger] r2[i]) && is_prefix(pre, r2[i]) by {
        if i < r1.len() { assert(r2[i] == r1[i]); }
    }
    assert(ext_by(r0, r2)) by {
        assert forall|i: int| 0 <= i < r0.len() implies #[trigger] r2[i] == r0[i] by { assert(r2[i] == r1[i]); }
    }
}

/// the k-th out-neighbour w != s was entered: the recursive call appended circuits that start with pre + [w]
proof fn lemma_seg_call(has: JArc, ink: JIn, s: usize, pre: Seq<usize>, r0: Seq<Seq<usize>>, r1: Seq<Seq<usize>>, r2: Seq<Seq<usize>>, nbs: Seq<usize>, k: int)
    requires
        seg_loop(has, ink, s, pre, r0, r1, nbs, k), k < nbs.len(),
        nbs.no_duplicates(),
        nbs[k] != s,
        seg_ok(has, ink, s, pre.push(nbs[k]), r1, r2),
    ensures
        seg_loop(has, ink, s, pre, r0, r2, nbs, k + 1),
{
    let w = nbs[k];
    let pw = pre.push(w);
    let m = pre.len() as int;
    lemma_seg_skip(has, ink, s, pre, r0, r1, nbs, k);
    assert forall|i: int| r1.len() <= i < r2.len() implies (#[trigger] r2[i]).len() > m && r2[i][m] == w && is_prefix(pre, r2[i]) by {
        let c = r2[i];
        assert(is_prefix(pw, c));
        assert(c[m] == pw[m]);
        assert forall|a: int| 0 <= a < m implies c[a] == pre[a] by { assert(c[a] == pw[a]); }
    }
    assert forall|i: int| r0.len() <= i < r2.len() implies tagged(pre, #[trigger] r2[i], nbs, k + 1, s) by {
        if i < r1.len() { assert(r2[i] == r1[i]); } else { assert(0 <= k < k + 1 && nbs[k] == r2[i][m]); }
    }
    assert forall|i: int, j: int| r0.len() <= i < j < r2.len() implies #[trigger] r2[i] != #[trigger] r2[j] by {
        if i < r1.len() {
            assert(r2[i] == r1[i]);
            if j < r1.len() { assert(r2[j] == r1[j]); } else {
                if r1[i] == r2[j] {
                    assert(tagged(pre, r1[i], nbs, k, s));
                    let j2 = choose|j2: int| 0 <= j2 < k && #[trigger] nbs[j2] == r1[i][m];
                    assert(nbs[j2] == nbs[k]);
                }
            }
        }
    }
    assert forall|i: int| r0.len() <= i < r2.len() implies circ_in(has, ink, s, #[trigger] r2[i]) && is_prefix(pre, r2[i]) by {
        if i < r1.len() { assert(r2[i] == r1[i]); }
    }
    assert(ext_by(r0, r2)) by {
        assert forall|i: int| 0 <= i < r0.len() implies #[trigger] r2[i] == r0[i] by { assert(r2[i] == r1[i]); }
    }
}

/// the stack with the top v -> s closing arc is a circuit through s
proof fn lemma_stack_circuit(has: JArc, ink: JIn, n: int, s: usize, st: JS)
    requires
        jg(has, ink, n),
        jinv(has, ink, n, s, st),
        st.stk.len() > 0,
        has(st.stk.last(), s),
    ensures
        circ_in(has, ink, s, st.stk),
{
    lemma_jinv_facts(has, ink, n, s, st);
    if st.stk.len() == 1 { assert(st.stk.last() == st.stk[0]); }
}

// ---------------------------------------------------------------------------------------------
// stage 4: Johnson's blocking property and completeness
// ---------------------------------------------------------------------------------------------
/// p is a path of the component: non-empty, consecutive vertices joined by arcs
spec fn jpath(has: JArc, p: Seq<usize>) -> bool {
    p.len() >= 1 && forall|i: int| 0 <= i < p.len() - 1 ==> #[trigger] stk_arc(has, p, i)
}

/// p passes through a stack entry other than the bottom entry s
spec fn meets(stk: Seq<usize>, p: Seq<usize>) -> bool {
    exists|i: int, q: int| 0 <= i < p.len() && 1 <= q < stk.len() && #[trigger] p[i] == #[trigger] stk[q]
}

/// a path from u to s
spec fn path_to(has: JArc, p: Seq<usize>, u: usize, s: usize) -> bool { jpath(has, p) && p[0] == u && p.last() == s }

/// Johnson's blocking property: a vertex stays blocked (off the stack) only while every path from it to s passes through
/// a stack entry other than s
#[verifier::opaque]
spec fn jblk(has: JArc, ink: JIn, s: usize, st: JS) -> bool {
    forall|u: usize, p: Seq<usize>| #![trigger bns(ink, st, u), path_to(has, p, u, s)] bns(ink, st, u) && path_to(has, p, u, s) ==> meets(st.stk, p)
}

proof fn lemma_path_suffix(has: JArc, p: Seq<usize>, a: int)
    requires jpath(has, p), 0 <= a < p.len(),
    ensures
        jpath(has, p.subrange(a, p.len() as int)),
        p.subrange(a, p.len() as int)[0] == p[a],
        p.subrange(a, p.len() as int).last() == p.last(),
{
    let q = p.subrange(a, p.len() as int);
    assert forall|i: int| 0 <= i < q.len() - 1 implies #[trigger] stk_arc(has, q, i) by { assert(stk_arc(has, p, a + i)); }
}

proof fn lemma_meets_suffix(stk: Seq<usize>, p: Seq<usize>, a: int)
    requires 0 <= a < p.len(), meets(stk, p.subrange(a, p.len() as int)),
    ensures meets(stk, p),
{
    let p2 = p.subrange(a, p.len() as int);
    let (i, q) = choose|i: int, q: int| 0 <= i < p2.len() && 1 <= q < stk.len() && #[trigger] p2[i] == #[trigger] stk[q];
    assert(p[a + i] == stk[q]);
}

proof fn lemma_hinit(has: JArc, ink: JIn, s: usize, st: JS)
    requires forall|x: usize| #[trigger] ink(x) ==> !st.blk.contains(x),
    ensures jblk(has, ink, s, st),
{
    reveal(jblk);
}

proof fn lemma_hpush(has: JArc, ink: JIn, n: int, s: usize, st: JS, v: usize)
    requires
        jinv(has, ink, n, s, st),
        jblk(has, ink, s, st),
        !st.blk.contains(v),
    ensures
        jblk(has, ink, s, push_st(st, v)),
{
    reveal(jblk);
    let st2 = push_st(st, v);
    lemma_at_push(st.stk, v);
    assert forall|u: usize, p: Seq<usize>| #![trigger bns(ink, st2, u), path_to(has, p, u, s)] bns(ink, st2, u) && path_to(has, p, u, s) implies meets(st2.stk, p) by {
        assert(bns(ink, st, u));
        assert(meets(st.stk, p));
        let (i, q) = choose|i: int, q: int| 0 <= i < p.len() && 1 <= q < st.stk.len() && #[trigger] p[i] == #[trigger] st.stk[q];
        assert(p[i] == st2.stk[q]);
    }
}

/// the facts about the state before a pop that the two path lemmas need
spec fn pop_ctx(has: JArc, ink: JIn, n: int, s: usize, st: JS, x: usize) -> bool {
    &&& jg(has, ink, n)
    &&& inv_stack(has, ink, n, s, st)
    &&& inv_b(has, ink, st)
    &&& jblk(has, ink, s, st)
    &&& st.stk.len() >= 2
    &&& st.stk.last() == x
}

/// pop after failure: every path from the popped top x to s passes through the remaining stack above s
proof fn lemma_hfail_path(has: JArc, ink: JIn, n: int, s: usize, st: JS, x: usize, p: Seq<usize>)
    requires
        pop_ctx(has, ink, n, s, st, x),
        forall|w: usize| #[trigger] has(x, w) ==> st.blk.contains(w) && w != s,
        path_to(has, p, x, s),
    ensures
        meets(st.stk.drop_last(), p),
    decreases p.len(),
{
    reveal(jblk);
    let k = st.stk.len() - 1;
    let stk2 = st.stk.drop_last();
    lemma_at_pop(st.stk);
    assert(st.stk[k] == x && st.stk[0] == s);
    assert(x != s);
    assert(p.len() >= 2);
    let w = p[1];
    assert(stk_arc(has, p, 0));
    assert(has(x, w));
    lemma_path_suffix(has, p, 1);
    let p1 = p.subrange(1, p.len() as int);
    if onstk(st.stk, w) {
        let q = choose|q: int| at(st.stk, q, w);
        assert(q != k && q != 0);
        assert(p[1] == stk2[q]);
    } else {
        assert(bns(ink, st, w));
        assert(path_to(has, p1, w, s));
        assert(meets(st.stk, p1));
        let (i, q) = choose|i: int, q: int| 0 <= i < p1.len() && 1 <= q < st.stk.len() && #[trigger] p1[i] == #[trigger] st.stk[q];
        if q < k {
            assert(p[1 + i] == stk2[q]);
        } else {
            // the path comes back to x: its rest is a shorter path from x to s
            lemma_path_suffix(has, p, 1 + i);
            let p2 = p.subrange(1 + i, p.len() as int);
            assert(p2[0] == p1[i]);
            lemma_hfail_path(has, ink, n, s, st, x, p2);
            lemma_meets_suffix(stk2, p, 1 + i);
        }
    }
}

proof fn lemma_hfail(has: JArc, ink: JIn, n: int, s: usize, st: JS, st2: JS, x: usize)
    requires
        jg(has, ink, n),
        jinv(has, ink, n, s, st),
        jblk(has, ink, s, st),
        st.stk.len() >= 2,
        st.stk.last() == x,
        forall|w: usize| #[trigger] has(x, w) ==> st.blk.contains(w) && w != s,
        fail_rel(has, st, st2, x),
    ensures
        jblk(has, ink, s, st2),
{
    reveal(jinv);
    assert(pop_ctx(has, ink, n, s, st, x));
    let k = st.stk.len() - 1;
    lemma_at_pop(st.stk);
    assert(st.stk[k] == x);
    assert forall|u: usize, p: Seq<usize>| #![trigger bns(ink, st2, u), path_to(has, p, u, s)] bns(ink, st2, u) && path_to(has, p, u, s) implies meets(st2.stk, p) by {
        if u == x {
            lemma_hfail_path(has, ink, n, s, st, x, p);
        } else {
            assert(bns(ink, st, u));
            assert(meets(st.stk, p)) by { reveal(jblk); }
            let (i, q) = choose|i: int, q: int| 0 <= i < p.len() && 1 <= q < st.stk.len() && #[trigger] p[i] == #[trigger] st.stk[q];
            if q < k {
                assert(p[i] == st2.stk[q]);
            } else {
                lemma_path_suffix(has, p, i);
                lemma_hfail_path(has, ink, n, s, st, x, p.subrange(i, p.len() as int));
                lemma_meets_suffix(st2.stk, p, i);
            }
        }
    }
    reveal(jblk);
}

/// pop after success: a vertex u that is still blocked after `unblock(x)` keeps the blocking property
proof fn lemma_hsucc_path(has: JArc, ink: JIn, n: int, s: usize, st: JS, st1: JS, x: usize, u: usize, p: Seq<usize>)
    requires
        pop_ctx(has, ink, n, s, st, x),
        ub_rel(st, st1, x),
        bns(ink, st, u),
        st1.blk.contains(u),
        path_to(has, p, u, s),
    ensures
        meets(st.stk.drop_last(), p),
    decreases p.len(),
{
    let k = st.stk.len() - 1;
    let stk2 = st.stk.drop_last();
    lemma_at_pop(st.stk);
    assert(st.stk[k] == x && st.stk[0] == s);
    assert(at(st.stk, 0, s));
    assert(u != s);
    assert(p.len() >= 2);
    let w = p[1];
    assert(stk_arc(has, p, 0));
    assert(has(u, w));
    assert(st.blk.contains(w) && inb(st, w, u));
    lemma_path_suffix(has, p, 1);
    let p1 = p.subrange(1, p.len() as int);
    if freed(st, st1, w) {
        assert(!st1.blk.contains(u));
    }
    if onstk(st.stk, w) {
        let q = choose|q: int| at(st.stk, q, w);
        if q == k { assert(w == x); assert(freed(st, st1, x)); }
        if q == 0 {
            // u -> s is an arc: the path [u, s] would not meet the stack
            reveal(jblk);
            let p0 = seq![u, s];
            assert(stk_arc(has, p0, 0));
            assert(path_to(has, p0, u, s));
            assert(meets(st.stk, p0));
            let (i0, q0) = choose|i0: int, q0: int| 0 <= i0 < p0.len() && 1 <= q0 < st.stk.len() && #[trigger] p0[i0] == #[trigger] st.stk[q0];
            if i0 == 0 { assert(at(st.stk, q0, u)); } else { assert(st.stk[q0] != st.stk[0]); }
            assert(false);
        }
        assert(p[1] == stk2[q]);
    } else {
        assert(bns(ink, st, w));
        lemma_hsucc_path(has, ink, n, s, st, st1, x, w, p1);
        lemma_meets_suffix(stk2, p, 1);
    }
}

proof fn lemma_hsucc(has: JArc, ink: JIn, n: int, s: usize, st: JS, st1: JS, st2: JS, x: usize)
    requires
        jg(has, ink, n),
        jinv(has, ink, n, s, st),
        jblk(has, ink, s, st),
        st.stk.len() >= 2,
        st.stk.last() == x,
        ub_rel(st, st1, x),
        st2.blk == st1.blk,
        st2.b == st1.b,
        st2.stk == st.stk.drop_last(),
    ensures
        jblk(has, ink, s, st2),
{
    reveal(jinv);
    assert(pop_ctx(has, ink, n, s, st, x));
    lemma_at_pop(st.stk);
    assert forall|u: usize, p: Seq<usize>| #![trigger bns(ink, st2, u), path_to(has, p, u, s)] bns(ink, st2, u) && path_to(has, p, u, s) implies meets(st2.stk, p) by {
        assert(u != x);
        assert(bns(ink, st, u));
        lemma_hsucc_path(has, ink, n, s, st, st1, x, u, p);
    }
    reveal(jblk);
}

/// every circuit through s that starts with `pre` is among the sequences appended to r0
spec fn comp_ok(has: JArc, ink: JIn, s: usize, pre: Seq<usize>, r0: Seq<Seq<usize>>, r1: Seq<Seq<usize>>) -> bool {
    forall|c: Seq<usize>| #![trigger circ_in(has, ink, s, c), is_prefix(pre, c)] circ_in(has, ink, s, c) && is_prefix(pre, c) ==> found(r0, r1, c)
}
spec fn found(r0: Seq<Seq<usize>>, r1: Seq<Seq<usize>>, c: Seq<usize>) -> bool {
    exists|i: int| r0.len() <= i < r1.len() && #[trigger] r1[i] == c
}

/// the continuation of `pre` in c is one of the first k out-neighbours
spec fn handled(pre: Seq<usize>, c: Seq<usize>, nbs: Seq<usize>, k: int, s: usize) -> bool {
    ||| (c.len() == pre.len() && exists|j: int| 0 <= j < k && #[trigger] nbs[j] == s)
    ||| (c.len() > pre.len() && exists|j: int| 0 <= j < k && #[trigger] nbs[j] == c[pre.len() as int])
}

spec fn comp_loop(has: JArc, ink: JIn, s: usize, pre: Seq<usize>, r0: Seq<Seq<usize>>, r1: Seq<Seq<usize>>, nbs: Seq<usize>, k: int) -> bool {
    forall|c: Seq<usize>| #![trigger circ_in(has, ink, s, c), is_prefix(pre, c)] circ_in(has, ink, s, c) && is_prefix(pre, c) && handled(pre, c, nbs, k, s) ==> found(r0, r1, c)
}

proof fn lemma_found_ext(r0: Seq<Seq<usize>>, r1: Seq<Seq<usize>>, r2: Seq<Seq<usize>>, c: Seq<usize>)
    requires found(r0, r1, c), ext_by(r1, r2), r0.len() <= r1.len(),
    ensures found(r0, r2, c),
{
    let i = choose|i: int| r0.len() <= i < r1.len() && #[trigger] r1[i] == c;
    assert(r2[i] == r1[i]);
}

/// the k-th out-neighbour w: s itself (pre was emitted, r2 = r1 + [pre]), a blocked vertex (r2 = r1), or a vertex that was
/// entered (r2 = r1 + what the recursive call appended, complete for pre + [w])
proof fn lemma_comp_step(has: JArc, ink: JIn, n: int, s: usize, st: JS, r0: Seq<Seq<usize>>, r1: Seq<Seq<usize>>, r2: Seq<Seq<usize>>, nbs: Seq<usize>, k: int)
    requires
        jg(has, ink, n),
        jinv(has, ink, n, s, st),
        jblk(has, ink, s, st),
        st.stk.len() >= 1,
        comp_loop(has, ink, s, st.stk, r0, r1, nbs, k),
        0 <= k < nbs.len(),
        r0.len() <= r1.len(),
        ext_by(r1, r2),
        nbs[k] == s ==> r2.len() > r1.len() && r2[r1.len() as int] == st.stk,
        nbs[k] != s && !st.blk.contains(nbs[k]) ==> comp_ok(has, ink, s, st.stk.push(nbs[k]), r1, r2),
    ensures
        comp_loop(has, ink, s, st.stk, r0, r2, nbs, k + 1),
{
    let pre = st.stk;
    let m = pre.len() as int;
    let w = nbs[k];
    lemma_jinv_facts(has, ink, n, s, st);
    assert forall|c: Seq<usize>| #![trigger circ_in(has, ink, s, c), is_prefix(pre, c)] circ_in(has, ink, s, c) && is_prefix(pre, c) && handled(pre, c, nbs, k + 1, s) implies found(r0, r2, c) by {
        if handled(pre, c, nbs, k, s) {
            assert(found(r0, r1, c));
            lemma_found_ext(r0, r1, r2, c);
        } else if c.len() == m {
            let j = choose|j: int| 0 <= j < k + 1 && #[trigger] nbs[j] == s;
            assert(j == k);
            assert(c =~= pre);
            assert(r2[r1.len() as int] == c);
        } else {
            let j = choose|j: int| 0 <= j < k + 1 && #[trigger] nbs[j] == c[m];
            assert(j == k);
            assert(c[m] == w);
            assert(c[0] == s);
            assert(w != s) by { if w == s { assert(c[m] == c[0]); } }
            if st.blk.contains(w) {
                // w is blocked and off the stack, but the rest of c is a path from w to s that avoids the stack
                lemma_blocked_no_circuit(has, ink, n, s, st, c);
            } else {
                let pw = pre.push(w);
                assert(is_prefix(pw, c)) by {
                    assert forall|i: int| 0 <= i < pw.len() implies c[i] == pw[i] by { if i < m { assert(c[i] == pre[i]); } }
                }
                assert(found(r1, r2, c));
                let i = choose|i: int| r1.len() <= i < r2.len() && #[trigger] r2[i] == c;
                assert(r0.len() <= i < r2.len() && r2[i] == c);
            }
        }
    }
}

/// a circuit c that continues the stack with a blocked vertex contradicts the blocking property
proof fn lemma_blocked_no_circuit(has: JArc, ink: JIn, n: int, s: usize, st: JS, c: Seq<usize>)
    requires
        jg(has, ink, n),
        jinv(has, ink, n, s, st),
        jblk(has, ink, s, st),
        st.stk.len() >= 1,
        circ_in(has, ink, s, c),
        is_prefix(st.stk, c),
        c.len() > st.stk.len(),
        st.blk.contains(c[st.stk.len() as int]),
    ensures
        false,
{
    reveal(jblk);
    let pre = st.stk;
    let m = pre.len() as int;
    let w = c[m];
    lemma_jinv_facts(has, ink, n, s, st);
    let tail = c.subrange(m, c.len() as int);
    let p = tail.push(s);
    assert forall|i: int| 0 <= i < p.len() - 1 implies #[trigger] stk_arc(has, p, i) by {
        if i < tail.len() - 1 { assert(stk_arc(has, c, m + i)); } else { assert(p[i] == c.last()); }
    }
    assert(path_to(has, p, w, s));
    if onstk(pre, w) {
        let q = choose|q: int| at(pre, q, w);
        assert(c[q] == pre[q]);
        assert(c[q] == c[m]);
    }
    assert(bns(ink, st, w));
    assert(meets(pre, p));
    let (i, q) = choose|i: int, q: int| 0 <= i < p.len() && 1 <= q < pre.len() && #[trigger] p[i] == #[trigger] pre[q];
    assert(c[q] == pre[q]);
    if i < tail.len() { assert(c[m + i] == c[q]); } else { assert(c[0] == c[q]); }
}

/// all out-neighbours handled: every circuit that starts with the stack has been found
proof fn lemma_comp_done(has: JArc, ink: JIn, n: int, s: usize, st: JS, r0: Seq<Seq<usize>>, r1: Seq<Seq<usize>>, nbs: Seq<usize>)
    requires
        jg(has, ink, n),
        jinv(has, ink, n, s, st),
        st.stk.len() >= 1,
        comp_loop(has, ink, s, st.stk, r0, r1, nbs, nbs.len() as int),
        forall|y: usize| #[trigger] has(st.stk.last(), y) ==> nbs.contains(y),
    ensures
        comp_ok(has, ink, s, st.stk, r0, r1),
{
    let pre = st.stk;
    let m = pre.len() as int;
    assert forall|c: Seq<usize>| #![trigger circ_in(has, ink, s, c), is_prefix(pre, c)] circ_in(has, ink, s, c) && is_prefix(pre, c) implies found(r0, r1, c) by {
        assert(c[m - 1] == pre[m - 1]);
        if c.len() == m {
            assert(has(pre.last(), s));
            assert(nbs.contains(s));
            let j = choose|j: int| 0 <= j < nbs.len() && nbs[j] == s;
            assert(0 <= j < nbs.len() && nbs[j] == s);
        } else {
            assert(stk_arc(has, c, m - 1));
            assert(has(pre.last(), c[m]));
            assert(nbs.contains(c[m]));
            let j = choose|j: int| 0 <= j < nbs.len() && nbs[j] == c[m];
            assert(0 <= j < nbs.len() && nbs[j] == c[m]);
        }
        assert(handled(pre, c, nbs, nbs.len() as int, s));
    }
}
