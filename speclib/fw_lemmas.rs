// ---- Floyd-Warshall: walk surgery (concatenation, splitting, cycle removal), the textbook recurrence as an
//      invariant over (matrix, stage, row, column), initial and final states (all proved; no axioms) ----
// needs prelude/dgw_isize.rs, speclib/graph.rs, units/inc/distance_matrix.inc.rs (lemma_cell_bound, lemma_cell_inj)
spec fn has_of(dg: &Dgi) -> ArcRel { |u: int, v: int| dg.has(u, v) }
spec fn wt_of(dg: &Dgi) -> ArcW { |u: int, v: int| dg.wt(u, v) }

// ---- the property's side conditions ----
/// half of the isize range: two operands within [-fw_half, fw_half] can be added without overflow, and the sum is
/// never isize::MAX (the "unreachable" marker)
spec fn fw_half() -> int { (isize::MAX as int) / 2 }

/// arithmetic side condition ("path sums fit"): every duplicate-free walk (a path) weighs between -isize::MAX/2 and
/// isize::MAX/2.  A sufficient condition a client can check: |w(a)| <= B for every arc and (order - 1) * B <= isize::MAX / 2.
spec fn sums_fit(dg: &Dgi) -> bool {
    forall|p: Seq<int>| #[trigger] is_walk(has_of(dg), p) && p.no_duplicates()
        ==> -fw_half() <= walk_weight(wt_of(dg), p) <= fw_half()
}
/// "without negative-weight circuits": every closed walk has non-negative weight
spec fn no_neg_circuit(dg: &Dgi) -> bool {
    forall|p: Seq<int>| #[trigger] is_walk(has_of(dg), p) && p[0] == p.last() ==> walk_weight(wt_of(dg), p) >= 0
}

// ---- walks between two given vertices, interior vertices ----
spec fn wjk(has: ArcRel, j: int, k: int, p: Seq<int>) -> bool { is_walk(has, p) && p[0] == j && p.last() == k }
/// every vertex of p other than its first and last one is below m
spec fn interior_lt(p: Seq<int>, m: int) -> bool { forall|t: int| 0 < t < p.len() - 1 ==> #[trigger] p[t] < m }
/// p followed by q, where q starts at p's last vertex
spec fn cat(p: Seq<int>, q: Seq<int>) -> Seq<int> { p + q.subrange(1, q.len() as int) }

proof fn lemma_cat(has: ArcRel, w: ArcW, p: Seq<int>, q: Seq<int>)
    requires is_walk(has, p), is_walk(has, q), p.last() == q[0],
    ensures
        is_walk(has, cat(p, q)), cat(p, q)[0] == p[0], cat(p, q).last() == q.last(),
        cat(p, q).len() == p.len() + q.len() - 1,
        walk_weight(w, cat(p, q)) == walk_weight(w, p) + walk_weight(w, q),
    decreases q.len(),
{
    if q.len() == 1 {
        assert(cat(p, q) =~= p);
    } else {
        lemma_walk_prefix(has, q);
        let q1 = q.drop_last();
        lemma_cat(has, w, p, q1);
        let c1 = cat(p, q1);
        assert(c1.last() == q[q.len() - 2]);
        lemma_walk_extend(has, w, c1, q.last());
        assert(cat(p, q) =~= c1.push(q.last()));
    }
}

proof fn lemma_cat_interior(p: Seq<int>, q: Seq<int>, m: int)
    requires p.len() >= 1, q.len() >= 1, interior_lt(p, m), interior_lt(q, m), p.last() < m,
    ensures interior_lt(cat(p, q), m),
{
    let c = cat(p, q);
    assert forall|t: int| 0 < t < c.len() - 1 implies #[trigger] c[t] < m by {
        if t < p.len() - 1 {
            assert(c[t] == p[t]);
        } else if t == p.len() - 1 {
            assert(c[t] == p.last());
        } else {
            assert(c[t] == q[t - p.len() + 1]);
        }
    }
}

/// a walk cut at position t: both halves are walks and the weights add up
proof fn lemma_split(has: ArcRel, w: ArcW, p: Seq<int>, t: int)
    requires is_walk(has, p), 0 <= t < p.len(),
    ensures
        is_walk(has, p.take(t + 1)), is_walk(has, p.skip(t)),
        p.take(t + 1)[0] == p[0], p.take(t + 1).last() == p[t], p.skip(t)[0] == p[t], p.skip(t).last() == p.last(),
        walk_weight(w, p) == walk_weight(w, p.take(t + 1)) + walk_weight(w, p.skip(t)),
{
    let a = p.take(t + 1);
    let b = p.skip(t);
    assert forall|i: int| 0 <= i < a.len() - 1 implies #[trigger] step_ok(has, a, i) by { assert(step_ok(has, p, i)); }
    assert forall|i: int| 0 <= i < b.len() - 1 implies #[trigger] step_ok(has, b, i) by { assert(step_ok(has, p, t + i)); }
    lemma_cat(has, w, a, b);
    assert(cat(a, b) =~= p);
}

proof fn lemma_split_interior(p: Seq<int>, t: int, m: int)
    requires interior_lt(p, m), 0 <= t < p.len(),
    ensures interior_lt(p.take(t + 1), m), interior_lt(p.skip(t), m),
{
    let a = p.take(t + 1);
    let b = p.skip(t);
    assert forall|i: int| 0 < i < a.len() - 1 implies #[trigger] a[i] < m by { assert(a[i] == p[i]); }
    assert forall|i: int| 0 < i < b.len() - 1 implies #[trigger] b[i] < m by { assert(b[i] == p[t + i]); }
}

proof fn lemma_interior_mono(p: Seq<int>, m: int, m2: int)
    requires interior_lt(p, m), m <= m2,
    ensures interior_lt(p, m2),
{
    assert forall|t: int| 0 < t < p.len() - 1 implies #[trigger] p[t] < m2 by { assert(p[t] < m); }
}

/// every vertex of a walk with at least one arc is a vertex of the digraph
proof fn lemma_walk_in_range(dg: &Dgi, p: Seq<int>)
    requires dg.wf(), is_walk(has_of(dg), p), p.len() >= 2,
    ensures forall|t: int| 0 <= t < p.len() ==> 0 <= #[trigger] p[t] < dg.ord(),
{
    assert forall|t: int| 0 <= t < p.len() implies 0 <= #[trigger] p[t] < dg.ord() by {
        if t < p.len() - 1 {
            assert(step_ok(has_of(dg), p, t));
            assert(dg.has(p[t], p[t + 1]));
        } else {
            assert(step_ok(has_of(dg), p, t - 1));
            assert(dg.has(p[t - 1], p[t]));
        }
    }
}

/// cycle removal: without negative circuits every walk contains a duplicate-free walk between the same end vertices
/// that is not heavier and whose interior vertices are interior vertices of the original walk
proof fn lemma_simple(dg: &Dgi, p: Seq<int>, m: int) -> (q: Seq<int>)
    requires no_neg_circuit(dg), is_walk(has_of(dg), p), interior_lt(p, m),
    ensures
        is_walk(has_of(dg), q), q.no_duplicates(), q[0] == p[0], q.last() == p.last(), interior_lt(q, m),
        walk_weight(wt_of(dg), q) <= walk_weight(wt_of(dg), p),
    decreases p.len(),
{
    let has = has_of(dg); let w = wt_of(dg);
    if p.no_duplicates() {
        p
    } else {
        let (s0, t0) = choose|s: int, t: int| 0 <= s < p.len() && 0 <= t < p.len() && s != t && p[s] == p[t];
        let s = if s0 < t0 { s0 } else { t0 };
        let t = if s0 < t0 { t0 } else { s0 };
        lemma_split(has, w, p, t);
        let pa = p.take(t + 1);
        let pc = p.skip(t);
        lemma_split(has, w, pa, s);
        let p1 = pa.take(s + 1);
        let c = pa.skip(s);
        assert(c[0] == p[s] && c.last() == p[t]);
        assert(walk_weight(w, c) >= 0);
        assert(p1.last() == p[s]);
        lemma_cat(has, w, p1, pc);
        let p2 = cat(p1, pc);
        assert forall|i: int| 0 < i < p2.len() - 1 implies #[trigger] p2[i] < m by {
            if i <= s {
                assert(p2[i] == p[i]);
            } else {
                assert(p2[i] == p[i + t - s]);
            }
        }
        lemma_simple(dg, p2, m)
    }
}

// ---- the recurrence, per cell ----
/// no walk from j to k whose interior vertices are below m weighs less than x; x == isize::MAX stands for "there is none"
spec fn lbv(dg: &Dgi, j: int, k: int, x: int, m: int) -> bool {
    forall|p: Seq<int>| #[trigger] wjk(has_of(dg), j, k, p) && interior_lt(p, m)
        ==> x != isize::MAX && x <= walk_weight(wt_of(dg), p)
}
/// some walk from j to k whose interior vertices are below m weighs exactly x
spec fn witv(dg: &Dgi, j: int, k: int, x: int, m: int) -> bool {
    exists|p: Seq<int>| #[trigger] wjk(has_of(dg), j, k, p) && interior_lt(p, m) && walk_weight(wt_of(dg), p) == x
}
/// x is the minimum weight of a walk from j to k with interior vertices below m (isize::MAX: no such walk)
spec fn exact(dg: &Dgi, j: int, k: int, x: int, m: int) -> bool {
    (x != isize::MAX ==> witv(dg, j, k, x, m)) && lbv(dg, j, k, x, m)
}

proof fn lemma_witv_mono(dg: &Dgi, j: int, k: int, x: int, m: int, m2: int)
    requires witv(dg, j, k, x, m), m <= m2,
    ensures witv(dg, j, k, x, m2),
{
    let p = choose|p: Seq<int>| #[trigger] wjk(has_of(dg), j, k, p) && interior_lt(p, m) && walk_weight(wt_of(dg), p) == x;
    lemma_interior_mono(p, m, m2);
    assert(wjk(has_of(dg), j, k, p) && interior_lt(p, m2));
}
proof fn lemma_lbv_mono(dg: &Dgi, j: int, k: int, x: int, m: int, m2: int)
    requires lbv(dg, j, k, x, m2), m <= m2,
    ensures lbv(dg, j, k, x, m),
{
    assert forall|p: Seq<int>| #[trigger] wjk(has_of(dg), j, k, p) && interior_lt(p, m)
        implies x != isize::MAX && x <= walk_weight(wt_of(dg), p) by {
        lemma_interior_mono(p, m, m2);
    }
}

/// column m is stable under "allow m as an interior vertex": a walk into m through m ends with a closed walk
proof fn lemma_lift_col(dg: &Dgi, j: int, m: int, a: int, p: Seq<int>)
    requires no_neg_circuit(dg), lbv(dg, j, m, a, m), wjk(has_of(dg), j, m, p), interior_lt(p, m + 1),
    ensures a != isize::MAX && a <= walk_weight(wt_of(dg), p),
    decreases p.len(),
{
    let has = has_of(dg); let w = wt_of(dg);
    if !interior_lt(p, m) {
        let t = choose|t: int| 0 < t < p.len() - 1 && !(#[trigger] p[t] < m);
        assert(p[t] < m + 1);
        lemma_split(has, w, p, t);
        lemma_split_interior(p, t, m + 1);
        let p1 = p.take(t + 1);
        let p3 = p.skip(t);
        assert(wjk(has, j, m, p1));
        lemma_lift_col(dg, j, m, a, p1);
        assert(is_walk(has, p3) && p3[0] == p3.last());
    }
}
/// row m likewise: a walk out of m through m starts with a closed walk
proof fn lemma_lift_row(dg: &Dgi, m: int, k: int, b: int, p: Seq<int>)
    requires no_neg_circuit(dg), lbv(dg, m, k, b, m), wjk(has_of(dg), m, k, p), interior_lt(p, m + 1),
    ensures b != isize::MAX && b <= walk_weight(wt_of(dg), p),
    decreases p.len(),
{
    let has = has_of(dg); let w = wt_of(dg);
    if !interior_lt(p, m) {
        let t = choose|t: int| 0 < t < p.len() - 1 && !(#[trigger] p[t] < m);
        assert(p[t] < m + 1);
        lemma_split(has, w, p, t);
        lemma_split_interior(p, t, m + 1);
        let p1 = p.take(t + 1);
        let p3 = p.skip(t);
        assert(wjk(has, m, k, p3));
        lemma_lift_row(dg, m, k, b, p3);
        assert(is_walk(has, p1) && p1[0] == p1.last());
    }
}
proof fn lemma_lift_col_all(dg: &Dgi, j: int, m: int, a: int)
    requires no_neg_circuit(dg), lbv(dg, j, m, a, m),
    ensures lbv(dg, j, m, a, m + 1),
{
    assert forall|p: Seq<int>| #[trigger] wjk(has_of(dg), j, m, p) && interior_lt(p, m + 1)
        implies a != isize::MAX && a <= walk_weight(wt_of(dg), p) by { lemma_lift_col(dg, j, m, a, p); }
}
proof fn lemma_lift_row_all(dg: &Dgi, m: int, k: int, b: int)
    requires no_neg_circuit(dg), lbv(dg, m, k, b, m),
    ensures lbv(dg, m, k, b, m + 1),
{
    assert forall|p: Seq<int>| #[trigger] wjk(has_of(dg), m, k, p) && interior_lt(p, m + 1)
        implies b != isize::MAX && b <= walk_weight(wt_of(dg), p) by { lemma_lift_row(dg, m, k, b, p); }
}

/// a walk from j to k that uses m as an interior vertex weighs at least a + b
proof fn lemma_via(dg: &Dgi, j: int, k: int, m: int, a: int, b: int, p: Seq<int>)
    requires
        lbv(dg, j, m, a, m + 1), lbv(dg, m, k, b, m + 1),
        wjk(has_of(dg), j, k, p), interior_lt(p, m + 1), !interior_lt(p, m),
    ensures a != isize::MAX && b != isize::MAX && a + b <= walk_weight(wt_of(dg), p),
{
    let has = has_of(dg); let w = wt_of(dg);
    let t = choose|t: int| 0 < t < p.len() - 1 && !(#[trigger] p[t] < m);
    assert(p[t] < m + 1);
    lemma_split(has, w, p, t);
    lemma_split_interior(p, t, m + 1);
    assert(wjk(has, j, m, p.take(t + 1)));
    assert(wjk(has, m, k, p.skip(t)));
}

/// the values read from column m / row m during stage m are path weights, hence within the half range
proof fn lemma_bound_col(dg: &Dgi, j: int, m: int, a: int)
    requires sums_fit(dg), no_neg_circuit(dg), j != m, witv(dg, j, m, a, m + 1), lbv(dg, j, m, a, m),
    ensures -fw_half() <= a <= fw_half(),
{
    let has = has_of(dg); let w = wt_of(dg);
    let p = choose|p: Seq<int>| #[trigger] wjk(has, j, m, p) && interior_lt(p, m + 1) && walk_weight(w, p) == a;
    let q = lemma_simple(dg, p, m + 1);
    assert forall|t: int| 0 < t < q.len() - 1 implies #[trigger] q[t] < m by {
        assert(q[t] < m + 1);
        assert(q[t] != q[q.len() - 1]);
    }
    assert(wjk(has, j, m, q) && interior_lt(q, m));
}
proof fn lemma_bound_row(dg: &Dgi, m: int, k: int, b: int)
    requires sums_fit(dg), no_neg_circuit(dg), m != k, witv(dg, m, k, b, m + 1), lbv(dg, m, k, b, m),
    ensures -fw_half() <= b <= fw_half(),
{
    let has = has_of(dg); let w = wt_of(dg);
    let p = choose|p: Seq<int>| #[trigger] wjk(has, m, k, p) && interior_lt(p, m + 1) && walk_weight(w, p) == b;
    let q = lemma_simple(dg, p, m + 1);
    assert forall|t: int| 0 < t < q.len() - 1 implies #[trigger] q[t] < m by {
        assert(q[t] < m + 1);
        assert(q[t] != q[0]);
    }
    assert(wjk(has, m, k, q) && interior_lt(q, m));
}

/// the relaxation `d[j][k] = min(d[j][k], d[j][m] + d[m][k])` (skipped when an operand is MAX) takes cell (j, k)
/// from stage m to stage m + 1; a diagonal cell holding 0 keeps it
spec fn relax_val(a: int, b: int, x: int) -> int {
    if a != isize::MAX && b != isize::MAX && a + b < x { a + b } else { x }
}
proof fn lemma_cell_step(dg: &Dgi, j: int, k: int, m: int, a: int, b: int, x: int)
    requires
        no_neg_circuit(dg),
        x <= isize::MAX,
        a != isize::MAX && b != isize::MAX ==> a + b < isize::MAX,
        a != isize::MAX ==> witv(dg, j, m, a, m + 1),
        b != isize::MAX ==> witv(dg, m, k, b, m + 1),
        lbv(dg, j, m, a, m + 1), lbv(dg, m, k, b, m + 1),
        exact(dg, j, k, x, m),
    ensures
        exact(dg, j, k, relax_val(a, b, x), m + 1),
        j == k && x == 0 ==> relax_val(a, b, x) == 0,
{
    let has = has_of(dg); let w = wt_of(dg);
    let y = relax_val(a, b, x);
    if a != isize::MAX && b != isize::MAX {
        let p1 = choose|p: Seq<int>| #[trigger] wjk(has, j, m, p) && interior_lt(p, m + 1) && walk_weight(w, p) == a;
        let p3 = choose|p: Seq<int>| #[trigger] wjk(has, m, k, p) && interior_lt(p, m + 1) && walk_weight(w, p) == b;
        lemma_cat(has, w, p1, p3);
        lemma_cat_interior(p1, p3, m + 1);
        let c = cat(p1, p3);
        assert(wjk(has, j, k, c) && interior_lt(c, m + 1) && walk_weight(w, c) == a + b);
        assert(witv(dg, j, k, a + b, m + 1));
        if j == k {
            assert(is_walk(has, c) && c[0] == c.last());
            assert(a + b >= 0);
        }
    }
    if y != isize::MAX && y == x {
        lemma_witv_mono(dg, j, k, x, m, m + 1);
    }
    assert forall|p: Seq<int>| #[trigger] wjk(has, j, k, p) && interior_lt(p, m + 1)
        implies y != isize::MAX && y <= walk_weight(w, p) by {
        if interior_lt(p, m) {
        } else {
            lemma_via(dg, j, k, m, a, b, p);
        }
    }
}

// ---- the matrix ----
/// entry in row j, column k of a row-major n x n matrix
spec fn ent(d: Seq<isize>, n: int, j: int, k: int) -> int { d[j * n + k] as int }

/// while stage m (intermediate vertex m) is at row jj, column kk: the cells before that position are at stage m + 1
spec fn lvl(m: int, jj: int, kk: int, j: int, k: int) -> int {
    if j < jj || (j == jj && k < kk) { m + 1 } else { m }
}
spec fn cell_ok(dg: &Dgi, d: Seq<isize>, m: int, jj: int, kk: int, j: int, k: int) -> bool {
    &&& exact(dg, j, k, ent(d, dg.ord() as int, j, k), lvl(m, jj, kk, j, k))
    &&& (j == k ==> ent(d, dg.ord() as int, j, k) == 0)
}
/// Floyd-Warshall's loop invariant: cell (j, k) holds the minimum weight of a walk from j to k whose interior vertices
/// are below lvl (MAX: none), and the diagonal is 0
spec fn fw_inv(dg: &Dgi, d: Seq<isize>, m: int, jj: int, kk: int) -> bool {
    &&& d.len() == dg.ord() * dg.ord()
    &&& forall|j: int, k: int| 0 <= j < dg.ord() && 0 <= k < dg.ord() ==> #[trigger] cell_ok(dg, d, m, jj, kk, j, k)
}

/// what a read of cell (j, k) during stage m yields
proof fn lemma_read(dg: &Dgi, d: Seq<isize>, m: int, jj: int, kk: int, j: int, k: int)
    requires fw_inv(dg, d, m, jj, kk), 0 <= j < dg.ord(), 0 <= k < dg.ord(),
    ensures
        ent(d, dg.ord() as int, j, k) != isize::MAX ==> witv(dg, j, k, ent(d, dg.ord() as int, j, k), m + 1),
        lbv(dg, j, k, ent(d, dg.ord() as int, j, k), m),
        j == k ==> ent(d, dg.ord() as int, j, k) == 0,
{
    let x = ent(d, dg.ord() as int, j, k);
    let l = lvl(m, jj, kk, j, k);
    assert(cell_ok(dg, d, m, jj, kk, j, k));
    if x != isize::MAX { lemma_witv_mono(dg, j, k, x, l, m + 1); }
    lemma_lbv_mono(dg, j, k, x, m, l);
}

/// cell (j, k) done (written with y, or left alone because y is what it holds)
proof fn lemma_write(dg: &Dgi, d: Seq<isize>, m: int, j: int, k: int, y: isize)
    requires
        dg.wf(), fw_inv(dg, d, m, j, k), 0 <= j < dg.ord(), 0 <= k < dg.ord(),
        exact(dg, j, k, y as int, m + 1), j == k ==> y == 0,
    ensures
        fw_inv(dg, d.update(j * dg.ord() + k, y), m, j, k + 1),
{
    let n = dg.ord() as int;
    let d2 = d.update(j * n + k, y);
    lemma_cell_bound(j, k, n);
    assert forall|j2: int, k2: int| 0 <= j2 < n && 0 <= k2 < n implies #[trigger] cell_ok(dg, d2, m, j, k + 1, j2, k2) by {
        assert(cell_ok(dg, d, m, j, k, j2, k2));
        lemma_cell_bound(j2, k2, n);
        if j2 * n + k2 == j * n + k {
            lemma_cell_inj(j2, k2, j, k, n);
        } else {
            assert(ent(d2, n, j2, k2) == ent(d, n, j2, k2));
            assert(lvl(m, j, k + 1, j2, k2) == lvl(m, j, k, j2, k2));
        }
    }
}
proof fn lemma_keep(dg: &Dgi, d: Seq<isize>, m: int, j: int, k: int)
    requires
        dg.wf(), fw_inv(dg, d, m, j, k), 0 <= j < dg.ord(), 0 <= k < dg.ord(),
        exact(dg, j, k, ent(d, dg.ord() as int, j, k), m + 1),
    ensures
        fw_inv(dg, d, m, j, k + 1),
{
    let n = dg.ord() as int;
    assert forall|j2: int, k2: int| 0 <= j2 < n && 0 <= k2 < n implies #[trigger] cell_ok(dg, d, m, j, k + 1, j2, k2) by {
        assert(cell_ok(dg, d, m, j, k, j2, k2));
        if !(j2 == j && k2 == k) {
            assert(lvl(m, j, k + 1, j2, k2) == lvl(m, j, k, j2, k2));
        }
    }
}
proof fn lemma_row_end(dg: &Dgi, d: Seq<isize>, m: int, j: int)
    requires fw_inv(dg, d, m, j, dg.ord() as int),
    ensures fw_inv(dg, d, m, j + 1, 0),
{
    let n = dg.ord() as int;
    assert forall|j2: int, k2: int| 0 <= j2 < n && 0 <= k2 < n implies #[trigger] cell_ok(dg, d, m, j + 1, 0, j2, k2) by {
        assert(cell_ok(dg, d, m, j, n, j2, k2));
        assert(lvl(m, j + 1, 0, j2, k2) == lvl(m, j, n, j2, k2));
    }
}
proof fn lemma_stage_end(dg: &Dgi, d: Seq<isize>, m: int)
    requires fw_inv(dg, d, m, dg.ord() as int, 0),
    ensures fw_inv(dg, d, m + 1, 0, 0),
{
    let n = dg.ord() as int;
    assert forall|j2: int, k2: int| 0 <= j2 < n && 0 <= k2 < n implies #[trigger] cell_ok(dg, d, m + 1, 0, 0, j2, k2) by {
        assert(cell_ok(dg, d, m, n, 0, j2, k2));
        assert(lvl(m + 1, 0, 0, j2, k2) == lvl(m, n, 0, j2, k2));
    }
}

/// row j is skipped when d[j][m] is MAX: no walk from j reaches m below stage m + 1, so the row is already at stage m + 1
proof fn lemma_skip_row_upto(dg: &Dgi, d: Seq<isize>, m: int, j: int, k: int)
    requires
        dg.wf(), no_neg_circuit(dg), fw_inv(dg, d, m, j, 0), 0 <= j < dg.ord(), 0 <= m < dg.ord(), 0 <= k <= dg.ord(),
        ent(d, dg.ord() as int, j, m) == isize::MAX,
    ensures fw_inv(dg, d, m, j, k),
    decreases k,
{
    let n = dg.ord() as int;
    if k > 0 {
        lemma_skip_row_upto(dg, d, m, j, k - 1);
        let a = ent(d, n, j, m);
        let b = ent(d, n, m, k - 1);
        let x = ent(d, n, j, k - 1);
        lemma_read(dg, d, m, j, 0, j, m);
        lemma_read(dg, d, m, j, 0, m, k - 1);
        lemma_lift_col_all(dg, j, m, a);
        lemma_lift_row_all(dg, m, k - 1, b);
        assert(cell_ok(dg, d, m, j, 0, j, k - 1));
        lemma_cell_step(dg, j, k - 1, m, a, b, x);
        lemma_keep(dg, d, m, j, k - 1);
    }
}
proof fn lemma_skip_row(dg: &Dgi, d: Seq<isize>, m: int, j: int)
    requires
        dg.wf(), no_neg_circuit(dg), fw_inv(dg, d, m, j, 0), 0 <= j < dg.ord(), 0 <= m < dg.ord(),
        ent(d, dg.ord() as int, j, m) == isize::MAX,
    ensures fw_inv(dg, d, m, j + 1, 0),
{
    lemma_skip_row_upto(dg, d, m, j, dg.ord() as int);
    lemma_row_end(dg, d, m, j);
}

// ---- initial state (after the arc weights and the zero diagonal have been written) ----
spec fn init_val(dg: &Dgi, u: int, v: int) -> int {
    if u == v { 0 } else if dg.has(u, v) { dg.wt(u, v) } else { isize::MAX as int }
}
spec fn init_ok(dg: &Dgi, d: Seq<isize>) -> bool {
    &&& d.len() == dg.ord() * dg.ord()
    &&& forall|u: int, v: int| 0 <= u < dg.ord() && 0 <= v < dg.ord() ==> #[trigger] ent(d, dg.ord() as int, u, v) == init_val(dg, u, v)
}
/// a walk without interior vertices (all interior vertices below 0) is a single vertex or a single arc
proof fn lemma_short(dg: &Dgi, p: Seq<int>)
    requires dg.wf(), is_walk(has_of(dg), p), interior_lt(p, 0),
    ensures
        p.len() <= 2,
        p.len() == 1 ==> walk_weight(wt_of(dg), p) == 0,
        p.len() == 2 ==> dg.has(p[0], p[1]) && walk_weight(wt_of(dg), p) == dg.wt(p[0], p[1]),
{
    if p.len() >= 3 {
        lemma_walk_in_range(dg, p);
        assert(p[1] < 0);
    }
    if p.len() == 2 {
        assert(step_ok(has_of(dg), p, 0));
        reveal_with_fuel(walk_weight, 3);
        assert(walk_weight(wt_of(dg), p.drop_last()) == 0);
    }
}
proof fn lemma_fw_init(dg: &Dgi, d: Seq<isize>)
    requires dg.wf(), sums_fit(dg), init_ok(dg, d),
    ensures fw_inv(dg, d, 0, 0, 0),
{
    let n = dg.ord() as int;
    let has = has_of(dg); let w = wt_of(dg);
    assert forall|j: int, k: int| 0 <= j < n && 0 <= k < n implies #[trigger] cell_ok(dg, d, 0, 0, 0, j, k) by {
        let x = ent(d, n, j, k);
        assert(x == init_val(dg, j, k));
        assert(lvl(0, 0, 0, j, k) == 0);
        if j == k {
            lemma_walk_single(has, w, j);
            assert(wjk(has, j, k, seq![j]) && interior_lt(seq![j], 0));
        } else if dg.has(j, k) {
            lemma_walk_single(has, w, j);
            lemma_walk_extend(has, w, seq![j], k);
            let p = seq![j].push(k);
            assert(wjk(has, j, k, p) && interior_lt(p, 0) && walk_weight(w, p) == x);
            assert(p.no_duplicates());
            assert(x != isize::MAX);
        }
        assert forall|p: Seq<int>| #[trigger] wjk(has, j, k, p) && interior_lt(p, 0)
            implies x != isize::MAX && x <= walk_weight(w, p) by {
            lemma_short(dg, p);
        }
    }
}

// ---- final state ----
proof fn lemma_fw_final(dg: &Dgi, d: Seq<isize>, u: int, v: int)
    requires dg.wf(), fw_inv(dg, d, dg.ord() as int, 0, 0), 0 <= u < dg.ord(), 0 <= v < dg.ord(),
    ensures
        ent(d, dg.ord() as int, u, v) == isize::MAX <==> !reachable(has_of(dg), set![u], v),
        ent(d, dg.ord() as int, u, v) != isize::MAX ==> is_min_walk_weight(has_of(dg), wt_of(dg), set![u], v, ent(d, dg.ord() as int, u, v)),
        u == v ==> ent(d, dg.ord() as int, u, v) == 0,
{
    let n = dg.ord() as int;
    let has = has_of(dg); let w = wt_of(dg);
    let x = ent(d, n, u, v);
    assert(cell_ok(dg, d, n, 0, 0, u, v));
    assert(lvl(n, 0, 0, u, v) == n);
    assert forall|p: Seq<int>| #[trigger] walk_from_to(has, set![u], v, p) implies x != isize::MAX && x <= walk_weight(w, p) by {
        if p.len() >= 2 { lemma_walk_in_range(dg, p); }
        assert(wjk(has, u, v, p) && interior_lt(p, n));
    }
    if x != isize::MAX {
        let p = choose|p: Seq<int>| #[trigger] wjk(has, u, v, p) && interior_lt(p, n) && walk_weight(w, p) == x;
        assert(walk_from_to(has, set![u], v, p) && walk_weight(w, p) == x);
    }
}

// ---- a checkable sufficient condition for `sums_fit` (not used by the unit; shows the side condition is what a
//      client with a bound on the arc weights can establish) ----
spec fn arcs_bounded(dg: &Dgi, b: int) -> bool {
    forall|u: int, v: int| #[trigger] dg.has(u, v) ==> -b <= dg.wt(u, v) <= b
}
proof fn lemma_weight_bound(dg: &Dgi, b: int, p: Seq<int>)
    requires arcs_bounded(dg, b), b >= 0, is_walk(has_of(dg), p),
    ensures -((p.len() - 1) * b) <= walk_weight(wt_of(dg), p) <= (p.len() - 1) * b,
    decreases p.len(),
{
    if p.len() > 1 {
        lemma_walk_prefix(has_of(dg), p);
        lemma_weight_bound(dg, b, p.drop_last());
        assert(dg.has(p[p.len() - 2], p[p.len() - 1]));
        assert((p.len() - 2) * b + b == (p.len() - 1) * b) by (nonlinear_arith);
    } else {
        assert((p.len() - 1) * b == 0) by (nonlinear_arith) requires p.len() == 1;
    }
}
/// pigeonhole: a duplicate-free walk has at most `order` vertices
proof fn lemma_path_len(dg: &Dgi, p: Seq<int>)
    requires dg.wf(), is_walk(has_of(dg), p), p.no_duplicates(),
    ensures p.len() <= dg.ord(),
{
    if p.len() >= 2 {
        lemma_walk_in_range(dg, p);
        let r = vstd::set_lib::set_int_range(0, dg.ord() as int);
        p.unique_seq_to_set();
        vstd::set_lib::lemma_int_range(0, dg.ord() as int);
        assert forall|x: int| p.to_set().contains(x) implies r.contains(x) by {
            let i = choose|i: int| 0 <= i < p.len() && p[i] == x;
            assert(0 <= p[i] < dg.ord());
        }
        vstd::set_lib::lemma_len_subset(p.to_set(), r);
    }
}
/// |w(a)| <= b for every arc and (order - 1) * b <= isize::MAX / 2  ==>  sums_fit
proof fn lemma_bounded_fits(dg: &Dgi, b: int)
    requires dg.wf(), b >= 0, arcs_bounded(dg, b), (dg.ord() - 1) * b <= fw_half(),
    ensures sums_fit(dg),
{
    assert forall|p: Seq<int>| #[trigger] is_walk(has_of(dg), p) && p.no_duplicates()
        implies -fw_half() <= walk_weight(wt_of(dg), p) <= fw_half() by {
        lemma_path_len(dg, p);
        lemma_weight_bound(dg, b, p);
        assert((p.len() - 1) * b <= (dg.ord() - 1) * b) by (nonlinear_arith) requires p.len() <= dg.ord(), b >= 0;
    }
}
