// ---- Bellman-Ford-Moore: arithmetic side condition, pass invariant, certificate and (n-1)-round lemmas (all proved; no axioms) ----
// needs prelude/dgw_isize.rs, speclib/graph.rs
type WArc<'b> = (usize, usize, &'b isize);

spec fn has_of(dg: &Dgi) -> ArcRel { |u: int, v: int| dg.has(u, v) }
spec fn wt_of(dg: &Dgi) -> ArcW { |u: int, v: int| dg.wt(u, v) }
spec fn src1(s: int) -> Set<int> { set![s] }

// ---- the property's arithmetic side condition ("path sums fit in isize") ----
spec fn cube(n: int) -> int { n * n * n }
spec fn arcs_bounded(dg: &Dgi, b: int) -> bool {
    forall|u: int, v: int| #[trigger] dg.has(u, v) ==> -b <= dg.wt(u, v) <= b
}
/// b >= 1 bounds every arc weight in absolute value and b * order^3 < isize::MAX.
/// order^3 is a bound on the number of relaxations the algorithm performs (at most order - 1 passes over at most
/// order^2 arcs, plus the final check); every label is a sum of at most that many arc weights.  On digraphs with a
/// reachable negative circuit labels really do go down by one arc weight per relaxation, so a bound that only talks
/// about duplicate-free paths (order * b) does NOT prevent overflow of `dist_u + w` there (see the unit's header).
spec fn fits(dg: &Dgi, b: int) -> bool {
    b >= 1 && arcs_bounded(dg, b) && b * cube(dg.ord() as int) < isize::MAX
}
spec fn sums_fit(dg: &Dgi) -> bool { exists|b: int| fits(dg, b) }
/// bound on |label| after t relaxations
spec fn limit(t: int, b: int) -> int { t * b }

proof fn lemma_limit_step(t: int, b: int)
    ensures limit(t + 1, b) == limit(t, b) + b,
{
    assert((t + 1) * b == t * b + b) by (nonlinear_arith);
}
proof fn lemma_limit_fits(dg: &Dgi, b: int, t: int)
    requires fits(dg, b), 0 <= t <= cube(dg.ord() as int),
    ensures 0 <= limit(t, b) < isize::MAX,
{
    let c = cube(dg.ord() as int);
    assert(0 <= t * b <= b * c) by (nonlinear_arith) requires 0 <= t <= c, b >= 1;
}
/// x relaxations done, x <= k * m with k <= n - 1 passes over m <= n^2 arcs: one more still fits the budget n^3
proof fn lemma_budget(n: int, m: int, k: int, x: int)
    requires 1 <= n, 0 <= m <= n * n, 0 <= k <= n - 1, 0 <= x <= k * m,
    ensures x + 1 <= cube(n), m <= cube(n),
{
    assert(k * m <= (n - 1) * (n * n)) by (nonlinear_arith) requires 0 <= m <= n * n, 0 <= k <= n - 1;
    assert((n - 1) * (n * n) == n * n * n - n * n) by (nonlinear_arith);
    assert(n * n >= 1) by (nonlinear_arith) requires n >= 1;
    assert(n * n <= n * n * n) by (nonlinear_arith) requires n >= 1;
}
proof fn lemma_mul_step(k: int, m: int, kk: int)
    requires 0 <= m, k + 1 <= kk,
    ensures (k + 1) * m == k * m + m, (k + 1) * m <= kk * m,
{
    assert((k + 1) * m == k * m + m) by (nonlinear_arith);
    assert((k + 1) * m <= kk * m) by (nonlinear_arith) requires 0 <= m, k + 1 <= kk;
}

// ---- the collected arc list ----
/// the ArcsWeighted::arcs_weighted contract over the collected vector: every item is an arc with its weight, every
/// arc occurs, no arc occurs twice
spec fn arc_list_ok<'b>(dg: &Dgi, arcs: Seq<WArc<'b>>) -> bool {
    &&& forall|i: int| 0 <= i < arcs.len() ==> dg.has((#[trigger] arcs[i]).0 as int, arcs[i].1 as int)
            && *arcs[i].2 == dg.wt(arcs[i].0 as int, arcs[i].1 as int)
    &&& forall|u: int, v: int| #[trigger] dg.has(u, v) ==> exists|i: int| 0 <= i < arcs.len() && (#[trigger] arcs[i]).0 == u && arcs[i].1 == v
    &&& forall|i: int, j: int| 0 <= i < j < arcs.len() ==> !((#[trigger] arcs[i]).0 == (#[trigger] arcs[j]).0 && arcs[i].1 == arcs[j].1)
}
/// a duplicate-free sequence of integers from [0, n) has at most n elements
proof fn lemma_pigeon(q: Seq<int>, n: int)
    requires q.no_duplicates(), n >= 0, forall|i: int| 0 <= i < q.len() ==> 0 <= #[trigger] q[i] < n,
    ensures q.len() <= n,
{
    q.unique_seq_to_set();
    vstd::set_lib::lemma_int_range(0, n);
    let r = vstd::set_lib::set_int_range(0, n);
    assert(q.to_set().subset_of(r)) by {
        assert forall|x: int| q.to_set().contains(x) implies #[trigger] r.contains(x) by {
            let i = choose|i: int| 0 <= i < q.len() && q[i] == x;
            assert(0 <= q[i] < n);
        }
    }
    vstd::set_lib::lemma_len_subset(q.to_set(), r);
}
proof fn lemma_pair_inj(a: int, b: int, u: int, v: int, n: int)
    requires 0 <= a < n, 0 <= b < n, 0 <= u < n, 0 <= v < n, a * n + b == u * n + v,
    ensures a == u && b == v,
{
    assert(a == u) by (nonlinear_arith)
        requires 0 <= a < n, 0 <= b < n, 0 <= u < n, 0 <= v < n, a * n + b == u * n + v;
}
proof fn lemma_arc_count<'b>(dg: &Dgi, arcs: Seq<WArc<'b>>)
    requires dg.wf(), arc_list_ok(dg, arcs),
    ensures arcs.len() <= dg.ord() * dg.ord(),
{
    let n = dg.ord() as int;
    let keys = Seq::new(arcs.len(), |i: int| arcs[i].0 as int * n + arcs[i].1 as int);
    assert forall|i: int| 0 <= i < keys.len() implies 0 <= #[trigger] keys[i] < n * n by {
        let a = arcs[i];
        assert(dg.has(a.0 as int, a.1 as int));
        let x = a.0 as int; let y = a.1 as int;
        assert(0 <= x * n + y < n * n) by (nonlinear_arith) requires 0 <= x < n, 0 <= y < n;
    }
    assert forall|i: int, j: int| 0 <= i < keys.len() && 0 <= j < keys.len() && i != j implies keys[i] != keys[j] by {
        let a = arcs[i]; let c = arcs[j];
        assert(dg.has(a.0 as int, a.1 as int) && dg.has(c.0 as int, c.1 as int));
        if keys[i] == keys[j] {
            lemma_pair_inj(a.0 as int, a.1 as int, c.0 as int, c.1 as int, n);
            if i < j { assert(!(arcs[i].0 == arcs[j].0 && arcs[i].1 == arcs[j].1)); }
            else { assert(!(arcs[j].0 == arcs[i].0 && arcs[j].1 == arcs[i].1)); }
        }
    }
    assert(n * n >= 0) by (nonlinear_arith);
    lemma_pigeon(keys, n * n);
}

// ---- labels ----
/// a finite label is the weight of some walk from s and is bounded by lim in absolute value
spec fn vert_ok(dg: &Dgi, d: Seq<isize>, s: int, lim: int, v: int) -> bool {
    d[v] != isize::MAX ==> -lim <= d[v] <= lim && has_witness(has_of(dg), wt_of(dg), src1(s), v, d[v] as int)
}
spec fn base_inv(dg: &Dgi, d: Seq<isize>, s: int, lim: int) -> bool {
    &&& dg.wf()
    &&& d.len() == dg.ord()
    &&& 0 <= s < d.len()
    &&& d[s] <= 0
    &&& forall|v: int| 0 <= v < d.len() ==> #[trigger] vert_ok(dg, d, s, lim, v)
}
/// state as built by `new(digraph, s)`
spec fn fresh_at(d: Seq<isize>, s: int) -> bool {
    0 <= s < d.len() && d[s] == 0 && forall|v: int| 0 <= v < d.len() && v != s ==> #[trigger] d[v] == isize::MAX
}
spec fn is_fresh(d: Seq<isize>) -> bool { exists|s: int| fresh_at(d, s) }
/// the source a fresh state was built for
spec fn src_of(d: Seq<isize>) -> int { choose|s: int| fresh_at(d, s) }
proof fn lemma_fresh_unique(d: Seq<isize>, s: int)
    requires fresh_at(d, s),
    ensures is_fresh(d), src_of(d) == s,
{
    let s2 = src_of(d);
    assert(fresh_at(d, s2));
    if s2 != s { assert(d[s2] == isize::MAX); }
}
spec fn walk_to(dg: &Dgi, s: int, p: Seq<int>) -> bool { walk_from_to(has_of(dg), src1(s), p.last(), p) }
/// every walk from s with at most k arcs weighs at least the label of its end vertex (which is finite)
spec fn kbound(dg: &Dgi, d: Seq<isize>, s: int, k: int) -> bool {
    forall|p: Seq<int>| #[trigger] walk_to(dg, s, p) && p.len() <= k + 1
        ==> 0 <= p.last() < d.len() && d[p.last()] != isize::MAX && d[p.last()] <= walk_weight(wt_of(dg), p)
}
proof fn lemma_fresh_inv(dg: &Dgi, d: Seq<isize>, s: int)
    requires dg.wf(), d.len() == dg.ord(), fresh_at(d, s),
    ensures base_inv(dg, d, s, 0), kbound(dg, d, s, 0),
{
    let has = has_of(dg); let w = wt_of(dg);
    lemma_walk_single(has, w, s);
    assert(walk_from_to(has, src1(s), s, seq![s]));
    assert forall|v: int| 0 <= v < d.len() implies #[trigger] vert_ok(dg, d, s, 0, v) by {
        if v != s { assert(d[v] == isize::MAX); }
    }
    assert forall|p: Seq<int>| #[trigger] walk_to(dg, s, p) && p.len() <= 1
        implies 0 <= p.last() < d.len() && d[p.last()] != isize::MAX && d[p.last()] <= walk_weight(w, p) by {
        assert(p[0] == s);
    }
}

// ---- one pass over the arc list ----
/// arc a has been relaxed since the labels were d0
spec fn relaxed<'b>(d0: Seq<isize>, d: Seq<isize>, a: WArc<'b>) -> bool {
    d0[a.0 as int] != isize::MAX ==> d[a.1 as int] != isize::MAX && d[a.1 as int] <= d0[a.0 as int] + *a.2
}
/// arc a cannot be relaxed (what the final loop checks)
spec fn tight<'b>(d: Seq<isize>, a: WArc<'b>) -> bool {
    d[a.0 as int] != isize::MAX ==> d[a.1 as int] <= d[a.0 as int] + *a.2
}
spec fn all_tight<'b>(d: Seq<isize>, arcs: Seq<WArc<'b>>) -> bool {
    forall|k: int| 0 <= k < arcs.len() ==> tight(d, #[trigger] arcs[k])
}
spec fn relax_changes<'b>(d: Seq<isize>, a: WArc<'b>) -> bool {
    d[a.0 as int] != isize::MAX && d[a.1 as int] > d[a.0 as int] + *a.2
}
/// the effect of one relaxation block of the source on the labels
spec fn relax_result<'b>(d: Seq<isize>, a: WArc<'b>) -> Seq<isize> {
    if relax_changes(d, a) { d.update(a.1 as int, (d[a.0 as int] + *a.2) as isize) } else { d }
}
/// state of a pass that started with labels d0, after the arcs with index < j have been relaxed in order:
/// labels only went down, each of those arcs (u, v) has been relaxed against (at least) the old label of u,
/// and `updated` is still false only if nothing changed
spec fn pass_inv<'b>(dg: &Dgi, arcs: Seq<WArc<'b>>, s: int, d0: Seq<isize>, d: Seq<isize>, j: int, lim: int, updated: bool) -> bool {
    &&& base_inv(dg, d, s, lim)
    &&& d0.len() == d.len()
    &&& 0 <= j <= arcs.len()
    &&& forall|v: int| 0 <= v < d.len() ==> (#[trigger] d[v]) <= d0[v]
    &&& forall|k: int| 0 <= k < j ==> relaxed(d0, d, #[trigger] arcs[k])
    &&& (!updated ==> d == d0)
}
/// what must hold before the block for arc i runs: endpoints index the label table, the sum does not overflow
proof fn lemma_step_pre<'b>(dg: &Dgi, arcs: Seq<WArc<'b>>, s: int, b: int, d: Seq<isize>, t: int, i: int)
    requires
        base_inv(dg, d, s, limit(t, b)), arc_list_ok(dg, arcs), fits(dg, b), 0 <= i < arcs.len(),
        0 <= t, t + 1 <= cube(dg.ord() as int),
    ensures
        arcs[i].0 < d.len(), arcs[i].1 < d.len(),
        0 <= limit(t, b), limit(t, b) + b < isize::MAX,
        d[arcs[i].0 as int] != isize::MAX ==> isize::MIN < d[arcs[i].0 as int] + *arcs[i].2 < isize::MAX,
{
    let a = arcs[i];
    assert(dg.has(a.0 as int, a.1 as int) && *a.2 == dg.wt(a.0 as int, a.1 as int));
    lemma_limit_step(t, b);
    lemma_limit_fits(dg, b, t);
    lemma_limit_fits(dg, b, t + 1);
    assert(vert_ok(dg, d, s, limit(t, b), a.0 as int));
}
proof fn lemma_relax_step<'b>(dg: &Dgi, arcs: Seq<WArc<'b>>, s: int, b: int, d0: Seq<isize>, dpre: Seq<isize>, j: int, lim: int, upre: bool, dpost: Seq<isize>, upost: bool)
    requires
        arc_list_ok(dg, arcs), arcs_bounded(dg, b), b >= 0, lim >= 0, lim + b < isize::MAX,
        pass_inv(dg, arcs, s, d0, dpre, j, lim, upre),
        j < arcs.len(),
        // the block's effect: the labels are those of one relaxation (a block that rewrites an unchanged label is fine),
        // and `updated` is raised at least when a label changed and never lowered
        dpost =~= relax_result(dpre, arcs[j]),
        relax_changes(dpre, arcs[j]) ==> upost,
        upre ==> upost,
    ensures
        pass_inv(dg, arcs, s, d0, dpost, j + 1, lim + b, upost),
{
    let has = has_of(dg); let wt = wt_of(dg);
    let a = arcs[j]; let u = a.0 as int; let v = a.1 as int; let w = *a.2 as int;
    assert(dg.has(u, v) && w == dg.wt(u, v));
    assert(vert_ok(dg, dpre, s, lim, u));
    assert(dpre[u] <= d0[u]);
    if relax_changes(dpre, a) {
        let nv = dpre[u] + w;
        let p = choose|p: Seq<int>| walk_from_to(has, src1(s), u, p) && walk_weight(wt, p) == dpre[u] as int;
        lemma_walk_extend(has, wt, p, v);
        assert(walk_from_to(has, src1(s), v, p.push(v)) && walk_weight(wt, p.push(v)) == nv);
        assert(has_witness(has, wt, src1(s), v, nv));
        assert forall|x: int| 0 <= x < dpost.len() implies #[trigger] vert_ok(dg, dpost, s, lim + b, x) by {
            assert(vert_ok(dg, dpre, s, lim, x));
        }
        assert forall|k: int| 0 <= k < j + 1 implies relaxed(d0, dpost, #[trigger] arcs[k]) by {
            if k < j {
                assert(relaxed(d0, dpre, arcs[k]));
                assert(dg.has(arcs[k].0 as int, arcs[k].1 as int));
            }
        }
    } else {
        assert forall|x: int| 0 <= x < dpost.len() implies #[trigger] vert_ok(dg, dpost, s, lim + b, x) by {
            assert(vert_ok(dg, dpre, s, lim, x));
        }
        assert forall|k: int| 0 <= k < j + 1 implies relaxed(d0, dpost, #[trigger] arcs[k]) by {
            if k < j { assert(relaxed(d0, dpre, arcs[k])); }
        }
    }
}
/// end of a pass: one more arc is covered by the walk bound; a pass without update leaves no relaxable arc
proof fn lemma_pass_end<'b>(dg: &Dgi, arcs: Seq<WArc<'b>>, s: int, d0: Seq<isize>, d: Seq<isize>, lim: int, updated: bool, k: int)
    requires
        arc_list_ok(dg, arcs), pass_inv(dg, arcs, s, d0, d, arcs.len() as int, lim, updated), kbound(dg, d0, s, k), k >= 0,
    ensures
        kbound(dg, d, s, k + 1),
        !updated ==> all_tight(d, arcs),
{
    let has = has_of(dg); let w = wt_of(dg);
    assert forall|p: Seq<int>| #[trigger] walk_to(dg, s, p) && p.len() <= k + 2
        implies 0 <= p.last() < d.len() && d[p.last()] != isize::MAX && d[p.last()] <= walk_weight(w, p) by {
        if p.len() == 1 {
            assert(p[0] == s);
            lemma_walk_single(has, w, s);
            assert(walk_to(dg, s, seq![s]));
            assert(seq![s].last() == s);
            assert(kbound(dg, d0, s, k));
            assert(d[s] <= d0[s]);
        } else {
            lemma_walk_prefix(has, p);
            let q = p.drop_last();
            let u = q.last(); let v = p.last();
            assert(walk_to(dg, s, q));
            assert(dg.has(u, v));
            let i = choose|i: int| 0 <= i < arcs.len() && (#[trigger] arcs[i]).0 == u && arcs[i].1 == v;
            assert(relaxed(d0, d, arcs[i]));
            assert(*arcs[i].2 == dg.wt(u, v));
        }
    }
    if !updated {
        assert forall|i: int| 0 <= i < arcs.len() implies tight(d, #[trigger] arcs[i]) by {
            assert(relaxed(d0, d, arcs[i]));
        }
    }
}

// ---- what the result means (C07) ----
spec fn closed_walk(has: ArcRel, c: Seq<int>) -> bool { is_walk(has, c) && c.len() >= 2 && c[0] == c.last() }
/// some closed walk of negative weight passes through a vertex that is reachable from a source (the most general
/// reading of "a negative-weight circuit is reachable": used as the hypothesis of "returns None")
spec fn neg_closed_walk_reachable(has: ArcRel, w: ArcW, srcs: Set<int>) -> bool {
    exists|c: Seq<int>| #[trigger] closed_walk(has, c) && walk_weight(w, c) < 0 && reachable(has, srcs, c[0])
}
/// a closed walk that repeats no vertex except first == last
spec fn simple_cycle(has: ArcRel, c: Seq<int>) -> bool { closed_walk(has, c) && c.drop_last().no_duplicates() }
/// some vertex-simple cycle of negative weight is reachable from a source (the narrowest reading of "negative-weight
/// circuit": its absence is used as the hypothesis of "returns Some")
spec fn neg_cycle_reachable(has: ArcRel, w: ArcW, srcs: Set<int>) -> bool {
    exists|c: Seq<int>| #[trigger] simple_cycle(has, c) && walk_weight(w, c) < 0 && reachable(has, srcs, c[0])
}
/// C07, second sentence, for the result table d and source s
spec fn c07_some(dg: &Dgi, s: int, d: Seq<isize>) -> bool {
    &&& d.len() == dg.ord()
    &&& forall|v: int| 0 <= v < d.len() ==> (d[v] == isize::MAX <==> !#[trigger] reachable(has_of(dg), src1(s), v))
    &&& forall|v: int| 0 <= v < d.len() && d[v] != isize::MAX ==> #[trigger] is_min_walk_weight(has_of(dg), wt_of(dg), src1(s), v, d[v] as int)
}
/// along any walk inside r a feasible potential rises at most by the walk's weight
proof fn lemma_potential_along(has: ArcRel, w: ArcW, srcs: Set<int>, r: Set<int>, d: spec_fn(int) -> int, p: Seq<int>)
    requires feasible(has, w, srcs, r, d), is_walk(has, p), r.contains(p[0]),
    ensures r.contains(p.last()), d(p.last()) <= d(p[0]) + walk_weight(w, p),
    decreases p.len(),
{
    if p.len() > 1 {
        lemma_walk_prefix(has, p);
        lemma_potential_along(has, w, srcs, r, d, p.drop_last());
    }
}
/// a feasible potential excludes reachable negative closed walks
proof fn lemma_no_neg_closed(has: ArcRel, w: ArcW, srcs: Set<int>, r: Set<int>, d: spec_fn(int) -> int)
    requires feasible(has, w, srcs, r, d),
    ensures !neg_closed_walk_reachable(has, w, srcs),
{
    if neg_closed_walk_reachable(has, w, srcs) {
        let c = choose|c: Seq<int>| #[trigger] closed_walk(has, c) && walk_weight(w, c) < 0 && reachable(has, srcs, c[0]);
        lemma_lower_bound_at(has, w, srcs, r, d, c[0]);
        lemma_potential_along(has, w, srcs, r, d, c);
    }
}
/// no relaxable arc ==> the labels are a feasible potential on the labelled vertices ==> C07's statement about Some(d)
proof fn lemma_sound<'b>(dg: &Dgi, arcs: Seq<WArc<'b>>, s: int, b: int, d: Seq<isize>, lim: int)
    requires
        base_inv(dg, d, s, lim), arc_list_ok(dg, arcs), all_tight(d, arcs), arcs_bounded(dg, b), lim + b < isize::MAX,
    ensures
        c07_some(dg, s, d),
        !neg_closed_walk_reachable(has_of(dg), wt_of(dg), src1(s)),
{
    let has = has_of(dg); let w = wt_of(dg); let srcs = src1(s);
    let r = vstd::set_lib::set_int_range(0, d.len() as int).filter(|v: int| d[v] != isize::MAX);
    let pot = |v: int| d[v] as int;
    assert forall|x: int, y: int| r.contains(x) && #[trigger] has(x, y) implies r.contains(y) && pot(y) <= pot(x) + w(x, y) by {
        assert(dg.has(x, y));
        let i = choose|i: int| 0 <= i < arcs.len() && (#[trigger] arcs[i]).0 == x && arcs[i].1 == y;
        assert(tight(d, arcs[i]));
        assert(*arcs[i].2 == dg.wt(x, y));
        assert(vert_ok(dg, d, s, lim, x));
    }
    assert(feasible(has, w, srcs, r, pot));
    assert forall|v: int| #[trigger] r.contains(v) implies has_witness(has, w, srcs, v, pot(v)) by {
        assert(vert_ok(dg, d, s, lim, v));
    }
    lemma_certificate(has, w, srcs, r, pot);
    lemma_no_neg_closed(has, w, srcs, r, pot);
    assert forall|v: int| 0 <= v < d.len() implies (d[v] == isize::MAX <==> !#[trigger] reachable(has, srcs, v)) by {
        assert(r.contains(v) <==> reachable(has, srcs, v));
    }
    assert forall|v: int| 0 <= v < d.len() && d[v] != isize::MAX implies #[trigger] is_min_walk_weight(has, w, srcs, v, d[v] as int) by {
        assert(r.contains(v));
    }
}

// ---- completeness: without a reachable negative cycle n - 1 passes suffice ----
proof fn lemma_weight_split(w: ArcW, p: Seq<int>, i: int)
    requires 0 <= i < p.len(),
    ensures walk_weight(w, p) == walk_weight(w, p.take(i + 1)) + walk_weight(w, p.skip(i)),
    decreases p.len(),
{
    if i == p.len() - 1 {
        assert(p.take(i + 1) =~= p);
    } else {
        let q = p.drop_last();
        lemma_weight_split(w, q, i);
        assert(q.take(i + 1) =~= p.take(i + 1));
        assert(p.skip(i).drop_last() =~= q.skip(i));
    }
}
proof fn lemma_subwalk(has: ArcRel, p: Seq<int>, i: int, j: int)
    requires is_walk(has, p), 0 <= i <= j < p.len(),
    ensures is_walk(has, p.subrange(i, j + 1)),
{
    let q = p.subrange(i, j + 1);
    assert forall|k: int| 0 <= k < q.len() - 1 implies #[trigger] step_ok(has, q, k) by { assert(step_ok(has, p, i + k)); }
}
proof fn lemma_walk_in_range(dg: &Dgi, s: int, p: Seq<int>)
    requires dg.wf(), 0 <= s < dg.ord(), walk_to(dg, s, p),
    ensures forall|i: int| 0 <= i < p.len() ==> 0 <= #[trigger] p[i] < dg.ord(),
{
    assert forall|i: int| 0 <= i < p.len() implies 0 <= #[trigger] p[i] < dg.ord() by {
        if i > 0 { assert(step_ok(has_of(dg), p, i - 1)); assert(dg.has(p[i - 1], p[i])); }
    }
}
/// every walk from s can be replaced by a duplicate-free path to the same vertex that weighs no more
proof fn lemma_shorten(dg: &Dgi, s: int, p: Seq<int>) -> (q: Seq<int>)
    requires walk_to(dg, s, p), !neg_cycle_reachable(has_of(dg), wt_of(dg), src1(s)),
    ensures walk_to(dg, s, q), q.last() == p.last(), q.no_duplicates(), walk_weight(wt_of(dg), q) <= walk_weight(wt_of(dg), p),
    decreases p.len(),
{
    let has = has_of(dg); let w = wt_of(dg); let srcs = src1(s);
    if p.len() == 1 {
        p
    } else {
        lemma_walk_prefix(has, p);
        let p0 = p.drop_last();
        assert(walk_to(dg, s, p0));
        let q0 = lemma_shorten(dg, s, p0);
        let u = q0.last(); let v = p.last();
        assert(has(u, v));
        lemma_walk_extend(has, w, q0, v);
        if !q0.contains(v) {
            let q = q0.push(v);
            assert(q.no_duplicates()) by {
                assert forall|a: int, c: int| 0 <= a < q.len() && 0 <= c < q.len() && a != c implies q[a] != q[c] by {
                    if a < q0.len() && c < q0.len() { assert(q0[a] != q0[c]); }
                    else if a < q0.len() { assert(q0[a] == q[a]); assert(q0.contains(q0[a])); }
                    else { assert(q0[c] == q[c]); assert(q0.contains(q0[c])); }
                }
            }
            q
        } else {
            let i = choose|i: int| 0 <= i < q0.len() && q0[i] == v;
            let q = q0.take(i + 1);
            lemma_subwalk(has, q0, 0, i);
            assert(q0.subrange(0, i + 1) =~= q);
            assert(walk_to(dg, s, q));
            // the cycle cut out
            let tail = q0.skip(i);
            lemma_subwalk(has, q0, i, q0.len() - 1);
            assert(q0.subrange(i, q0.len() as int) =~= tail);
            lemma_walk_extend(has, w, tail, v);
            let c = tail.push(v);
            assert(c.drop_last() =~= tail);
            assert(tail.no_duplicates()) by {
                assert forall|a: int, e: int| 0 <= a < tail.len() && 0 <= e < tail.len() && a != e implies tail[a] != tail[e] by {
                    assert(q0[i + a] != q0[i + e]);
                }
            }
            assert(simple_cycle(has, c));
            assert(walk_from_to(has, srcs, v, q));
            assert(reachable(has, srcs, c[0]));
            assert(walk_weight(w, c) >= 0);
            lemma_weight_split(w, q0, i);
            q
        }
    }
}
/// after order - 1 passes (labels bounded by every walk of at most order - 1 arcs) no arc is relaxable, provided no
/// negative cycle is reachable
proof fn lemma_complete<'b>(dg: &Dgi, arcs: Seq<WArc<'b>>, s: int, d: Seq<isize>, lim: int)
    requires
        base_inv(dg, d, s, lim), arc_list_ok(dg, arcs), kbound(dg, d, s, dg.ord() - 1),
        !neg_cycle_reachable(has_of(dg), wt_of(dg), src1(s)),
    ensures
        all_tight(d, arcs),
{
    let has = has_of(dg); let w = wt_of(dg); let srcs = src1(s);
    assert forall|k: int| 0 <= k < arcs.len() implies tight(d, #[trigger] arcs[k]) by {
        let a = arcs[k]; let u = a.0 as int; let v = a.1 as int;
        assert(dg.has(u, v) && *a.2 == dg.wt(u, v));
        if d[u] != isize::MAX {
            assert(vert_ok(dg, d, s, lim, u));
            let pu = choose|p: Seq<int>| walk_from_to(has, srcs, u, p) && walk_weight(w, p) == d[u] as int;
            lemma_walk_extend(has, w, pu, v);
            let p = pu.push(v);
            assert(walk_to(dg, s, p));
            let q = lemma_shorten(dg, s, p);
            lemma_walk_in_range(dg, s, q);
            lemma_pigeon(q, dg.ord() as int);
        }
    }
}
