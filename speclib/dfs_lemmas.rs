// ---- DFS spec library (all proved; no axioms): false-counting measure, closed sets, the stack/visited invariant of a
// ---- stack-based depth-first search and its step lemmas. Needs speclib/graph.rs.

/// number of `false` entries (= unvisited vertices): the termination measure of a traversal driver
spec fn count_false(s: Seq<bool>) -> nat
    decreases s.len(),
{
    if s.len() == 0 { 0 } else { count_false(s.drop_last()) + if s.last() { 0nat } else { 1nat } }
}

proof fn lemma_count_false_bound(s: Seq<bool>)
    ensures count_false(s) <= s.len(),
    decreases s.len(),
{
    if s.len() > 0 { lemma_count_false_bound(s.drop_last()); }
}

/// flipping one false entry to true decreases the count by exactly one
proof fn lemma_count_false_update(s: Seq<bool>, i: int)
    requires 0 <= i < s.len(), !s[i],
    ensures count_false(s.update(i, true)) + 1 == count_false(s),
    decreases s.len(),
{
    let t = s.update(i, true);
    if i == s.len() - 1 {
        assert(t.drop_last() =~= s.drop_last());
    } else {
        lemma_count_false_update(s.drop_last(), i);
        assert(t.drop_last() =~= s.drop_last().update(i, true));
    }
}

/// a set that contains the sources and is closed under arcs contains every reachable vertex
proof fn lemma_closed_contains_reachable(has: ArcRel, srcs: Set<int>, c: Set<int>, v: int)
    requires
        forall|x: int| #[trigger] srcs.contains(x) ==> c.contains(x),
        forall|a: int, b: int| c.contains(a) && #[trigger] has(a, b) ==> c.contains(b),
        reachable(has, srcs, v),
    ensures
        c.contains(v),
{
    let w = |a: int, b: int| 0int;
    let d = |a: int| 0int;
    assert(feasible(has, w, srcs, c, d));
    lemma_lower_bound_at(has, w, srcs, c, d, v);
}

proof fn lemma_reachable_source(has: ArcRel, srcs: Set<int>, v: int)
    requires srcs.contains(v),
    ensures reachable(has, srcs, v),
{
    lemma_walk_single(has, |a: int, b: int| 0int, v);
    assert(walk_from_to(has, srcs, v, seq![v]));
}

proof fn lemma_reachable_step(has: ArcRel, srcs: Set<int>, q: int, v: int)
    requires reachable(has, srcs, q), has(q, v),
    ensures reachable(has, srcs, v),
{
    let p = choose|p: Seq<int>| walk_from_to(has, srcs, q, p);
    lemma_walk_extend(has, |a: int, b: int| 0int, p, v);
    assert(walk_from_to(has, srcs, v, p.push(v)));
}

/// x occurs on the stack at a position >= k
spec fn on_stack_from(sv: Seq<int>, k: int, x: int) -> bool {
    exists|i: int| k <= i < sv.len() && #[trigger] sv[i] == x
}

/// x is an out-neighbour of a visited vertex
spec fn tree_entry(has: ArcRel, ord: int, vis: Seq<bool>, x: int) -> bool {
    exists|q: int| 0 <= q < ord && vis[q] && #[trigger] has(q, x)
}

/// every arc of a visited vertex leads to a visited vertex
spec fn visited_closed(has: ArcRel, ord: int, vis: Seq<bool>) -> bool {
    forall|q: int, x: int| 0 <= q < ord && vis[q] && #[trigger] has(q, x) ==> 0 <= x < ord && vis[x]
}

spec fn arcs_in_range(has: ArcRel, ord: int) -> bool {
    forall|a: int, b: int| #[trigger] has(a, b) ==> 0 <= a < ord && 0 <= b < ord
}

/// The invariant of a stack-based DFS over vertices 0..ord with arc relation `has`, source set `s`, visited flags `vis`
/// and the vertices `sv` of the stack entries (bottom first). The lowest `k` entries are root entries (sources pushed by
/// `new`), the entries above them are out-neighbours of visited vertices.
spec fn dfs_core(has: ArcRel, ord: int, s: Set<int>, k: int, vis: Seq<bool>, sv: Seq<int>) -> bool {
    &&& arcs_in_range(has, ord)
    &&& vis.len() == ord
    &&& 0 <= k <= sv.len()
    &&& forall|i: int| 0 <= i < sv.len() ==> 0 <= #[trigger] sv[i] < ord
    &&& forall|i: int| 0 <= i < k ==> s.contains(#[trigger] sv[i])
    &&& forall|i: int| k <= i < sv.len() ==> tree_entry(has, ord, vis, #[trigger] sv[i])
    // only reachable vertices are visited
    &&& forall|v: int| 0 <= v < ord && #[trigger] vis[v] ==> reachable(has, s, v)
    // CLOSURE: every unvisited out-neighbour of a visited vertex is on the stack, above the root entries
    &&& forall|q: int, x: int| 0 <= q < ord && vis[q] && #[trigger] has(q, x) && !vis[x] ==> on_stack_from(sv, k, x)
    // every source is in range and visited or still on the stack
    &&& forall|x: int| #[trigger] s.contains(x) ==> 0 <= x < ord && (vis[x] || on_stack_from(sv, 0, x))
}

/// every stack entry is reachable from a source
proof fn lemma_core_stack_reachable(has: ArcRel, ord: int, s: Set<int>, k: int, vis: Seq<bool>, sv: Seq<int>, i: int)
    requires dfs_core(has, ord, s, k, vis, sv), 0 <= i < sv.len(),
    ensures reachable(has, s, sv[i]), 0 <= sv[i] < ord,
{
    if i < k {
        lemma_reachable_source(has, s, sv[i]);
    } else {
        assert(tree_entry(has, ord, vis, sv[i]));
        let q = choose|q: int| 0 <= q < ord && vis[q] && #[trigger] has(q, sv[i]);
        lemma_reachable_step(has, s, q, sv[i]);
    }
}

/// number of root entries left after popping the top of a stack of length n that had k root entries
spec fn roots_after_pop(k: int, n: int) -> int {
    if n == 0 { 0 } else if k < n - 1 { k } else { n - 1 }
}

/// popping an already visited entry preserves the invariant
proof fn lemma_core_pop_visited(has: ArcRel, ord: int, s: Set<int>, k: int, vis: Seq<bool>, sv: Seq<int>)
    requires
        dfs_core(has, ord, s, k, vis, sv),
        sv.len() > 0,
        vis[sv.last()],
    ensures
        dfs_core(has, ord, s, roots_after_pop(k, sv.len() as int), vis, sv.drop_last()),
{
    let n = sv.len() - 1;
    let k2 = roots_after_pop(k, sv.len() as int);
    let sv2 = sv.drop_last();
    assert forall|i: int| k2 <= i < sv2.len() implies tree_entry(has, ord, vis, #[trigger] sv2[i]) by {
        assert(sv2[i] == sv[i]);
    }
    assert forall|q: int, x: int| 0 <= q < ord && vis[q] && #[trigger] has(q, x) && !vis[x] implies on_stack_from(sv2, k2, x) by {
        assert(on_stack_from(sv, k, x));
        let i = choose|i: int| k <= i < sv.len() && #[trigger] sv[i] == x;
        assert(i != n);
        assert(sv2[i] == x);
    }
    assert forall|x: int| #[trigger] s.contains(x) implies 0 <= x < ord && (vis[x] || on_stack_from(sv2, 0, x)) by {
        if !vis[x] {
            assert(on_stack_from(sv, 0, x));
            let i = choose|i: int| 0 <= i < sv.len() && #[trigger] sv[i] == x;
            assert(i != n);
            assert(sv2[i] == x);
        }
    }
    assert forall|i: int| 0 <= i < k2 implies s.contains(#[trigger] sv2[i]) by {
        assert(sv2[i] == sv[i]);
    }
}

/// popping an unvisited entry v, marking it visited and pushing exactly its unvisited out-neighbours preserves the invariant
proof fn lemma_core_push_step(has: ArcRel, ord: int, s: Set<int>, k: int, vis: Seq<bool>, sv: Seq<int>, pushed: Seq<int>)
    requires
        dfs_core(has, ord, s, k, vis, sv),
        sv.len() > 0,
        !vis[sv.last()],
        forall|j: int| 0 <= j < pushed.len() ==> has(sv.last(), #[trigger] pushed[j]) && !vis.update(sv.last(), true)[pushed[j]],
        forall|x: int| #[trigger] has(sv.last(), x) && !vis.update(sv.last(), true)[x] ==> pushed.contains(x),
    ensures
        dfs_core(has, ord, s, roots_after_pop(k, sv.len() as int), vis.update(sv.last(), true), sv.drop_last() + pushed),
{
    let n = sv.len() - 1;
    let v = sv.last();
    let k2 = roots_after_pop(k, sv.len() as int);
    let vis2 = vis.update(v, true);
    let sv2 = sv.drop_last() + pushed;
    lemma_core_stack_reachable(has, ord, s, k, vis, sv, n);
    assert forall|i: int| 0 <= i < sv2.len() implies 0 <= #[trigger] sv2[i] < ord by {
        if i < n { assert(sv2[i] == sv[i]); } else { assert(sv2[i] == pushed[i - n]); assert(has(v, pushed[i - n])); }
    }
    assert forall|i: int| 0 <= i < k2 implies s.contains(#[trigger] sv2[i]) by {
        assert(sv2[i] == sv[i]);
    }
    assert forall|i: int| k2 <= i < sv2.len() implies tree_entry(has, ord, vis2, #[trigger] sv2[i]) by {
        if i < n {
            assert(sv2[i] == sv[i]);
            assert(tree_entry(has, ord, vis, sv[i]));
            let q = choose|q: int| 0 <= q < ord && vis[q] && #[trigger] has(q, sv[i]);
            assert(vis2[q] && has(q, sv2[i]));
        } else {
            assert(sv2[i] == pushed[i - n]);
            assert(vis2[v] && has(v, sv2[i]));
        }
    }
    assert forall|q: int, x: int| 0 <= q < ord && vis2[q] && #[trigger] has(q, x) && !vis2[x] implies on_stack_from(sv2, k2, x) by {
        if q == v {
            assert(pushed.contains(x));
            let j = choose|j: int| 0 <= j < pushed.len() && pushed[j] == x;
            assert(sv2[n + j] == x);
        } else {
            assert(on_stack_from(sv, k, x));
            let i = choose|i: int| k <= i < sv.len() && #[trigger] sv[i] == x;
            assert(i != n);
            assert(sv2[i] == x);
        }
    }
    assert forall|x: int| #[trigger] s.contains(x) implies 0 <= x < ord && (vis2[x] || on_stack_from(sv2, 0, x)) by {
        if !vis2[x] {
            assert(on_stack_from(sv, 0, x));
            let i = choose|i: int| 0 <= i < sv.len() && #[trigger] sv[i] == x;
            assert(i != n);
            assert(sv2[i] == x);
        }
    }
}

/// a root entry is only popped when no visited vertex has an unvisited out-neighbour
proof fn lemma_core_root_closed(has: ArcRel, ord: int, s: Set<int>, k: int, vis: Seq<bool>, sv: Seq<int>)
    requires dfs_core(has, ord, s, k, vis, sv), k == sv.len(),
    ensures visited_closed(has, ord, vis),
{
    assert forall|q: int, x: int| 0 <= q < ord && vis[q] && #[trigger] has(q, x) implies 0 <= x < ord && vis[x] by {
        if !vis[x] { assert(on_stack_from(sv, k, x)); }
    }
}

/// EXHAUSTION: when no unvisited vertex is left on the stack, the visited set is exactly the set of reachable vertices
proof fn lemma_core_exhausted(has: ArcRel, ord: int, s: Set<int>, k: int, vis: Seq<bool>, sv: Seq<int>)
    requires
        dfs_core(has, ord, s, k, vis, sv),
        forall|i: int| 0 <= i < sv.len() ==> vis[#[trigger] sv[i]],
    ensures
        visited_is_reachable(has, ord, s, vis),
{
    let c = vstd::set_lib::set_int_range(0, ord).filter(|v: int| vis[v]);
    assert forall|x: int| #[trigger] s.contains(x) implies c.contains(x) by {
        if !vis[x] {
            assert(on_stack_from(sv, 0, x));
        }
    }
    assert forall|a: int, b: int| c.contains(a) && #[trigger] has(a, b) implies c.contains(b) by {
        if !vis[b] { assert(on_stack_from(sv, k, b)); }
    }
    assert forall|v: int| #[trigger] reachable(has, s, v) implies 0 <= v < ord && vis[v] by {
        lemma_closed_contains_reachable(has, s, c, v);
    }
}

/// PREORDER STEP: the yielded vertex v is a new root (a source, and no visited vertex has an unvisited out-neighbour)
/// or an out-neighbour of an already visited vertex
spec fn preorder_step(has: ArcRel, ord: int, s: Set<int>, vis_before: Seq<bool>, v: int) -> bool {
    ||| (s.contains(v) && visited_closed(has, ord, vis_before))
    ||| tree_entry(has, ord, vis_before, v)
}

/// the top of the stack is a legal preorder step
proof fn lemma_core_top_preorder(has: ArcRel, ord: int, s: Set<int>, k: int, vis: Seq<bool>, sv: Seq<int>)
    requires dfs_core(has, ord, s, k, vis, sv), sv.len() > 0,
    ensures
        preorder_step(has, ord, s, vis, sv.last()),
        k == sv.len() ==> s.contains(sv.last()) && visited_closed(has, ord, vis),
        k < sv.len() ==> tree_entry(has, ord, vis, sv.last()),
        reachable(has, s, sv.last()),
{
    lemma_core_stack_reachable(has, ord, s, k, vis, sv, sv.len() - 1);
    if k == sv.len() {
        lemma_core_root_closed(has, ord, s, k, vis, sv);
        assert(s.contains(sv[sv.len() - 1]));
    } else {
        assert(tree_entry(has, ord, vis, sv[sv.len() - 1]));
    }
}

proof fn lemma_on_stack_mono(a: Seq<int>, b: Seq<int>, k: int)
    requires 0 <= k, a.len() <= b.len(), forall|i: int| 0 <= i < a.len() ==> a[i] == b[i],
    ensures forall|x: int| on_stack_from(a, k, x) ==> on_stack_from(b, k, x),
{
    assert forall|x: int| on_stack_from(a, k, x) implies on_stack_from(b, k, x) by {
        let i = choose|i: int| k <= i < a.len() && #[trigger] a[i] == x;
        assert(b[i] == x);
    }
}

/// x is among the items the iterator has not produced yet
spec fn pending(items: Seq<usize>, from: int, x: usize) -> bool {
    exists|i: int| from <= i < items.len() && #[trigger] items[i] == x
}

// ---- DfsDist: stack entries (x, d) carry the depth d of x in the search forest ----

/// x is an out-neighbour of a visited vertex q whose reported depth is d - 1
spec fn depth_entry(has: ArcRel, ord: int, vis: Seq<bool>, dep: Seq<int>, x: int, d: int) -> bool {
    exists|q: int| 0 <= q < ord && vis[q] && #[trigger] has(q, x) && dep[q] + 1 == d
}

/// `dep[q]` is the depth reported for the visited vertex q; root entries carry 0, the others the depth of a visited
/// in-neighbour plus one
spec fn dist_entries(has: ArcRel, ord: int, k: int, vis: Seq<bool>, dep: Seq<int>, sv: Seq<int>, sd: Seq<int>) -> bool {
    &&& sd.len() == sv.len()
    &&& dep.len() == ord
    &&& forall|i: int| 0 <= i < k && i < sd.len() ==> #[trigger] sd[i] == 0
    &&& forall|i: int| 0 <= k <= i < sd.len() ==> #[trigger] sd[i] > 0 && depth_entry(has, ord, vis, dep, sv[i], sd[i])
}

/// DEPTH STEP: a yielded (v, d) is a new root with d == 0 or the child of a visited vertex of depth d - 1
spec fn dist_step(has: ArcRel, ord: int, s: Set<int>, vis_before: Seq<bool>, dep: Seq<int>, v: int, d: int) -> bool {
    ||| (d == 0 && s.contains(v) && visited_closed(has, ord, vis_before))
    ||| (d > 0 && depth_entry(has, ord, vis_before, dep, v, d))
}

proof fn lemma_dist_pop_visited(has: ArcRel, ord: int, k: int, vis: Seq<bool>, dep: Seq<int>, sv: Seq<int>, sd: Seq<int>)
    requires
        dist_entries(has, ord, k, vis, dep, sv, sd),
        sv.len() > 0,
        0 <= k <= sv.len(),
    ensures
        dist_entries(has, ord, roots_after_pop(k, sv.len() as int), vis, dep, sv.drop_last(), sd.drop_last()),
{
    let k2 = roots_after_pop(k, sv.len() as int);
    let sv2 = sv.drop_last();
    let sd2 = sd.drop_last();
    assert forall|i: int| 0 <= i < k2 && i < sd2.len() implies #[trigger] sd2[i] == 0 by {
        assert(sd2[i] == sd[i]);
    }
    assert forall|i: int| 0 <= k2 <= i < sd2.len() implies #[trigger] sd2[i] > 0 && depth_entry(has, ord, vis, dep, sv2[i], sd2[i]) by {
        assert(sd2[i] == sd[i] && sv2[i] == sv[i]);
    }
}

proof fn lemma_dist_push_step(has: ArcRel, ord: int, k: int, vis: Seq<bool>, dep: Seq<int>, sv: Seq<int>, sd: Seq<int>, pushed: Seq<int>, pd: Seq<int>)
    requires
        dist_entries(has, ord, k, vis, dep, sv, sd),
        sv.len() > 0,
        0 <= k <= sv.len(),
        vis.len() == ord,
        0 <= sv.last() < ord,
        !vis[sv.last()],
        sd.last() >= 0,
        pd.len() == pushed.len(),
        forall|j: int| 0 <= j < pushed.len() ==> has(sv.last(), #[trigger] pushed[j]),
        forall|j: int| 0 <= j < pushed.len() ==> #[trigger] pd[j] == sd.last() + 1,
    ensures
        dist_entries(has, ord, roots_after_pop(k, sv.len() as int), vis.update(sv.last(), true), dep.update(sv.last(), sd.last()),
            sv.drop_last() + pushed, sd.drop_last() + pd),
{
    let n = sv.len() - 1;
    let v = sv.last();
    let d = sd.last();
    let k2 = roots_after_pop(k, sv.len() as int);
    let vis2 = vis.update(v, true);
    let dep2 = dep.update(v, d);
    let sv2 = sv.drop_last() + pushed;
    let sd2 = sd.drop_last() + pd;
    assert forall|i: int| 0 <= i < k2 && i < sd2.len() implies #[trigger] sd2[i] == 0 by {
        assert(sd2[i] == sd[i]);
    }
    assert forall|i: int| 0 <= k2 <= i < sd2.len() implies #[trigger] sd2[i] > 0 && depth_entry(has, ord, vis2, dep2, sv2[i], sd2[i]) by {
        if i < n {
            assert(sd2[i] == sd[i] && sv2[i] == sv[i]);
            assert(depth_entry(has, ord, vis, dep, sv[i], sd[i]));
            let q = choose|q: int| 0 <= q < ord && vis[q] && #[trigger] has(q, sv[i]) && dep[q] + 1 == sd[i];
            assert(q != v);
            assert(vis2[q] && has(q, sv2[i]) && dep2[q] + 1 == sd2[i]);
        } else {
            assert(sd2[i] == pd[i - n] && sv2[i] == pushed[i - n]);
            assert(vis2[v] && has(v, sv2[i]) && dep2[v] + 1 == sd2[i]);
        }
    }
}

/// the top entry (v, d) of the stack is a legal depth step
proof fn lemma_dist_top(has: ArcRel, ord: int, s: Set<int>, k: int, vis: Seq<bool>, dep: Seq<int>, sv: Seq<int>, sd: Seq<int>)
    requires
        dfs_core(has, ord, s, k, vis, sv),
        dist_entries(has, ord, k, vis, dep, sv, sd),
        sv.len() > 0,
    ensures
        dist_step(has, ord, s, vis, dep, sv.last(), sd.last()),
{
    lemma_core_top_preorder(has, ord, s, k, vis, sv);
    let n = sv.len() - 1;
    if k == sv.len() {
        assert(sd[n] == 0);
    } else {
        assert(sd[n] > 0 && depth_entry(has, ord, vis, dep, sv[n], sd[n]));
    }
}

// ---- DfsPred: stack entries (p, x) carry the predecessor p of x in the search forest ----

/// PREDECESSOR STEP: a yielded (None, v) is a new root, a yielded (Some(q), v) is an out-neighbour of the visited vertex q
spec fn pred_step(has: ArcRel, ord: int, s: Set<int>, vis_before: Seq<bool>, p: Option<usize>, v: int) -> bool {
    match p {
        None => s.contains(v) && visited_closed(has, ord, vis_before),
        Some(q) => 0 <= q < ord && vis_before[q as int] && has(q as int, v),
    }
}

/// v was yielded among the first `upto` yields
spec fn in_trace(ys: Seq<(Option<usize>, usize)>, upto: int, v: int) -> bool {
    exists|j: int| 0 <= j < upto && j < ys.len() && (#[trigger] ys[j]).1 as int == v
}

/// `pred` is the forest of the yields `ys` (in order) of a DfsPred run that started with visited flags `vis0` and
/// now has visited flags `vis`
spec fn pred_forest(has: ArcRel, ord: int, vis0: Seq<bool>, vis: Seq<bool>, pred: Seq<Option<usize>>, ys: Seq<(Option<usize>, usize)>) -> bool {
    &&& vis0.len() == ord && vis.len() == ord && pred.len() == ord
    // every yielded vertex was unvisited at the start and is yielded exactly once
    &&& forall|j: int| 0 <= j < ys.len() ==> (#[trigger] ys[j]).1 < ord && !vis0[ys[j].1 as int]
    &&& forall|i: int, j: int| 0 <= i < j < ys.len() ==> (#[trigger] ys[i]).1 != (#[trigger] ys[j]).1
    // visited now = visited at the start + yielded
    &&& forall|v: int| 0 <= v < ord ==> (#[trigger] vis[v] <==> vis0[v] || in_trace(ys, ys.len() as int, v))
    // pred records the reported predecessor of every yielded vertex and None for every other vertex
    &&& forall|j: int| 0 <= j < ys.len() ==> pred[(#[trigger] ys[j]).1 as int] == ys[j].0
    &&& forall|v: int| 0 <= v < ord && !in_trace(ys, ys.len() as int, v) ==> #[trigger] pred[v] is None
    // a reported predecessor q of v has an arc to v and was visited before v (at the start, or yielded earlier): a forest
    &&& forall|j: int| 0 <= j < ys.len() && (#[trigger] ys[j]).0 is Some ==> {
            let q = ys[j].0->0 as int;
            0 <= q < ord && has(q, ys[j].1 as int) && (vis0[q] || in_trace(ys, j, q)) }
}

proof fn lemma_pred_forest_init(has: ArcRel, ord: int, vis0: Seq<bool>)
    requires vis0.len() == ord,
    ensures pred_forest(has, ord, vis0, vis0, Seq::new(ord as nat, |i: int| None::<usize>), Seq::empty()),
{
}

proof fn lemma_pred_forest_step(has: ArcRel, ord: int, vis0: Seq<bool>, vis: Seq<bool>, pred: Seq<Option<usize>>, ys: Seq<(Option<usize>, usize)>, p: Option<usize>, v: usize)
    requires
        pred_forest(has, ord, vis0, vis, pred, ys),
        0 <= v < ord,
        !vis[v as int],
        p is Some ==> 0 <= p->0 < ord && vis[p->0 as int] && has(p->0 as int, v as int),
    ensures
        pred_forest(has, ord, vis0, vis.update(v as int, true), pred.update(v as int, p), ys.push((p, v))),
{
    let vis2 = vis.update(v as int, true);
    let pred2 = pred.update(v as int, p);
    let ys2 = ys.push((p, v));
    let n = ys.len() as int;
    assert(!vis0[v as int] && !in_trace(ys, n, v as int));
    assert forall|j: int| 0 <= j < ys2.len() implies (#[trigger] ys2[j]).1 < ord && !vis0[ys2[j].1 as int] by {
        if j < n { assert(ys2[j] == ys[j]); }
    }
    assert forall|i: int, j: int| 0 <= i < j < ys2.len() implies (#[trigger] ys2[i]).1 != (#[trigger] ys2[j]).1 by {
        assert(ys2[i] == ys[i]);
        if j < n { assert(ys2[j] == ys[j]); } else {
            assert(in_trace(ys, n, ys[i].1 as int));
        }
    }
    assert forall|x: int| in_trace(ys, n, x) implies in_trace(ys2, n + 1, x) by {
        let j = choose|j: int| 0 <= j < n && j < ys.len() && (#[trigger] ys[j]).1 as int == x;
        assert(ys2[j] == ys[j]);
    }
    assert forall|x: int| in_trace(ys2, n + 1, x) implies in_trace(ys, n, x) || x == v by {
        let j = choose|j: int| 0 <= j < n + 1 && j < ys2.len() && (#[trigger] ys2[j]).1 as int == x;
        if j < n { assert(ys2[j] == ys[j]); }
    }
    assert(ys2[n] == (p, v));
    assert(in_trace(ys2, n + 1, v as int));
    assert forall|x: int| 0 <= x < ord implies (#[trigger] vis2[x] <==> vis0[x] || in_trace(ys2, ys2.len() as int, x)) by {
        assert(vis[x] <==> vis0[x] || in_trace(ys, n, x));
    }
    assert forall|j: int| 0 <= j < ys2.len() implies pred2[(#[trigger] ys2[j]).1 as int] == ys2[j].0 by {
        if j < n { assert(ys2[j] == ys[j]); assert(in_trace(ys, n, ys[j].1 as int)); }
    }
    assert forall|x: int| 0 <= x < ord && !in_trace(ys2, ys2.len() as int, x) implies #[trigger] pred2[x] is None by {
        assert(x != v);
        assert(!in_trace(ys, n, x));
        assert(pred[x] is None);
    }
    assert forall|j: int| 0 <= j < ys2.len() && (#[trigger] ys2[j]).0 is Some implies ({
            let q = ys2[j].0->0 as int;
            0 <= q < ord && has(q, ys2[j].1 as int) && (vis0[q] || in_trace(ys2, j, q)) }) by {
        let q = ys2[j].0->0 as int;
        if j < n {
            assert(ys2[j] == ys[j]);
            if !vis0[q] {
                assert(in_trace(ys, j, q));
                let i = choose|i: int| 0 <= i < j && i < ys.len() && (#[trigger] ys[i]).1 as int == q;
                assert(ys2[i] == ys[i]);
            }
        } else {
            assert(vis[q] <==> vis0[q] || in_trace(ys, n, q));
            if !vis0[q] {
                let i = choose|i: int| 0 <= i < n && i < ys.len() && (#[trigger] ys[i]).1 as int == q;
                assert(ys2[i] == ys[i]);
            }
        }
    }
}

/// the visited vertices are exactly the vertices reachable from a source
spec fn visited_is_reachable(has: ArcRel, ord: int, s: Set<int>, vis: Seq<bool>) -> bool {
    forall|v: int| (0 <= v < ord && vis[v]) <==> #[trigger] reachable(has, s, v)
}

// ---- the current search path (stretch part of the preorder definition) ----
// `sp[i]` is the predecessor recorded for stack entry i (None for root entries), `path` the current search path:
// the chain root = path[0] -> path[1] -> ... -> path.last() = the vertex yielded last, each the recorded predecessor of
// the next one.

/// path[j] == q
spec fn on_path(path: Seq<int>, j: int, q: int) -> bool { 0 <= j < path.len() && path[j] == q }

/// position of q on the path
spec fn idx_on(path: Seq<int>, q: int) -> int { choose|j: int| on_path(path, j, q) }

/// (Some(p), x) is a stack entry above the root entries
spec fn entry_on_stack(sv: Seq<int>, sp: Seq<Option<int>>, k: int, p: int, x: int) -> bool {
    exists|i: int| k <= i < sv.len() && #[trigger] sv[i] == x && sp[i] == Some(p)
}

spec fn path_inv(has: ArcRel, ord: int, k: int, vis: Seq<bool>, sv: Seq<int>, sp: Seq<Option<int>>, path: Seq<int>) -> bool {
    &&& sp.len() == sv.len()
    // the path consists of distinct visited vertices
    &&& forall|j: int| 0 <= j < path.len() ==> 0 <= #[trigger] path[j] < ord && vis[path[j]]
    &&& forall|i: int, j: int| 0 <= i < j < path.len() ==> #[trigger] path[i] != #[trigger] path[j]
    // root entries have no predecessor; the predecessor of every other entry is on the path, deeper ones nearer the top
    &&& forall|i: int| 0 <= i < k && i < sp.len() ==> (#[trigger] sp[i]) is None
    &&& forall|i: int| 0 <= k <= i < sp.len() ==> (#[trigger] sp[i]) is Some && on_path(path, idx_on(path, sp[i]->0), sp[i]->0) && has(sp[i]->0, sv[i])
    &&& forall|a: int, b: int| 0 <= k <= a < b < sp.len() ==> idx_on(path, (#[trigger] sp[a])->0) <= idx_on(path, (#[trigger] sp[b])->0)
    // every unvisited out-neighbour x of a path vertex p is on the stack as an entry (Some(p), x)
    &&& forall|j: int, x: int| 0 <= j < path.len() && #[trigger] has(path[j], x) && !vis[x] ==> entry_on_stack(sv, sp, k, path[j], x)
    // a visited vertex that still has an unvisited out-neighbour is on the path
    &&& forall|q: int, x: int| 0 <= q < ord && vis[q] && #[trigger] has(q, x) && !vis[x] ==> on_path(path, idx_on(path, q), q)
}

/// the search path after yielding v with recorded predecessor p
spec fn path_after(path: Seq<int>, p: Option<int>, v: int) -> Seq<int> {
    match p {
        None => seq![v],
        Some(q) => path.take(idx_on(path, q) + 1).push(v),
    }
}

/// DEEPEST STEP: q is on the current search path, v is an out-neighbour of q, and no vertex deeper than q on the path
/// has an unvisited out-neighbour
spec fn deepest_step(has: ArcRel, ord: int, vis_before: Seq<bool>, path: Seq<int>, q: int, v: int) -> bool {
    &&& on_path(path, idx_on(path, q), q)
    &&& has(q, v)
    &&& forall|j2: int, x: int| idx_on(path, q) < j2 < path.len() && #[trigger] has(path[j2], x) ==> 0 <= x < ord && vis_before[x]
}

/// on a path of distinct vertices the position of a vertex is unique
proof fn lemma_idx_on(path: Seq<int>, j: int)
    requires
        0 <= j < path.len(),
        forall|a: int, b: int| 0 <= a < b < path.len() ==> #[trigger] path[a] != #[trigger] path[b],
    ensures
        idx_on(path, path[j]) == j,
{
    assert(on_path(path, j, path[j]));
    let c = idx_on(path, path[j]);
    assert(on_path(path, c, path[j]));
    if c < j { assert(path[c] != path[j]); }
    if j < c { assert(path[j] != path[c]); }
}

proof fn lemma_path_pop_visited(has: ArcRel, ord: int, k: int, vis: Seq<bool>, sv: Seq<int>, sp: Seq<Option<int>>, path: Seq<int>)
    requires
        path_inv(has, ord, k, vis, sv, sp, path),
        sv.len() > 0,
        0 <= k <= sv.len(),
        0 <= sv.last() < ord,
        vis[sv.last()],
    ensures
        path_inv(has, ord, roots_after_pop(k, sv.len() as int), vis, sv.drop_last(), sp.drop_last(), path),
{
    let n = sv.len() - 1;
    let k2 = roots_after_pop(k, sv.len() as int);
    let sv2 = sv.drop_last();
    let sp2 = sp.drop_last();
    assert forall|i: int| 0 <= i < k2 && i < sp2.len() implies (#[trigger] sp2[i]) is None by {
        assert(sp2[i] == sp[i]);
    }
    assert forall|i: int| 0 <= k2 <= i < sp2.len() implies (#[trigger] sp2[i]) is Some && on_path(path, idx_on(path, sp2[i]->0), sp2[i]->0) && has(sp2[i]->0, sv2[i]) by {
        assert(sp2[i] == sp[i] && sv2[i] == sv[i]);
    }
    assert forall|a: int, b: int| 0 <= k2 <= a < b < sp2.len() implies idx_on(path, (#[trigger] sp2[a])->0) <= idx_on(path, (#[trigger] sp2[b])->0) by {
        assert(sp2[a] == sp[a] && sp2[b] == sp[b]);
    }
    assert forall|j: int, x: int| 0 <= j < path.len() && #[trigger] has(path[j], x) && !vis[x] implies entry_on_stack(sv2, sp2, k2, path[j], x) by {
        assert(entry_on_stack(sv, sp, k, path[j], x));
        let i = choose|i: int| k <= i < sv.len() && #[trigger] sv[i] == x && sp[i] == Some(path[j]);
        assert(i != n);
        assert(sv2[i] == x && sp2[i] == sp[i]);
    }
}

proof fn lemma_path_push_step(has: ArcRel, ord: int, k: int, vis: Seq<bool>, sv: Seq<int>, sp: Seq<Option<int>>, path: Seq<int>, pushed: Seq<int>)
    requires
        path_inv(has, ord, k, vis, sv, sp, path),
        arcs_in_range(has, ord),
        vis.len() == ord,
        sv.len() > 0,
        0 <= k <= sv.len(),
        0 <= sv.last() < ord,
        !vis[sv.last()],
        forall|j: int| 0 <= j < pushed.len() ==> has(sv.last(), #[trigger] pushed[j]) && !vis.update(sv.last(), true)[pushed[j]],
        forall|x: int| #[trigger] has(sv.last(), x) && !vis.update(sv.last(), true)[x] ==> pushed.contains(x),
    ensures
        path_inv(has, ord, roots_after_pop(k, sv.len() as int), vis.update(sv.last(), true), sv.drop_last() + pushed,
            sp.drop_last() + Seq::new(pushed.len(), |i: int| Some(sv.last())), path_after(path, sp.last(), sv.last())),
        sp.last() is None <==> k == sv.len(),
        sp.last() is None ==> visited_closed(has, ord, vis),
        sp.last() is Some ==> deepest_step(has, ord, vis, path, sp.last()->0, sv.last()),
{
    let n = sv.len() - 1;
    let v = sv.last();
    let p = sp.last();
    let k2 = roots_after_pop(k, sv.len() as int);
    let vis2 = vis.update(v, true);
    let sv2 = sv.drop_last() + pushed;
    let newp = Seq::new(pushed.len(), |i: int| Some(v));
    let sp2 = sp.drop_last() + newp;
    let path2 = path_after(path, p, v);
    assert(sp[n] == p && sv[n] == v);
    assert forall|i: int| 0 <= i < n implies sv2[i] == sv[i] && sp2[i] == sp[i] by {}
    assert forall|i: int| n <= i < sv2.len() implies sv2[i] == pushed[i - n] && sp2[i] == Some(v) by {
        assert(sp2[i] == newp[i - n]);
    }
    if k == sv.len() {
        lemma_path_push_root(has, ord, k, vis, sv, sp, path, pushed);
    } else {
        lemma_path_push_tree(has, ord, k, vis, sv, sp, path, pushed);
    }
}

/// root case of lemma_path_push_step
proof fn lemma_path_push_root(has: ArcRel, ord: int, k: int, vis: Seq<bool>, sv: Seq<int>, sp: Seq<Option<int>>, path: Seq<int>, pushed: Seq<int>)
    requires
        path_inv(has, ord, k, vis, sv, sp, path),
        arcs_in_range(has, ord),
        vis.len() == ord,
        sv.len() > 0,
        k == sv.len(),
        0 <= sv.last() < ord,
        !vis[sv.last()],
        forall|j: int| 0 <= j < pushed.len() ==> has(sv.last(), #[trigger] pushed[j]) && !vis.update(sv.last(), true)[pushed[j]],
        forall|x: int| #[trigger] has(sv.last(), x) && !vis.update(sv.last(), true)[x] ==> pushed.contains(x),
    ensures
        path_inv(has, ord, sv.len() - 1, vis.update(sv.last(), true), sv.drop_last() + pushed,
            sp.drop_last() + Seq::new(pushed.len(), |i: int| Some(sv.last())), seq![sv.last()]),
        sp.last() is None,
        visited_closed(has, ord, vis),
{
    let n = sv.len() - 1;
    let v = sv.last();
    let k2 = n;
    let vis2 = vis.update(v, true);
    let sv2 = sv.drop_last() + pushed;
    let newp = Seq::new(pushed.len(), |i: int| Some(v));
    let sp2 = sp.drop_last() + newp;
    let path2 = seq![v];
    assert(sp[n] is None);
    assert forall|i: int| 0 <= i < n implies sv2[i] == sv[i] && sp2[i] == sp[i] by {}
    assert forall|i: int| n <= i < sv2.len() implies sv2[i] == pushed[i - n] && sp2[i] == Some(v) by {
        assert(sp2[i] == newp[i - n]);
    }
    assert forall|q: int, x: int| 0 <= q < ord && vis[q] && #[trigger] has(q, x) implies 0 <= x < ord && vis[x] by {
        if !vis[x] {
            let j = idx_on(path, q);
            assert(on_path(path, j, q));
            assert(has(path[j], x));
            assert(entry_on_stack(sv, sp, k, path[j], x));
        }
    }
    assert(on_path(path2, 0, v));
    lemma_idx_on(path2, 0);
    assert forall|i: int| 0 <= i < k2 && i < sp2.len() implies (#[trigger] sp2[i]) is None by {
        assert(sp2[i] == sp[i]);
    }
    assert forall|i: int| 0 <= k2 <= i < sp2.len() implies (#[trigger] sp2[i]) is Some && on_path(path2, idx_on(path2, sp2[i]->0), sp2[i]->0) && has(sp2[i]->0, sv2[i]) by {
        assert(sp2[i] == Some(v) && sv2[i] == pushed[i - n]);
    }
    assert forall|a: int, b: int| 0 <= k2 <= a < b < sp2.len() implies idx_on(path2, (#[trigger] sp2[a])->0) <= idx_on(path2, (#[trigger] sp2[b])->0) by {
        assert(sp2[a] == Some(v) && sp2[b] == Some(v));
    }
    assert forall|j: int, x: int| 0 <= j < path2.len() && #[trigger] has(path2[j], x) && !vis2[x] implies entry_on_stack(sv2, sp2, k2, path2[j], x) by {
        assert(pushed.contains(x));
        let jj = choose|jj: int| 0 <= jj < pushed.len() && pushed[jj] == x;
        assert(sv2[n + jj] == x && sp2[n + jj] == Some(v));
    }
    assert forall|q: int, x: int| 0 <= q < ord && vis2[q] && #[trigger] has(q, x) && !vis2[x] implies on_path(path2, idx_on(path2, q), q) by {
        if q != v { assert(vis[q] && has(q, x)); }
    }
}

/// tree case of lemma_path_push_step
proof fn lemma_path_push_tree(has: ArcRel, ord: int, k: int, vis: Seq<bool>, sv: Seq<int>, sp: Seq<Option<int>>, path: Seq<int>, pushed: Seq<int>)
    requires
        path_inv(has, ord, k, vis, sv, sp, path),
        arcs_in_range(has, ord),
        vis.len() == ord,
        sv.len() > 0,
        0 <= k < sv.len(),
        0 <= sv.last() < ord,
        !vis[sv.last()],
        forall|j: int| 0 <= j < pushed.len() ==> has(sv.last(), #[trigger] pushed[j]) && !vis.update(sv.last(), true)[pushed[j]],
        forall|x: int| #[trigger] has(sv.last(), x) && !vis.update(sv.last(), true)[x] ==> pushed.contains(x),
    ensures
        sp.last() is Some,
        path_inv(has, ord, k, vis.update(sv.last(), true), sv.drop_last() + pushed,
            sp.drop_last() + Seq::new(pushed.len(), |i: int| Some(sv.last())), path.take(idx_on(path, sp.last()->0) + 1).push(sv.last())),
        deepest_step(has, ord, vis, path, sp.last()->0, sv.last()),
{
    let n = sv.len() - 1;
    let v = sv.last();
    let vis2 = vis.update(v, true);
    let sv2 = sv.drop_last() + pushed;
    let newp = Seq::new(pushed.len(), |i: int| Some(v));
    let sp2 = sp.drop_last() + newp;
    assert(sp[n] is Some && on_path(path, idx_on(path, sp[n]->0), sp[n]->0) && has(sp[n]->0, sv[n]));
    let q = sp[n]->0;
    let j = idx_on(path, q);
    let path2 = path.take(j + 1).push(v);
    assert forall|i: int| 0 <= i < n implies sv2[i] == sv[i] && sp2[i] == sp[i] by {}
    assert forall|i: int| n <= i < sv2.len() implies sv2[i] == pushed[i - n] && sp2[i] == Some(v) by {
        assert(sp2[i] == newp[i - n]);
    }
    // DEEPEST: no vertex deeper than q on the path has an unvisited out-neighbour
    assert forall|j2: int, x: int| j < j2 < path.len() && #[trigger] has(path[j2], x) implies 0 <= x < ord && vis[x] by {
        if !vis[x] {
            assert(entry_on_stack(sv, sp, k, path[j2], x));
            let i = choose|i: int| k <= i < sv.len() && #[trigger] sv[i] == x && sp[i] == Some(path[j2]);
            lemma_idx_on(path, j2);
            if i < n {
                assert(idx_on(path, sp[i]->0) <= idx_on(path, sp[n]->0));
            } else {
                assert(path[j2] == q);
            }
        }
    }
    // the new path: distinct visited vertices, positions
    assert forall|a: int| 0 <= a <= j implies path2[a] == path[a] by {}
    assert(path2[j + 1] == v);
    assert forall|a: int, b: int| 0 <= a < b < path2.len() implies #[trigger] path2[a] != #[trigger] path2[b] by {
        if b == j + 1 { assert(vis[path[a]]); } else { assert(path[a] != path[b]); }
    }
    assert forall|a: int| 0 <= a < path2.len() implies idx_on(path2, #[trigger] path2[a]) == a by {
        lemma_idx_on(path2, a);
    }
    assert forall|a: int| 0 <= a < path.len() implies idx_on(path, #[trigger] path[a]) == a by {
        lemma_idx_on(path, a);
    }
    assert forall|i: int| 0 <= i < k && i < sp2.len() implies (#[trigger] sp2[i]) is None by {
        assert(sp2[i] == sp[i]);
    }
    assert forall|i: int| 0 <= k <= i < sp2.len() implies (#[trigger] sp2[i]) is Some && on_path(path2, idx_on(path2, sp2[i]->0), sp2[i]->0) && has(sp2[i]->0, sv2[i]) by {
        if i < n {
            assert(sp2[i] == sp[i] && sv2[i] == sv[i]);
            let ji = idx_on(path, sp[i]->0);
            assert(on_path(path, ji, sp[i]->0));
            assert(ji <= idx_on(path, sp[n]->0));
            assert(path2[ji] == path[ji]);
            assert(idx_on(path2, path2[ji]) == ji);
        } else {
            assert(sp2[i] == Some(v) && sv2[i] == pushed[i - n]);
            assert(idx_on(path2, path2[j + 1]) == j + 1);
        }
    }
    assert forall|a: int, b: int| 0 <= k <= a < b < sp2.len() implies idx_on(path2, (#[trigger] sp2[a])->0) <= idx_on(path2, (#[trigger] sp2[b])->0) by {
        assert(idx_on(path2, path2[j + 1]) == j + 1);
        if b < n {
            assert(sp2[a] == sp[a] && sp2[b] == sp[b]);
            let ja = idx_on(path, sp[a]->0);
            let jb = idx_on(path, sp[b]->0);
            assert(on_path(path, ja, sp[a]->0) && on_path(path, jb, sp[b]->0));
            assert(ja <= jb);
            assert(jb <= idx_on(path, sp[n]->0));
            assert(path2[ja] == path[ja] && path2[jb] == path[jb]);
            assert(idx_on(path2, path2[ja]) == ja && idx_on(path2, path2[jb]) == jb);
        } else {
            assert(sp2[b] == Some(v));
            if a < n {
                assert(sp2[a] == sp[a]);
                let ja = idx_on(path, sp[a]->0);
                assert(on_path(path, ja, sp[a]->0));
                assert(ja <= idx_on(path, sp[n]->0));
                assert(path2[ja] == path[ja]);
                assert(idx_on(path2, path2[ja]) == ja);
            } else {
                assert(sp2[a] == Some(v));
            }
        }
    }
    assert forall|j3: int, x: int| 0 <= j3 < path2.len() && #[trigger] has(path2[j3], x) && !vis2[x] implies entry_on_stack(sv2, sp2, k, path2[j3], x) by {
        if j3 == j + 1 {
            assert(pushed.contains(x));
            let jj = choose|jj: int| 0 <= jj < pushed.len() && pushed[jj] == x;
            assert(sv2[n + jj] == x && sp2[n + jj] == Some(v));
        } else {
            assert(path2[j3] == path[j3]);
            assert(has(path[j3], x) && !vis[x]);
            assert(entry_on_stack(sv, sp, k, path[j3], x));
            let i = choose|i: int| k <= i < sv.len() && #[trigger] sv[i] == x && sp[i] == Some(path[j3]);
            assert(i != n);
            assert(sv2[i] == x && sp2[i] == sp[i]);
        }
    }
    assert forall|q2: int, x: int| 0 <= q2 < ord && vis2[q2] && #[trigger] has(q2, x) && !vis2[x] implies on_path(path2, idx_on(path2, q2), q2) by {
        if q2 == v {
            assert(idx_on(path2, path2[j + 1]) == j + 1);
        } else {
            assert(vis[q2] && !vis[x]);
            let j2 = idx_on(path, q2);
            assert(on_path(path, j2, q2));
            if j2 > j { assert(has(path[j2], x)); }
            assert(path2[j2] == path[j2]);
            assert(idx_on(path2, path2[j2]) == j2);
        }
    }
    assert forall|a: int| 0 <= a < path2.len() implies 0 <= #[trigger] path2[a] < ord && vis2[path2[a]] by {
        if a <= j { assert(path2[a] == path[a]); }
    }
}

/// SEARCH STEP (the preorder definition of C06): v is yielded as a new root (p is None: v is a source and no visited
/// vertex has an unvisited out-neighbour) or as an out-neighbour of p = the deepest vertex on the current search path
/// that still has an unvisited out-neighbour
spec fn search_step(has: ArcRel, ord: int, s: Set<int>, vis_before: Seq<bool>, path: Seq<int>, p: Option<int>, v: int) -> bool {
    match p {
        None => s.contains(v) && visited_closed(has, ord, vis_before),
        Some(q) => deepest_step(has, ord, vis_before, path, q, v),
    }
}

/// DfsDist: the depth carried by a stack entry is the number of path vertices down to its recorded predecessor
spec fn depth_labels(k: int, sp: Seq<Option<int>>, sd: Seq<int>, path: Seq<int>) -> bool {
    &&& sd.len() == sp.len()
    &&& forall|i: int| 0 <= i < k && i < sd.len() ==> #[trigger] sd[i] == 0
    &&& forall|i: int| 0 <= k <= i < sd.len() ==> #[trigger] sd[i] == idx_on(path, sp[i]->0) + 1
}

proof fn lemma_depth_pop_visited(k: int, sp: Seq<Option<int>>, sd: Seq<int>, path: Seq<int>)
    requires depth_labels(k, sp, sd, path), sd.len() > 0, 0 <= k <= sd.len(),
    ensures depth_labels(roots_after_pop(k, sd.len() as int), sp.drop_last(), sd.drop_last(), path),
{
    let k2 = roots_after_pop(k, sd.len() as int);
    let sp2 = sp.drop_last();
    let sd2 = sd.drop_last();
    assert forall|i: int| 0 <= i < k2 && i < sd2.len() implies #[trigger] sd2[i] == 0 by { assert(sd2[i] == sd[i]); }
    assert forall|i: int| 0 <= k2 <= i < sd2.len() implies #[trigger] sd2[i] == idx_on(path, sp2[i]->0) + 1 by {
        assert(sd2[i] == sd[i] && sp2[i] == sp[i]);
    }
}

/// the depth of the yielded entry is the length of the new search path minus one; pushed entries carry that depth + 1
proof fn lemma_depth_push_step(has: ArcRel, ord: int, k: int, vis: Seq<bool>, sv: Seq<int>, sp: Seq<Option<int>>, sd: Seq<int>, path: Seq<int>, npush: nat)
    requires
        path_inv(has, ord, k, vis, sv, sp, path),
        depth_labels(k, sp, sd, path),
        sv.len() > 0,
        0 <= k <= sv.len(),
        !vis[sv.last()],
    ensures
        sd.last() == path_after(path, sp.last(), sv.last()).len() - 1,
        depth_labels(roots_after_pop(k, sv.len() as int), sp.drop_last() + Seq::new(npush, |i: int| Some(sv.last())),
            sd.drop_last() + Seq::new(npush, |i: int| sd.last() + 1), path_after(path, sp.last(), sv.last())),
{
    let n = sv.len() - 1;
    let v = sv.last();
    let d = sd.last();
    let k2 = roots_after_pop(k, sv.len() as int);
    let newp = Seq::new(npush, |i: int| Some(v));
    let newd = Seq::new(npush, |i: int| d + 1);
    let sp2 = sp.drop_last() + newp;
    let sd2 = sd.drop_last() + newd;
    let path2 = path_after(path, sp.last(), v);
    assert forall|i: int| 0 <= i < n implies sp2[i] == sp[i] && sd2[i] == sd[i] by {}
    assert forall|i: int| n <= i < sd2.len() implies sp2[i] == Some(v) && sd2[i] == d + 1 by {
        assert(sp2[i] == newp[i - n] && sd2[i] == newd[i - n]);
    }
    if k == sv.len() {
        assert(sp[n] is None && sd[n] == 0);
        assert(path2 =~= seq![v]);
        assert(on_path(path2, 0, v));
        lemma_idx_on(path2, 0);
        assert forall|i: int| 0 <= i < k2 && i < sd2.len() implies #[trigger] sd2[i] == 0 by {}
        assert forall|i: int| 0 <= k2 <= i < sd2.len() implies #[trigger] sd2[i] == idx_on(path2, sp2[i]->0) + 1 by {
            assert(sp2[i] == Some(v));
        }
    } else {
        assert(k2 == k);
        assert(sp[n] is Some && on_path(path, idx_on(path, sp[n]->0), sp[n]->0));
        let q = sp[n]->0;
        let j = idx_on(path, q);
        assert(sd[n] == j + 1);
        assert(path2 =~= path.take(j + 1).push(v));
        assert forall|a: int| 0 <= a <= j implies path2[a] == path[a] by {}
        assert(path2[j + 1] == v);
        assert forall|a: int, b: int| 0 <= a < b < path2.len() implies #[trigger] path2[a] != #[trigger] path2[b] by {
            if b == j + 1 { assert(vis[path[a]]); } else { assert(path[a] != path[b]); }
        }
        lemma_idx_on(path2, j + 1);
        assert forall|i: int| 0 <= i < k2 && i < sd2.len() implies #[trigger] sd2[i] == 0 by {}
        assert forall|i: int| 0 <= k2 <= i < sd2.len() implies #[trigger] sd2[i] == idx_on(path2, sp2[i]->0) + 1 by {
            if i < n {
                let ji = idx_on(path, sp[i]->0);
                assert(sp[i] is Some && on_path(path, ji, sp[i]->0));
                assert(ji <= idx_on(path, sp[n]->0));
                assert(path2[ji] == path[ji]);
                lemma_idx_on(path2, ji);
                assert(sd[i] == ji + 1);
            } else {
                assert(sp2[i] == Some(v));
            }
        }
    }
}
