// ---- Tarjan SCC spec library (all proved; no axioms). Needs speclib/graph.rs. ----
// Abstract state of src/algo/tarjan.rs over mathematical integers, the global invariant `tinv`, the frame predicates of one
// `connect(u)` call (`tpre` / `cinv` / `tpost`) and the step lemmas.

/// b is reachable from a
spec fn reach(has: ArcRel, a: int, b: int) -> bool { reachable(has, set![a], b) }

proof fn lemma_reach_refl(has: ArcRel, a: int)
    ensures reach(has, a, a),
{
    lemma_walk_single(has, |x: int, y: int| 0int, a);
    assert(walk_from_to(has, set![a], a, seq![a]));
}

proof fn lemma_reach_arc(has: ArcRel, a: int, b: int)
    requires has(a, b),
    ensures reach(has, a, b),
{
    let p = seq![a];
    lemma_walk_single(has, |x: int, y: int| 0int, a);
    lemma_walk_extend(has, |x: int, y: int| 0int, p, b);
    assert(walk_from_to(has, set![a], b, p.push(b)));
}

proof fn lemma_walk_concat(has: ArcRel, p: Seq<int>, q: Seq<int>)
    requires is_walk(has, p), is_walk(has, q), p.last() == q[0],
    ensures exists|r: Seq<int>| #[trigger] is_walk(has, r) && r[0] == p[0] && r.last() == q.last(),
    decreases q.len(),
{
    if q.len() == 1 {
        assert(is_walk(has, p) && p[0] == p[0] && p.last() == q.last());
    } else {
        lemma_walk_prefix(has, q);
        let q2 = q.drop_last();
        lemma_walk_concat(has, p, q2);
        let r = choose|r: Seq<int>| #[trigger] is_walk(has, r) && r[0] == p[0] && r.last() == q2.last();
        lemma_walk_extend(has, |x: int, y: int| 0int, r, q.last());
        let r2 = r.push(q.last());
        assert(is_walk(has, r2) && r2[0] == p[0] && r2.last() == q.last());
    }
}

proof fn lemma_reach_trans(has: ArcRel, a: int, b: int, c: int)
    requires reach(has, a, b), reach(has, b, c),
    ensures reach(has, a, c),
{
    let p = choose|p: Seq<int>| walk_from_to(has, set![a], b, p);
    let q = choose|q: Seq<int>| walk_from_to(has, set![b], c, q);
    lemma_walk_concat(has, p, q);
    let r = choose|r: Seq<int>| #[trigger] is_walk(has, r) && r[0] == p[0] && r.last() == q.last();
    assert(walk_from_to(has, set![a], c, r));
}

proof fn lemma_reach_then_arc(has: ArcRel, a: int, b: int, c: int)
    requires reach(has, a, b), has(b, c),
    ensures reach(has, a, c),
{
    lemma_reach_arc(has, b, c);
    lemma_reach_trans(has, a, b, c);
}

ghost struct TS {
    i: int,
    stk: Seq<int>,
    ons: Set<int>,
    idx: Map<int, int>,
    low: Map<int, int>,
    comps: Seq<Set<int>>,
}

spec fn imin(a: int, b: int) -> int { if a <= b { a } else { b } }

spec fn in_comps(comps: Seq<Set<int>>, x: int) -> bool { exists|j: int| 0 <= j < comps.len() && (#[trigger] comps[j]).contains(x) }

/// y lies in one of the components 0..=j
spec fn comp_le(comps: Seq<Set<int>>, j: int, y: int) -> bool { exists|k: int| 0 <= k <= j && k < comps.len() && (#[trigger] comps[k]).contains(y) }

spec fn on_stk(stk: Seq<int>, x: int) -> bool { exists|p: int| 0 <= p < stk.len() && #[trigger] stk[p] == x }

spec fn nonempty(c: Set<int>) -> bool { exists|x: int| c.contains(x) }

/// STRUCTURE (stage 2): stack without duplicates, on_stack = its entries, indexed = on_stack + union of components
/// (disjoint), components pairwise disjoint and non-empty, index values < i, stack ordered by increasing index
spec fn inv_struct(verts: Set<int>, s: TS) -> bool {
    &&& s.stk.no_duplicates()
    &&& forall|x: int| #![trigger s.ons.contains(x)] #![trigger on_stk(s.stk, x)] s.ons.contains(x) <==> on_stk(s.stk, x)
    &&& s.idx.dom().len() == s.i
    &&& s.low.dom() == s.idx.dom()
    &&& forall|x: int| #[trigger] s.idx.contains_key(x) ==> verts.contains(x) && 0 <= s.idx[x] < s.i && (s.ons.contains(x) || in_comps(s.comps, x))
    &&& forall|x: int| #[trigger] s.ons.contains(x) ==> s.idx.contains_key(x) && !in_comps(s.comps, x)
    &&& forall|x: int| #[trigger] in_comps(s.comps, x) ==> s.idx.contains_key(x)
    &&& forall|j: int, k: int, x: int| 0 <= j < k < s.comps.len() && #[trigger] s.comps[j].contains(x) ==> !#[trigger] s.comps[k].contains(x)
    &&& forall|j: int| 0 <= j < s.comps.len() ==> nonempty(#[trigger] s.comps[j])
    &&& forall|p: int, q: int| 0 <= p < q < s.stk.len() ==> s.idx[#[trigger] s.stk[p]] < s.idx[#[trigger] s.stk[q]]
}

/// arcs out of component j lead into components 0..=j (components are emitted in reverse topological order)
spec fn topo(has: ArcRel, comps: Seq<Set<int>>) -> bool {
    forall|j: int, x: int, y: int| #![trigger comps[j].contains(x), has(x, y)] 0 <= j < comps.len() && comps[j].contains(x) && has(x, y) ==> comp_le(comps, j, y)
}

/// any two members of a component are mutually reachable
spec fn sound(has: ArcRel, comps: Seq<Set<int>>) -> bool {
    forall|j: int, a: int, b: int| #![trigger comps[j].contains(a), comps[j].contains(b)] 0 <= j < comps.len() && comps[j].contains(a) && comps[j].contains(b) ==> reach(has, a, b)
}

/// REACHABILITY (stages 3, 4): earlier stack entries reach later ones; soundness and topological order of the components
spec fn inv_reach(has: ArcRel, s: TS) -> bool {
    &&& forall|p: int, q: int| 0 <= p <= q < s.stk.len() ==> reach(has, #[trigger] s.stk[p], #[trigger] s.stk[q])
    &&& topo(has, s.comps)
    &&& sound(has, s.comps)
}

#[verifier::opaque]
spec fn tinv(has: ArcRel, verts: Set<int>, s: TS) -> bool {
    &&& forall|a: int, b: int| #[trigger] has(a, b) ==> verts.contains(a) && verts.contains(b)
    &&& inv_struct(verts, s)
    &&& inv_reach(has, s)
}

/// x was indexed after state s0
spec fn newly(s0: TS, s: TS, x: int) -> bool { s.idx.contains_key(x) && !s0.idx.contains_key(x) }

spec fn outs_indexed(has: ArcRel, s: TS, x: int) -> bool { forall|y: int| #[trigger] has(x, y) ==> s.idx.contains_key(y) }

/// what a (partial) run of connect leaves untouched
spec fn mono(s0: TS, s: TS) -> bool {
    &&& forall|x: int| #[trigger] s0.idx.contains_key(x) ==> s.idx.contains_key(x) && s.idx[x] == s0.idx[x] && s.low[x] == s0.low[x]
    &&& forall|x: int| #[trigger] s.idx.contains_key(x) && !s0.idx.contains_key(x) ==> s.idx[x] >= s0.i
    &&& s0.i <= s.i
    &&& s0.comps.len() <= s.comps.len()
    &&& forall|j: int| 0 <= j < s0.comps.len() ==> #[trigger] s.comps[j] == s0.comps[j]
    &&& s0.stk.len() <= s.stk.len()
    &&& forall|p: int| 0 <= p < s0.stk.len() ==> #[trigger] s.stk[p] == s0.stk[p]
    &&& forall|p: int| s0.stk.len() <= p < s.stk.len() ==> !s0.idx.contains_key(#[trigger] s.stk[p])
}

/// precondition of connect(u)
#[verifier::opaque]
spec fn tpre(has: ArcRel, verts: Set<int>, s0: TS, u: int) -> bool {
    &&& tinv(has, verts, s0)
    &&& verts.contains(u)
    &&& !s0.idx.contains_key(u)
    &&& forall|p: int| 0 <= p < s0.stk.len() ==> reach(has, #[trigger] s0.stk[p], u)
}

/// state inside connect(u) after k of the out-neighbours nb have been processed (s0 = state at entry)
spec fn cinv_body(has: ArcRel, verts: Set<int>, s0: TS, s: TS, u: int, nb: Seq<int>, k: int) -> bool {
    let n0 = s0.stk.len() as int;
    &&& tinv(has, verts, s) && mono(s0, s)
    &&& s.stk.len() > n0 && s.stk[n0] == u && !s0.idx.contains_key(u) && s.idx.contains_key(u) && s.idx[u] == s0.i
    &&& forall|x: int| #[trigger] newly(s0, s, x) && x != u ==> outs_indexed(has, s, x)
    &&& 0 <= k <= nb.len()
    &&& forall|j: int| 0 <= j < k ==> s.idx.contains_key(#[trigger] nb[j])
    &&& forall|j: int| 0 <= j < nb.len() ==> has(u, #[trigger] nb[j])
    // F: everything above u reaches u
    &&& forall|p: int| n0 < p < s.stk.len() ==> reach(has, #[trigger] s.stk[p], u)
    // LR: low_link[u] is the index of a stack entry not above u that u reaches
    &&& exists|p: int| 0 <= p <= n0 && s.low[u] == s.idx[#[trigger] s.stk[p]] && reach(has, u, s.stk[p])
    // E: arcs from the new part of the stack (resp. the processed arcs of u) into the old stack bound low_link[u]
    &&& forall|p: int, q: int| n0 < p < s.stk.len() && 0 <= q < n0 && has(#[trigger] s.stk[p], #[trigger] s.stk[q]) ==> s.low[u] <= s.idx[s.stk[q]]
    &&& forall|j: int, q: int| 0 <= j < k && 0 <= q < n0 && #[trigger] nb[j] == #[trigger] s.stk[q] ==> s.low[u] <= s.idx[s.stk[q]]
}

#[verifier::opaque]
spec fn cinv(has: ArcRel, verts: Set<int>, s0: TS, s: TS, u: int, nb: Seq<int>, k: int) -> bool {
    cinv_body(has, verts, s0, s, u, nb, k)
}

/// postcondition of connect(u)
spec fn tpost_body(has: ArcRel, verts: Set<int>, s0: TS, s1: TS, u: int) -> bool {
    let n0 = s0.stk.len() as int;
    &&& tinv(has, verts, s1) && mono(s0, s1)
    &&& s1.idx.contains_key(u) && s1.idx[u] == s0.i && !s0.idx.contains_key(u)
    &&& forall|x: int| #[trigger] newly(s0, s1, x) ==> outs_indexed(has, s1, x)
    // either u's component was emitted (stack as before) or u stays on the stack with a low-link below it
    &&& ({
        ||| (s1.stk.len() == n0 && s1.low[u] == s1.idx[u])
        ||| (s1.stk.len() > n0 && s1.stk[n0] == u
              && (exists|p: int| 0 <= p < n0 && s1.low[u] == s1.idx[#[trigger] s1.stk[p]] && reach(has, u, s1.stk[p]))
              && (forall|p: int| n0 <= p < s1.stk.len() ==> reach(has, #[trigger] s1.stk[p], u)))
    })
    &&& forall|p: int, q: int| n0 <= p < s1.stk.len() && 0 <= q < n0 && has(#[trigger] s1.stk[p], #[trigger] s1.stk[q]) ==> s1.low[u] <= s1.idx[s1.stk[q]]
}

#[verifier::opaque]
spec fn tpost(has: ArcRel, verts: Set<int>, s0: TS, s1: TS, u: int) -> bool {
    tpost_body(has, verts, s0, s1, u)
}

spec fn with_low(s: TS, u: int, l: int) -> TS { TS { low: s.low.insert(u, l), ..s } }

/// state after the five statements at the start of connect(u)
spec fn pushed(s0: TS, u: int) -> TS {
    TS { i: s0.i + 1, stk: s0.stk.push(u), ons: s0.ons.insert(u), idx: s0.idx.insert(u, s0.i), low: s0.low.insert(u, s0.i), comps: s0.comps }
}

/// `self.i += 1` cannot overflow: i = number of indexed vertices < |V|
proof fn lemma_pre_facts(has: ArcRel, verts: Set<int>, s0: TS, u: int)
    requires tpre(has, verts, s0, u),
    ensures s0.i + 1 <= verts.len(), 0 <= s0.i, verts.contains(u), !s0.idx.contains_key(u), !s0.low.contains_key(u),
{
    reveal(tpre); reveal(tinv);
    let d = s0.idx.dom().insert(u);
    assert(d.subset_of(verts));
    vstd::set_lib::lemma_len_subset(d, verts);
}

proof fn lemma_on_stk_push(stk: Seq<int>, u: int)
    ensures forall|x: int| #[trigger] on_stk(stk.push(u), x) <==> on_stk(stk, x) || x == u,
{
    let s2 = stk.push(u);
    assert forall|x: int| #[trigger] on_stk(s2, x) <==> on_stk(stk, x) || x == u by {
        if on_stk(stk, x) {
            let p = choose|p: int| 0 <= p < stk.len() && #[trigger] stk[p] == x;
            assert(s2[p] == x);
        }
        if x == u { assert(s2[stk.len() as int] == u); }
        if on_stk(s2, x) {
            let p = choose|p: int| 0 <= p < s2.len() && #[trigger] s2[p] == x;
            if p < stk.len() { assert(stk[p] == x); }
        }
    }
}

proof fn lemma_push_struct(verts: Set<int>, s0: TS, u: int)
    requires inv_struct(verts, s0), verts.contains(u), !s0.idx.contains_key(u),
    ensures inv_struct(verts, pushed(s0, u)),
{
    let s = pushed(s0, u);
    let n0 = s0.stk.len() as int;
    lemma_on_stk_push(s0.stk, u);
    assert(!s0.ons.contains(u));
    assert(!on_stk(s0.stk, u));
    assert(s.stk.no_duplicates()) by {
        assert forall|a: int, b: int| 0 <= a < s.stk.len() && 0 <= b < s.stk.len() && a != b implies s.stk[a] != s.stk[b] by {
            if a < n0 && b < n0 { assert(s0.stk[a] != s0.stk[b]); }
            else if a < n0 { assert(s0.stk[a] == s.stk[a]); assert(on_stk(s0.stk, s0.stk[a])); }
            else { assert(s0.stk[b] == s.stk[b]); assert(on_stk(s0.stk, s0.stk[b])); }
        }
    }
    assert(s.idx.dom() =~= s0.idx.dom().insert(u));
    assert(s.low.dom() =~= s.idx.dom());
    assert forall|x: int| #[trigger] s.idx.contains_key(x) implies verts.contains(x) && 0 <= s.idx[x] < s.i && (s.ons.contains(x) || in_comps(s.comps, x)) by {
        if x != u { assert(s0.idx.contains_key(x)); }
    }
    assert forall|x: int| #[trigger] s.ons.contains(x) implies s.idx.contains_key(x) && !in_comps(s.comps, x) by {
        if x != u { assert(s0.ons.contains(x)); } else { if in_comps(s0.comps, u) { assert(s0.idx.contains_key(u)); } }
    }
    assert forall|p: int, q: int| 0 <= p < q < s.stk.len() implies s.idx[#[trigger] s.stk[p]] < s.idx[#[trigger] s.stk[q]] by {
        assert(s.stk[p] == s0.stk[p]);
        assert(on_stk(s0.stk, s0.stk[p]));
        assert(s0.ons.contains(s0.stk[p]));
        assert(s0.idx.contains_key(s0.stk[p]));
        if q < n0 {
            assert(s.stk[q] == s0.stk[q]);
            assert(on_stk(s0.stk, s0.stk[q]));
            assert(s0.ons.contains(s0.stk[q]));
        }
    }
}

/// the first five statements of connect(u) establish the loop invariant
proof fn lemma_push(has: ArcRel, verts: Set<int>, s0: TS, u: int, nb: Seq<int>)
    requires
        tpre(has, verts, s0, u),
        forall|j: int| 0 <= j < nb.len() ==> has(u, #[trigger] nb[j]),
    ensures
        cinv(has, verts, s0, pushed(s0, u), u, nb, 0),
{
    reveal(tpre); reveal(tinv); reveal(cinv);
    let s = pushed(s0, u);
    let n0 = s0.stk.len() as int;
    lemma_push_struct(verts, s0, u);
    lemma_reach_refl(has, u);
    assert forall|p: int, q: int| 0 <= p <= q < s.stk.len() implies reach(has, #[trigger] s.stk[p], #[trigger] s.stk[q]) by {
        if q < n0 { assert(s.stk[p] == s0.stk[p] && s.stk[q] == s0.stk[q]); }
        else if p < n0 { assert(s.stk[p] == s0.stk[p]); }
    }
    assert(inv_reach(has, s));
    assert(mono(s0, s)) by {
        assert forall|x: int| #[trigger] s0.idx.contains_key(x) implies s.idx.contains_key(x) && s.idx[x] == s0.idx[x] && s.low[x] == s0.low[x] by {}
    }
    assert(s.stk[n0] == u);
    assert(s.low[u] == s.idx[s.stk[n0]] && reach(has, u, s.stk[n0]));
    assert forall|x: int| #[trigger] newly(s0, s, x) && x != u implies outs_indexed(has, s, x) by {}
}

/// facts the code needs inside the neighbour loop (every `low_link[&u]` hits an existing key; termination measure)
proof fn lemma_cinv_facts(has: ArcRel, verts: Set<int>, s0: TS, s: TS, u: int, nb: Seq<int>, k: int)
    requires cinv(has, verts, s0, s, u, nb, k),
    ensures
        s.low.contains_key(u), s.idx.contains_key(u), s.idx[u] == s0.i, s0.i < s.i, 0 <= k <= nb.len(), s.i <= verts.len(),
        forall|x: int| #[trigger] s.ons.contains(x) ==> s.idx.contains_key(x),
        s.low.dom() == s.idx.dom(),
{
    reveal(cinv); reveal(tinv);
    vstd::set_lib::lemma_len_subset(s.idx.dom(), verts);
}

/// position of an on-stack vertex
proof fn lemma_stack_pos(verts: Set<int>, s: TS, v: int) -> (q: int)
    requires inv_struct(verts, s), s.ons.contains(v),
    ensures 0 <= q < s.stk.len(), s.stk[q] == v,
{
    assert(on_stk(s.stk, v));
    choose|p: int| 0 <= p < s.stk.len() && #[trigger] s.stk[p] == v
}

/// every stack entry is indexed
proof fn lemma_stack_indexed(verts: Set<int>, s: TS, p: int)
    requires inv_struct(verts, s), 0 <= p < s.stk.len(),
    ensures s.idx.contains_key(s.stk[p]), s.ons.contains(s.stk[p]), 0 <= s.idx[s.stk[p]] < s.i,
{
    assert(on_stk(s.stk, s.stk[p]));
}

/// the stack is ordered by index: a smaller index means a lower position
proof fn lemma_stack_order(verts: Set<int>, s: TS, p: int, q: int)
    requires inv_struct(verts, s), 0 <= p < s.stk.len(), 0 <= q < s.stk.len(), s.idx[s.stk[p]] < s.idx[s.stk[q]],
    ensures p < q,
{
    if q < p { assert(s.idx[s.stk[q]] < s.idx[s.stk[p]]); }
}

/// arc u -> v with v indexed and on the stack: low_link[u] := min(low_link[u], index[v])
proof fn lemma_edge_onstack(has: ArcRel, verts: Set<int>, s0: TS, s: TS, u: int, nb: Seq<int>, k: int)
    requires
        cinv(has, verts, s0, s, u, nb, k),
        0 <= k < nb.len(),
        s.idx.contains_key(nb[k]),
        s.ons.contains(nb[k]),
    ensures
        cinv(has, verts, s0, with_low(s, u, imin(s.low[u], s.idx[nb[k]])), u, nb, k + 1),
{
    reveal(cinv); reveal(tinv);
    let v = nb[k];
    let l = imin(s.low[u], s.idx[v]);
    let s2 = with_low(s, u, l);
    let n0 = s0.stk.len() as int;
    assert(s2.low.dom() =~= s.low.dom());
    assert(inv_struct(verts, s2));
    assert(inv_reach(has, s2));
    assert(mono(s0, s2));
    let qv = lemma_stack_pos(verts, s, v);
    let p0 = choose|p: int| 0 <= p <= n0 && s.low[u] == s.idx[#[trigger] s.stk[p]] && reach(has, u, s.stk[p]);
    lemma_stack_indexed(verts, s, p0);
    lemma_stack_indexed(verts, s, n0);
    // low_link[u] <= index[u]
    if p0 < n0 { assert(s.idx[s.stk[p0]] < s.idx[s.stk[n0]]); }
    if s.idx[v] < s.low[u] {
        lemma_stack_order(verts, s, qv, n0);
        lemma_reach_arc(has, u, v);
        assert(0 <= qv <= n0 && s2.low[u] == s2.idx[s2.stk[qv]] && reach(has, u, s2.stk[qv]));
    } else {
        assert(0 <= p0 <= n0 && s2.low[u] == s2.idx[s2.stk[p0]] && reach(has, u, s2.stk[p0]));
    }
    assert forall|j: int, q: int| 0 <= j < k + 1 && 0 <= q < n0 && #[trigger] nb[j] == #[trigger] s2.stk[q] implies s2.low[u] <= s2.idx[s2.stk[q]] by {
        if j < k { assert(s.low[u] <= s.idx[s.stk[q]]); }
    }
    assert forall|x: int| #[trigger] newly(s0, s2, x) && x != u implies outs_indexed(has, s2, x) by {
        assert(newly(s0, s, x));
        assert(outs_indexed(has, s, x));
    }
}

/// arc u -> v with v indexed and no longer on the stack: nothing changes
proof fn lemma_edge_done(has: ArcRel, verts: Set<int>, s0: TS, s: TS, u: int, nb: Seq<int>, k: int)
    requires
        cinv(has, verts, s0, s, u, nb, k),
        0 <= k < nb.len(),
        s.idx.contains_key(nb[k]),
        !s.ons.contains(nb[k]),
    ensures
        cinv(has, verts, s0, s, u, nb, k + 1),
{
    reveal(cinv); reveal(tinv);
    let n0 = s0.stk.len() as int;
    assert forall|j: int, q: int| 0 <= j < k + 1 && 0 <= q < n0 && #[trigger] nb[j] == #[trigger] s.stk[q] implies s.low[u] <= s.idx[s.stk[q]] by {
        if j == k { lemma_stack_indexed(verts, s, q); }
    }
}

/// arc u -> v with v not indexed: the recursive call is allowed, and the measure decreases
proof fn lemma_call_pre(has: ArcRel, verts: Set<int>, s0: TS, s: TS, u: int, nb: Seq<int>, k: int)
    requires
        cinv(has, verts, s0, s, u, nb, k),
        0 <= k < nb.len(),
        !s.idx.contains_key(nb[k]),
    ensures
        tpre(has, verts, s, nb[k]),
        s0.i < s.i,
{
    reveal(cinv); reveal(tinv); reveal(tpre);
    let v = nb[k];
    let n0 = s0.stk.len() as int;
    assert(has(u, v));
    lemma_reach_refl(has, u);
    assert forall|p: int| 0 <= p < s.stk.len() implies reach(has, #[trigger] s.stk[p], v) by {
        if p <= n0 { assert(reach(has, s.stk[p], s.stk[n0])); }
        lemma_reach_then_arc(has, s.stk[p], u, v);
    }
}

/// arc u -> v with v not indexed: after `connect(v)` and `low_link[u] := min(low_link[u], low_link[v])`
proof fn lemma_after_call(has: ArcRel, verts: Set<int>, s0: TS, s: TS, s2: TS, u: int, nb: Seq<int>, k: int)
    requires
        cinv(has, verts, s0, s, u, nb, k),
        0 <= k < nb.len(),
        !s.idx.contains_key(nb[k]),
        tpost(has, verts, s, s2, nb[k]),
    ensures
        s2.low.contains_key(u),
        s2.low.contains_key(nb[k]),
        cinv(has, verts, s0, with_low(s2, u, imin(s2.low[u], s2.low[nb[k]])), u, nb, k + 1),
{
    reveal(cinv); reveal(tinv); reveal(tpost);
    let v = nb[k];
    let l = imin(s2.low[u], s2.low[v]);
    let s3 = with_low(s2, u, l);
    let n0 = s0.stk.len() as int;
    let n1 = s.stk.len() as int;
    assert(s2.idx.contains_key(u) && s2.low[u] == s.low[u] && s2.idx[u] == s.idx[u]);
    assert(s3.low.dom() =~= s2.low.dom());
    assert(inv_struct(verts, s3));
    assert(inv_reach(has, s3));
    assert(mono(s0, s3)) by {
        assert forall|x: int| #[trigger] s0.idx.contains_key(x) implies s3.idx.contains_key(x) && s3.idx[x] == s0.idx[x] && s3.low[x] == s0.low[x] by {
            assert(s.idx.contains_key(x));
        }
        assert forall|x: int| #[trigger] s3.idx.contains_key(x) && !s0.idx.contains_key(x) implies s3.idx[x] >= s0.i by {
            if s.idx.contains_key(x) { assert(s2.idx[x] == s.idx[x]); }
        }
        assert forall|j: int| 0 <= j < s0.comps.len() implies #[trigger] s3.comps[j] == s0.comps[j] by {
            assert(s.comps[j] == s0.comps[j]);
        }
        assert forall|p: int| 0 <= p < s0.stk.len() implies #[trigger] s3.stk[p] == s0.stk[p] by {
            assert(s.stk[p] == s0.stk[p]);
        }
        assert forall|p: int| s0.stk.len() <= p < s3.stk.len() implies !s0.idx.contains_key(#[trigger] s3.stk[p]) by {
            if p < n1 { assert(s2.stk[p] == s.stk[p]); } else { assert(!s.idx.contains_key(s2.stk[p])); }
        }
    }
    assert(s3.stk[n0] == u) by { assert(s2.stk[n0] == s.stk[n0]); }
    assert forall|x: int| #[trigger] newly(s0, s3, x) && x != u implies outs_indexed(has, s3, x) by {
        if s.idx.contains_key(x) {
            assert(newly(s0, s, x));
            assert(outs_indexed(has, s, x));
            assert forall|y: int| #[trigger] has(x, y) implies s3.idx.contains_key(y) by { assert(s.idx.contains_key(y)); }
        } else {
            assert(newly(s, s2, x));
            assert(outs_indexed(has, s2, x));
        }
    }
    assert forall|j: int| 0 <= j < k + 1 implies s3.idx.contains_key(#[trigger] nb[j]) by {
        if j < k { assert(s.idx.contains_key(nb[j])); }
    }
    lemma_after_call_reach(has, verts, s0, s, s2, u, nb, k);
}

/// the reachability part (F, LR, E) of lemma_after_call
proof fn lemma_after_call_reach(has: ArcRel, verts: Set<int>, s0: TS, s: TS, s2: TS, u: int, nb: Seq<int>, k: int)
    requires
        cinv(has, verts, s0, s, u, nb, k),
        0 <= k < nb.len(),
        !s.idx.contains_key(nb[k]),
        tpost(has, verts, s, s2, nb[k]),
    ensures
        ({
            let s3 = with_low(s2, u, imin(s2.low[u], s2.low[nb[k]]));
            let n0 = s0.stk.len() as int;
            &&& forall|p: int| n0 < p < s3.stk.len() ==> reach(has, #[trigger] s3.stk[p], u)
            &&& exists|p: int| 0 <= p <= n0 && s3.low[u] == s3.idx[#[trigger] s3.stk[p]] && reach(has, u, s3.stk[p])
            &&& forall|p: int, q: int| n0 < p < s3.stk.len() && 0 <= q < n0 && has(#[trigger] s3.stk[p], #[trigger] s3.stk[q]) ==> s3.low[u] <= s3.idx[s3.stk[q]]
            &&& forall|j: int, q: int| 0 <= j < k + 1 && 0 <= q < n0 && #[trigger] nb[j] == #[trigger] s3.stk[q] ==> s3.low[u] <= s3.idx[s3.stk[q]]
        }),
{
    reveal(cinv); reveal(tinv); reveal(tpost);
    let v = nb[k];
    let l = imin(s2.low[u], s2.low[v]);
    let s3 = with_low(s2, u, l);
    let n0 = s0.stk.len() as int;
    let n1 = s.stk.len() as int;
    assert(has(u, v));
    assert(s2.idx.contains_key(u) && s2.low[u] == s.low[u] && s2.idx[u] == s.idx[u]);
    assert forall|p: int| 0 <= p < n1 implies s2.stk[p] == s.stk[p] && s2.idx[s2.stk[p]] == s.idx[s.stk[p]] && s.idx.contains_key(s.stk[p]) by {
        lemma_stack_indexed(verts, s, p);
    }
    lemma_reach_refl(has, u);
    // every old stack entry (of s) reaches u or is reached... : entries of s at positions > n0 reach u, u reaches itself
    let p0 = choose|p: int| 0 <= p <= n0 && s.low[u] == s.idx[#[trigger] s.stk[p]] && reach(has, u, s.stk[p]);
    lemma_stack_indexed(verts, s, p0);
    lemma_stack_indexed(verts, s, n0);
    if p0 < n0 { assert(s.idx[s.stk[p0]] < s.idx[s.stk[n0]]); }
    assert(s.low[u] <= s.idx[u]);
    assert(s2.idx[v] >= s.i > s.idx[u]) by { assert(newly(s, s2, v)); }
    if s2.stk.len() == n1 {
        // v's component was emitted: low_link[v] == index[v] > index[u] >= low_link[u]
        assert(l == s.low[u]);
        assert(0 <= p0 <= n0 && s3.low[u] == s3.idx[s3.stk[p0]] && reach(has, u, s3.stk[p0]));
        assert forall|p: int| n0 < p < s3.stk.len() implies reach(has, #[trigger] s3.stk[p], u) by {
            assert(s3.stk[p] == s.stk[p]);
        }
        assert forall|p: int, q: int| n0 < p < s3.stk.len() && 0 <= q < n0 && has(#[trigger] s3.stk[p], #[trigger] s3.stk[q]) implies s3.low[u] <= s3.idx[s3.stk[q]] by {
            assert(s3.stk[p] == s.stk[p] && s3.stk[q] == s.stk[q]);
        }
    } else {
        let pv = choose|p: int| 0 <= p < n1 && s2.low[v] == s2.idx[#[trigger] s2.stk[p]] && reach(has, v, s2.stk[p]);
        assert(s2.stk[pv] == s.stk[pv]);
        // s.stk[pv] reaches u
        assert(reach(has, s.stk[pv], u)) by {
            if pv <= n0 { assert(reach(has, s.stk[pv], s.stk[n0])); }
        }
        lemma_reach_trans(has, v, s.stk[pv], u);
        assert forall|p: int| n0 < p < s3.stk.len() implies reach(has, #[trigger] s3.stk[p], u) by {
            if p < n1 { assert(s3.stk[p] == s.stk[p]); } else {
                assert(reach(has, s2.stk[p], v));
                lemma_reach_trans(has, s2.stk[p], v, u);
            }
        }
        if s2.low[v] < s.low[u] {
            assert(s.idx[s.stk[pv]] < s.idx[s.stk[n0]]);
            lemma_stack_order(verts, s, pv, n0);
            lemma_reach_arc(has, u, v);
            lemma_reach_trans(has, u, v, s.stk[pv]);
            assert(0 <= pv <= n0 && s3.low[u] == s3.idx[s3.stk[pv]] && reach(has, u, s3.stk[pv]));
        } else {
            assert(0 <= p0 <= n0 && s3.low[u] == s3.idx[s3.stk[p0]] && reach(has, u, s3.stk[p0]));
        }
        assert forall|p: int, q: int| n0 < p < s3.stk.len() && 0 <= q < n0 && has(#[trigger] s3.stk[p], #[trigger] s3.stk[q]) implies s3.low[u] <= s3.idx[s3.stk[q]] by {
            assert(s3.stk[q] == s.stk[q]);
            if p < n1 { assert(s3.stk[p] == s.stk[p]); assert(s.low[u] <= s.idx[s.stk[q]]); } else {
                assert(s2.low[v] <= s2.idx[s2.stk[q]]);
            }
        }
    }
    assert forall|j: int, q: int| 0 <= j < k + 1 && 0 <= q < n0 && #[trigger] nb[j] == #[trigger] s3.stk[q] implies s3.low[u] <= s3.idx[s3.stk[q]] by {
        assert(s3.stk[q] == s.stk[q]);
        if j < k { assert(s.low[u] <= s.idx[s.stk[q]]); } else { assert(s.idx.contains_key(s.stk[q])); }
    }
}

/// all out-neighbours processed and index[u] != low_link[u]: u stays on the stack
proof fn lemma_no_emit(has: ArcRel, verts: Set<int>, s0: TS, s: TS, u: int, nb: Seq<int>)
    requires
        cinv(has, verts, s0, s, u, nb, nb.len() as int),
        forall|y: int| #[trigger] has(u, y) ==> nb.contains(y),
        s.low[u] != s.idx[u],
    ensures
        tpost(has, verts, s0, s, u),
{
    reveal(cinv); reveal(tinv); reveal(tpost);
    let n0 = s0.stk.len() as int;
    assert forall|x: int| #[trigger] newly(s0, s, x) implies outs_indexed(has, s, x) by {
        if x == u {
            assert forall|y: int| #[trigger] has(u, y) implies s.idx.contains_key(y) by {
                assert(nb.contains(y));
                let j = choose|j: int| 0 <= j < nb.len() && nb[j] == y;
                assert(s.idx.contains_key(nb[j]));
            }
        }
    }
    let p0 = choose|p: int| 0 <= p <= n0 && s.low[u] == s.idx[#[trigger] s.stk[p]] && reach(has, u, s.stk[p]);
    assert(0 <= p0 < n0 && s.low[u] == s.idx[s.stk[p0]] && reach(has, u, s.stk[p0]));
    lemma_reach_refl(has, u);
    assert forall|p: int, q: int| n0 <= p < s.stk.len() && 0 <= q < n0 && has(#[trigger] s.stk[p], #[trigger] s.stk[q]) implies s.low[u] <= s.idx[s.stk[q]] by {
        if p == n0 {
            assert(nb.contains(s.stk[q]));
            let j = choose|j: int| 0 <= j < nb.len() && nb[j] == s.stk[q];
            assert(nb[j] == s.stk[q]);
        }
    }
}

spec fn on_stk_from(stk: Seq<int>, n0: int, x: int) -> bool { exists|p: int| n0 <= p < stk.len() && #[trigger] stk[p] == x }

/// s1 is s after popping the stack down to (and including) position n0 into the new component c
spec fn emitted(s: TS, s1: TS, n0: int, c: Set<int>) -> bool {
    &&& 0 <= n0 < s.stk.len()
    &&& s1.i == s.i && s1.idx == s.idx && s1.low == s.low
    &&& s1.stk == s.stk.take(n0)
    &&& s1.comps == s.comps.push(c)
    &&& forall|x: int| #![trigger c.contains(x)] #![trigger on_stk_from(s.stk, n0, x)] c.contains(x) <==> on_stk_from(s.stk, n0, x)
    &&& forall|x: int| #[trigger] s1.ons.contains(x) <==> s.ons.contains(x) && !c.contains(x)
}

proof fn lemma_emit_struct(verts: Set<int>, s: TS, s1: TS, n0: int, c: Set<int>)
    requires inv_struct(verts, s), emitted(s, s1, n0, c),
    ensures inv_struct(verts, s1),
{
    let m = s.comps.len() as int;
    assert forall|p: int| 0 <= p < n0 implies s1.stk[p] == s.stk[p] && !c.contains(s.stk[p]) && s.ons.contains(s.stk[p]) by {
        lemma_stack_indexed(verts, s, p);
        if c.contains(s.stk[p]) {
            assert(on_stk_from(s.stk, n0, s.stk[p]));
            let p2 = choose|p2: int| n0 <= p2 < s.stk.len() && #[trigger] s.stk[p2] == s.stk[p];
            assert(s.stk[p] != s.stk[p2]);
        }
    }
    assert forall|x: int| #![trigger s1.ons.contains(x)] #![trigger on_stk(s1.stk, x)] s1.ons.contains(x) <==> on_stk(s1.stk, x) by {
        if s1.ons.contains(x) {
            assert(on_stk(s.stk, x));
            let p = choose|p: int| 0 <= p < s.stk.len() && #[trigger] s.stk[p] == x;
            if p >= n0 { assert(on_stk_from(s.stk, n0, x)); }
            assert(s1.stk[p] == x);
        }
        if on_stk(s1.stk, x) {
            let p = choose|p: int| 0 <= p < s1.stk.len() && #[trigger] s1.stk[p] == x;
            assert(s.stk[p] == x);
        }
    }
    assert forall|x: int| in_comps(s1.comps, x) <==> in_comps(s.comps, x) || c.contains(x) by {
        if in_comps(s1.comps, x) {
            let j = choose|j: int| 0 <= j < s1.comps.len() && (#[trigger] s1.comps[j]).contains(x);
            if j < m { assert(s.comps[j].contains(x)); }
        }
        if in_comps(s.comps, x) {
            let j = choose|j: int| 0 <= j < s.comps.len() && (#[trigger] s.comps[j]).contains(x);
            assert(s1.comps[j].contains(x));
        }
        if c.contains(x) { assert(s1.comps[m].contains(x)); }
    }
    assert forall|x: int| c.contains(x) implies s.ons.contains(x) by {
        assert(on_stk_from(s.stk, n0, x));
        let p = choose|p: int| n0 <= p < s.stk.len() && #[trigger] s.stk[p] == x;
        assert(on_stk(s.stk, x));
    }
    assert forall|x: int| #[trigger] s1.idx.contains_key(x) implies verts.contains(x) && 0 <= s1.idx[x] < s1.i && (s1.ons.contains(x) || in_comps(s1.comps, x)) by {}
    assert forall|x: int| #[trigger] s1.ons.contains(x) implies s1.idx.contains_key(x) && !in_comps(s1.comps, x) by {}
    assert forall|x: int| #[trigger] in_comps(s1.comps, x) implies s1.idx.contains_key(x) by {}
    assert forall|j: int, k: int, x: int| 0 <= j < k < s1.comps.len() && #[trigger] s1.comps[j].contains(x) implies !#[trigger] s1.comps[k].contains(x) by {
        assert(s1.comps[j] == s.comps[j]);
        if k == m { assert(in_comps(s.comps, x)); } else { assert(s1.comps[k] == s.comps[k]); }
    }
    assert forall|j: int| 0 <= j < s1.comps.len() implies nonempty(#[trigger] s1.comps[j]) by {
        if j < m { assert(s1.comps[j] == s.comps[j]); assert(nonempty(s.comps[j])); } else {
            assert(on_stk_from(s.stk, n0, s.stk[n0]));
            assert(c.contains(s.stk[n0]));
        }
    }
    assert(s1.stk.no_duplicates());
}

/// all out-neighbours processed and index[u] == low_link[u]: the stack from u upwards is emitted as a component
proof fn lemma_emit(has: ArcRel, verts: Set<int>, s0: TS, s: TS, s1: TS, u: int, nb: Seq<int>, c: Set<int>)
    requires
        cinv(has, verts, s0, s, u, nb, nb.len() as int),
        forall|y: int| #[trigger] has(u, y) ==> nb.contains(y),
        s.low[u] == s.idx[u],
        emitted(s, s1, s0.stk.len() as int, c),
    ensures
        tpost(has, verts, s0, s1, u),
{
    reveal(cinv); reveal(tinv); reveal(tpost);
    let n0 = s0.stk.len() as int;
    let m = s.comps.len() as int;
    lemma_emit_struct(verts, s, s1, n0, c);
    assert forall|x: int| #[trigger] newly(s0, s, x) implies outs_indexed(has, s, x) by {
        if x == u {
            assert forall|y: int| #[trigger] has(u, y) implies s.idx.contains_key(y) by {
                assert(nb.contains(y));
                let j = choose|j: int| 0 <= j < nb.len() && nb[j] == y;
                assert(s.idx.contains_key(nb[j]));
            }
        }
    }
    assert(mono(s0, s1)) by {
        assert forall|j: int| 0 <= j < s0.comps.len() implies #[trigger] s1.comps[j] == s0.comps[j] by { assert(s.comps[j] == s0.comps[j]); }
        assert forall|p: int| 0 <= p < s0.stk.len() implies #[trigger] s1.stk[p] == s0.stk[p] by { assert(s.stk[p] == s0.stk[p]); }
    }
    assert forall|x: int| #[trigger] newly(s0, s1, x) implies outs_indexed(has, s1, x) by { assert(newly(s0, s, x)); assert(outs_indexed(has, s, x)); }
    lemma_reach_refl(has, u);
    // members of the new component: stack positions >= n0
    assert forall|p: int, q: int| 0 <= p <= q < s1.stk.len() implies reach(has, #[trigger] s1.stk[p], #[trigger] s1.stk[q]) by {
        assert(s1.stk[p] == s.stk[p] && s1.stk[q] == s.stk[q]);
    }
    assert(sound(has, s1.comps)) by {
        assert forall|j: int, a: int, b: int| #![trigger s1.comps[j].contains(a), s1.comps[j].contains(b)] 0 <= j < s1.comps.len() && s1.comps[j].contains(a) && s1.comps[j].contains(b) implies reach(has, a, b) by {
            if j < m { assert(s1.comps[j] == s.comps[j]); assert(s.comps[j].contains(a) && s.comps[j].contains(b)); } else {
                assert(on_stk_from(s.stk, n0, a) && on_stk_from(s.stk, n0, b));
                let pa = choose|p: int| n0 <= p < s.stk.len() && #[trigger] s.stk[p] == a;
                let pb = choose|p: int| n0 <= p < s.stk.len() && #[trigger] s.stk[p] == b;
                assert(reach(has, s.stk[pa], u));
                assert(reach(has, s.stk[n0], s.stk[pb]));
                lemma_reach_trans(has, a, u, b);
            }
        }
    }
    assert(topo(has, s1.comps)) by {
        assert forall|j: int, x: int, y: int| #![trigger s1.comps[j].contains(x), has(x, y)] 0 <= j < s1.comps.len() && s1.comps[j].contains(x) && has(x, y) implies comp_le(s1.comps, j, y) by {
            if j < m {
                assert(s1.comps[j] == s.comps[j]);
                assert(s.comps[j].contains(x));
                assert(comp_le(s.comps, j, y));
                let k = choose|k: int| 0 <= k <= j && k < s.comps.len() && (#[trigger] s.comps[k]).contains(y);
                assert(s1.comps[k] == s.comps[k]);
            } else {
                assert(on_stk_from(s.stk, n0, x));
                let px = choose|p: int| n0 <= p < s.stk.len() && #[trigger] s.stk[p] == x;
                assert(!s0.idx.contains_key(x));
                lemma_stack_indexed(verts, s, px);
                assert(newly(s0, s, x));
                assert(outs_indexed(has, s, x));
                assert(s.idx.contains_key(y));
                if s.ons.contains(y) {
                    let qy = lemma_stack_pos(verts, s, y);
                    if qy >= n0 {
                        assert(on_stk_from(s.stk, n0, y));
                        assert(s1.comps[m].contains(y));
                    } else {
                        // an arc from the emitted part into the old stack would force low_link[u] < index[u]
                        lemma_stack_indexed(verts, s, qy);
                        assert(s.idx[s.stk[qy]] < s.idx[s.stk[n0]]);
                        if px == n0 {
                            assert(nb.contains(y));
                            let j2 = choose|j2: int| 0 <= j2 < nb.len() && nb[j2] == y;
                            assert(nb[j2] == s.stk[qy]);
                            assert(s.low[u] <= s.idx[s.stk[qy]]);
                        } else {
                            assert(has(s.stk[px], s.stk[qy]));
                            assert(s.low[u] <= s.idx[s.stk[qy]]);
                        }
                        assert(false);
                    }
                } else {
                    assert(in_comps(s.comps, y));
                    let k = choose|k: int| 0 <= k < s.comps.len() && (#[trigger] s.comps[k]).contains(y);
                    assert(s1.comps[k] == s.comps[k]);
                }
            }
        }
    }
    assert(inv_reach(has, s1));
}

// ---- top level: `components` ----

spec fn ts_init() -> TS {
    TS { i: 0, stk: Seq::empty(), ons: Set::empty(), idx: Map::empty(), low: Map::empty(), comps: Seq::empty() }
}

proof fn lemma_init(has: ArcRel, verts: Set<int>)
    requires forall|a: int, b: int| #[trigger] has(a, b) ==> verts.contains(a) && verts.contains(b),
    ensures tinv(has, verts, ts_init()),
{
    reveal(tinv);
    let s = ts_init();
    assert(s.idx.dom() =~= Set::<int>::empty());
    assert(s.low.dom() =~= s.idx.dom());
}

/// a call from `components` (empty stack) is allowed
proof fn lemma_top_pre(has: ArcRel, verts: Set<int>, s: TS, u: int)
    requires tinv(has, verts, s), s.stk.len() == 0, verts.contains(u), !s.idx.contains_key(u),
    ensures tpre(has, verts, s, u),
{
    reveal(tpre);
}

/// ... and leaves the stack empty: the component of u must have been emitted
proof fn lemma_top_post(has: ArcRel, verts: Set<int>, s0: TS, s1: TS, u: int)
    requires tpost(has, verts, s0, s1, u), s0.stk.len() == 0,
    ensures
        tinv(has, verts, s1),
        s1.stk.len() == 0,
        s1.idx.contains_key(u),
        forall|x: int| #[trigger] s0.idx.contains_key(x) ==> s1.idx.contains_key(x),
{
    reveal(tpost);
}

/// walks starting in component j stay within components 0..=j
proof fn lemma_topo_walk(has: ArcRel, comps: Seq<Set<int>>, j: int, p: Seq<int>)
    requires topo(has, comps), is_walk(has, p), 0 <= j < comps.len(), comps[j].contains(p[0]),
    ensures comp_le(comps, j, p.last()),
    decreases p.len(),
{
    if p.len() == 1 {
        assert(comps[j].contains(p.last()));
    } else {
        lemma_walk_prefix(has, p);
        let p2 = p.drop_last();
        lemma_topo_walk(has, comps, j, p2);
        let k = choose|k: int| 0 <= k <= j && k < comps.len() && (#[trigger] comps[k]).contains(p2.last());
        assert(comps[k].contains(p2.last()) && has(p2.last(), p.last()));
        assert(comp_le(comps, k, p.last()));
        let k2 = choose|k2: int| 0 <= k2 <= k && k2 < comps.len() && (#[trigger] comps[k2]).contains(p.last());
        assert(comps[k2].contains(p.last()));
    }
}

spec fn pairwise_disjoint(comps: Seq<Set<int>>) -> bool {
    forall|j: int, k: int, x: int| 0 <= j < k < comps.len() && #[trigger] comps[j].contains(x) ==> !#[trigger] comps[k].contains(x)
}

/// COMPLETENESS: b reachable from a in component j lies in a component k <= j
proof fn lemma_reach_comp_le(has: ArcRel, comps: Seq<Set<int>>, j: int, k: int, a: int, b: int)
    requires
        topo(has, comps), pairwise_disjoint(comps),
        0 <= j < comps.len(), 0 <= k < comps.len(), comps[j].contains(a), comps[k].contains(b),
        reach(has, a, b),
    ensures k <= j,
{
    let p = choose|p: Seq<int>| walk_from_to(has, set![a], b, p);
    assert(p[0] == a);
    lemma_topo_walk(has, comps, j, p);
    let k2 = choose|k2: int| 0 <= k2 <= j && k2 < comps.len() && (#[trigger] comps[k2]).contains(b);
    if k2 < k { assert(!comps[k].contains(b)); }
    if k < k2 { assert(!comps[k2].contains(b)); }
}

/// what the finished run has computed (C09), clause by clause
spec fn is_partition(verts: Set<int>, comps: Seq<Set<int>>) -> bool {
    &&& pairwise_disjoint(comps)
    &&& forall|j: int| 0 <= j < comps.len() ==> nonempty(#[trigger] comps[j])
    &&& forall|x: int| #![trigger verts.contains(x)] #![trigger in_comps(comps, x)] verts.contains(x) <==> in_comps(comps, x)
}

spec fn complete(has: ArcRel, comps: Seq<Set<int>>) -> bool {
    forall|j: int, k: int, a: int, b: int| #![trigger comps[j].contains(a), comps[k].contains(b)]
        0 <= j < comps.len() && 0 <= k < comps.len() && comps[j].contains(a) && comps[k].contains(b) && reach(has, a, b) && reach(has, b, a) ==> j == k
}

proof fn lemma_final(has: ArcRel, verts: Set<int>, s: TS)
    requires
        tinv(has, verts, s),
        s.stk.len() == 0,
        forall|x: int| #[trigger] verts.contains(x) ==> s.idx.contains_key(x),
    ensures
        is_partition(verts, s.comps),
        sound(has, s.comps),
        complete(has, s.comps),
{
    reveal(tinv);
    assert forall|x: int| #![trigger verts.contains(x)] #![trigger in_comps(s.comps, x)] verts.contains(x) <==> in_comps(s.comps, x) by {
        if verts.contains(x) {
            assert(s.idx.contains_key(x));
            if s.ons.contains(x) { assert(on_stk(s.stk, x)); }
        }
        if in_comps(s.comps, x) { assert(s.idx.contains_key(x)); }
    }
    assert(pairwise_disjoint(s.comps));
    assert forall|j: int, k: int, a: int, b: int| #![trigger s.comps[j].contains(a), s.comps[k].contains(b)]
        0 <= j < s.comps.len() && 0 <= k < s.comps.len() && s.comps[j].contains(a) && s.comps[k].contains(b) && reach(has, a, b) && reach(has, b, a) implies j == k by {
        lemma_reach_comp_le(has, s.comps, j, k, a, b);
        lemma_reach_comp_le(has, s.comps, k, j, b, a);
    }
}
