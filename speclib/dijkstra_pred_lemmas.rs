// ---- DijkstraPred: heap items carry a predecessor.  Projection onto the (key, vertex) multiset of speclib/dijkstra_lemmas.rs,
// ---- the predecessor clauses of the invariant, the predecessor table built by a client (all proved; no axioms) ----
// needs prelude/dgw_usize.rs, prelude/binary_heap.rs, speclib/graph.rs, speclib/dijkstra_lemmas.rs
type PItem = (Reverse<usize>, (Option<usize>, usize));

/// forget the predecessor
spec fn pi(x: PItem) -> HItem { (x.0, x.1.1) }
spec fn lift(y: HItem, p: Option<usize>) -> PItem { (y.0, (p, y.1)) }
spec fn has_lift(raw: Multiset<PItem>, y: HItem) -> bool {
    exists|p: Option<usize>| raw.count(#[trigger] lift(y, p)) > 0
}
/// h is the image of raw under `pi`, and `pi` is injective on raw (no (key, vertex) pair occurs with two predecessors)
#[verifier::opaque]
spec fn proj_rel(raw: Multiset<PItem>, h: Multiset<HItem>) -> bool {
    &&& forall|x: PItem| #[trigger] raw.count(x) <= h.count(pi(x))
    &&& forall|y: HItem| #[trigger] h.count(y) > 0 ==> has_lift(raw, y)
    &&& forall|y: HItem| #[trigger] h.count(y) <= 1
    &&& forall|x: PItem, z: PItem| #[trigger] raw.count(x) > 0 && #[trigger] raw.count(z) > 0 && pi(x) == pi(z) ==> x == z
    &&& h.len() == raw.len()
}
spec fn projable(raw: Multiset<PItem>) -> bool { exists|h: Multiset<HItem>| proj_rel(raw, h) }
/// the (key, vertex) multiset of a heap of (key, (pred, vertex)) items
spec fn proj(raw: Multiset<PItem>) -> Multiset<HItem> { choose|h: Multiset<HItem>| proj_rel(raw, h) }

proof fn lemma_proj_unique(raw: Multiset<PItem>, a: Multiset<HItem>, b: Multiset<HItem>)
    requires proj_rel(raw, a), proj_rel(raw, b),
    ensures a == b,
{
    reveal(proj_rel);
    assert forall|y: HItem| a.count(y) == b.count(y) by {
        assert(a.count(y) <= 1 && b.count(y) <= 1);
        if a.count(y) > 0 {
            assert(has_lift(raw, y));
            let p = choose|p: Option<usize>| raw.count(#[trigger] lift(y, p)) > 0;
            assert(raw.count(lift(y, p)) <= b.count(pi(lift(y, p))));
        }
        if b.count(y) > 0 {
            assert(has_lift(raw, y));
            let p = choose|p: Option<usize>| raw.count(#[trigger] lift(y, p)) > 0;
            assert(raw.count(lift(y, p)) <= a.count(pi(lift(y, p))));
        }
    }
    assert(a =~= b);
}
proof fn lemma_proj_def(raw: Multiset<PItem>, h: Multiset<HItem>)
    requires proj_rel(raw, h),
    ensures projable(raw), proj(raw) == h,
{
    lemma_proj_unique(raw, proj(raw), h);
}
proof fn lemma_proj_empty()
    ensures projable(Multiset::<PItem>::empty()), proj(Multiset::<PItem>::empty()) == Multiset::<HItem>::empty(),
{
    let raw = Multiset::<PItem>::empty();
    let h = Multiset::<HItem>::empty();
    assert(proj_rel(raw, h)) by { reveal(proj_rel); }
    lemma_proj_def(raw, h);
}
proof fn lemma_proj_len(raw: Multiset<PItem>)
    requires projable(raw),
    ensures proj(raw).len() == raw.len(),
{
    reveal(proj_rel);
}
/// an item of the heap shows up in the projection (exactly once on both sides)
proof fn lemma_proj_in(raw: Multiset<PItem>, x: PItem)
    requires projable(raw), raw.count(x) > 0,
    ensures proj(raw).count(pi(x)) == 1, raw.count(x) == 1,
{
    reveal(proj_rel);
    assert(raw.count(x) <= proj(raw).count(pi(x)));
    assert(proj(raw).count(pi(x)) <= 1);
}
proof fn lemma_proj_lift(raw: Multiset<PItem>, y: HItem)
    requires projable(raw), proj(raw).count(y) > 0,
    ensures has_lift(raw, y),
{
    reveal(proj_rel);
}
proof fn lemma_proj_insert(raw: Multiset<PItem>, x0: PItem)
    requires projable(raw), proj(raw).count(pi(x0)) == 0,
    ensures projable(raw.insert(x0)), proj(raw.insert(x0)) == proj(raw).insert(pi(x0)),
{
    let h = proj(raw);
    let raw2 = raw.insert(x0);
    let h2 = h.insert(pi(x0));
    assert(proj_rel(raw2, h2)) by {
        reveal(proj_rel);
        assert(raw.count(x0) <= h.count(pi(x0)));
        assert forall|x: PItem| #[trigger] raw2.count(x) <= h2.count(pi(x)) by {
            assert(raw.count(x) <= h.count(pi(x)));
        }
        assert forall|y: HItem| #[trigger] h2.count(y) > 0 implies has_lift(raw2, y) by {
            if y == pi(x0) {
                assert(lift(y, x0.1.0) == x0);
                assert(raw2.count(lift(y, x0.1.0)) > 0);
            } else {
                assert(h.count(y) > 0);
                assert(has_lift(raw, y));
                let p = choose|p: Option<usize>| raw.count(#[trigger] lift(y, p)) > 0;
                assert(raw2.count(lift(y, p)) > 0);
            }
        }
        assert forall|y: HItem| #[trigger] h2.count(y) <= 1 by { assert(h.count(y) <= 1); }
        assert forall|x: PItem, z: PItem| #[trigger] raw2.count(x) > 0 && #[trigger] raw2.count(z) > 0 && pi(x) == pi(z) implies x == z by {
            if x != x0 { assert(raw.count(x) > 0); assert(raw.count(x) <= h.count(pi(x))); }
            if z != x0 { assert(raw.count(z) > 0); assert(raw.count(z) <= h.count(pi(z))); }
        }
    }
    lemma_proj_def(raw2, h2);
}
proof fn lemma_proj_remove(raw: Multiset<PItem>, x0: PItem)
    requires projable(raw), raw.count(x0) > 0,
    ensures projable(raw.remove(x0)), proj(raw.remove(x0)) == proj(raw).remove(pi(x0)), proj(raw).count(pi(x0)) > 0,
{
    let h = proj(raw);
    let raw2 = raw.remove(x0);
    let h2 = h.remove(pi(x0));
    lemma_proj_in(raw, x0);
    assert(proj_rel(raw2, h2)) by {
        reveal(proj_rel);
        assert forall|x: PItem| #[trigger] raw2.count(x) <= h2.count(pi(x)) by {
            assert(raw.count(x) <= h.count(pi(x)));
            if x != x0 && raw.count(x) > 0 { assert(pi(x) != pi(x0)); }
        }
        assert forall|y: HItem| #[trigger] h2.count(y) > 0 implies has_lift(raw2, y) by {
            assert(h.count(y) <= 1);
            assert(y != pi(x0));
            assert(has_lift(raw, y));
            let p = choose|p: Option<usize>| raw.count(#[trigger] lift(y, p)) > 0;
            assert(pi(lift(y, p)) == y);
            assert(raw2.count(lift(y, p)) > 0);
        }
        assert forall|y: HItem| #[trigger] h2.count(y) <= 1 by { assert(h.count(y) <= 1); }
        assert forall|x: PItem, z: PItem| #[trigger] raw2.count(x) > 0 && #[trigger] raw2.count(z) > 0 && pi(x) == pi(z) implies x == z by {
            assert(raw.count(x) > 0 && raw.count(z) > 0);
        }
    }
    lemma_proj_def(raw2, h2);
}
/// a lower bound on the keys of the heap items is one on the projection
proof fn lemma_proj_keys(raw: Multiset<PItem>, k: int)
    requires projable(raw), forall|y: PItem| #[trigger] raw.count(y) > 0 ==> y.0.0 >= k,
    ensures keys_ge(proj(raw), k),
{
    assert forall|j: HItem| #[trigger] proj(raw).count(j) > 0 implies j.0.0 >= k by {
        lemma_proj_lift(raw, j);
        let p = choose|p: Option<usize>| raw.count(#[trigger] lift(j, p)) > 0;
        assert(lift(j, p).0.0 == j.0.0);
    }
}

// ---- the predecessor clauses of the invariant ----
/// what is known about the predecessor p carried by an entry (k, v), relative to labels d / pending entries h:
/// no predecessor: v is a source (key 0); predecessor q: q -> v is an arc, q's label was final (done) when it
/// relaxed the arc and key = label(q) + w(q, v)
spec fn step_pred_ok(dg: &Dgw, d: Seq<usize>, h: Multiset<HItem>, s: Set<int>, p: Option<usize>, v: int, k: int) -> bool {
    match p {
        None => s.contains(v) && k == 0,
        Some(q) => !s.contains(v) && q < d.len() && dg.has(q as int, v) && done(d, h, q as int) && d[q as int] + dg.wt(q as int, v) == k,
    }
}
spec fn pitem_ok(dg: &Dgw, d: Seq<usize>, h: Multiset<HItem>, s: Set<int>, x: PItem) -> bool {
    step_pred_ok(dg, d, h, s, x.1.0, x.1.1 as int, x.0.0 as int)
}
spec fn pred_x(dg: &Dgw, d: Seq<usize>, raw: Multiset<PItem>, s: Set<int>) -> bool {
    forall|x: PItem| #[trigger] raw.count(x) > 0 ==> pitem_ok(dg, d, proj(raw), s, x)
}
/// no done vertex is labelled above k
spec fn done_le(d: Seq<usize>, h: Multiset<HItem>, k: int) -> bool {
    forall|v: int| 0 <= v < d.len() && #[trigger] done(d, h, v) ==> d[v] <= k
}
/// no done vertex is labelled above a pending key
spec fn done_le_keys(d: Seq<usize>, h: Multiset<HItem>) -> bool {
    forall|it: HItem| #[trigger] h.count(it) > 0 ==> done_le(d, h, it.0.0 as int)
}
spec fn djp_inv_x(dg: &Dgw, d: Seq<usize>, raw: Multiset<PItem>, s: Set<int>, um: int, seen: Set<int>) -> bool {
    &&& projable(raw)
    &&& dj_inv_x(dg, d, proj(raw), s, um, seen)
    &&& pred_x(dg, d, raw, s)
}
/// the invariant of DijkstraPred between calls, for source set s
spec fn djp_inv(dg: &Dgw, d: Seq<usize>, raw: Multiset<PItem>, s: Set<int>) -> bool {
    djp_inv_x(dg, d, raw, s, -1, Set::empty()) && done_le_keys(d, proj(raw))
}

proof fn lemma_djp_pop(dg: &Dgw, d: Seq<usize>, raw: Multiset<PItem>, s: Set<int>, x0: PItem)
    requires
        djp_inv(dg, d, raw, s), raw.count(x0) > 0,
        forall|y: PItem| #[trigger] raw.count(y) > 0 ==> y.0.0 >= x0.0.0,
    ensures
        proj(raw).count(pi(x0)) > 0,
        proj(raw.remove(x0)) == proj(raw).remove(pi(x0)),
        keys_ge(proj(raw), x0.0.0 as int),
        item_ok(dg, d, s, pi(x0)),
        pitem_ok(dg, d, proj(raw), s, x0),
        djp_inv_x(dg, d, raw.remove(x0), s, if d[x0.1.1 as int] == x0.0.0 { x0.1.1 as int } else { -1 }, Set::empty()),
        done_le(d, proj(raw).remove(pi(x0)), x0.0.0 as int),
{
    let h = proj(raw);
    let it0 = pi(x0);
    let raw2 = raw.remove(x0);
    let h2 = h.remove(it0);
    lemma_proj_remove(raw, x0);
    lemma_proj_keys(raw, x0.0.0 as int);
    lemma_pop(dg, d, h, s, it0);
    assert forall|x: PItem| #[trigger] raw2.count(x) > 0 implies pitem_ok(dg, d, h2, s, x) by {
        assert(raw.count(x) > 0);
        assert(pitem_ok(dg, d, h, s, x));
        if let Some(q) = x.1.0 {
            let cur: HItem = (Reverse(d[q as int]), q);
            assert(h2.count(cur) <= h.count(cur));
        }
    }
    assert forall|v: int| 0 <= v < d.len() && #[trigger] done(d, h2, v) implies d[v] <= x0.0.0 by {
        let cur: HItem = (Reverse(d[v]), v as usize);
        if done(d, h, v) {
            assert(done_le(d, h, it0.0.0 as int));
        } else {
            assert(h.count(cur) > 0 && h2.count(cur) == 0);
            assert(cur == it0);
        }
    }
}
/// a superseded entry (key k above the label of u, k a lower bound of the pending keys) cannot relax anything
proof fn lemma_stale(dg: &Dgw, d: Seq<usize>, h: Multiset<HItem>, s: Set<int>, seen: Set<int>, u: int, k: int, x: int)
    requires dj_inv_x(dg, d, h, s, -1, seen), keys_ge(h, k), 0 <= u < d.len(), d[u] < k, dg.has(u, x),
    ensures d[x] <= d[u] + dg.wt(u, x),
{
    assert(vert_ok(dg, d, h, s, u, -1, seen));
    let cur: HItem = (Reverse(d[u]), u as usize);
    if h.count(cur) > 0 { assert(cur.0.0 >= k); }
    assert(relaxed(dg, d, u, x));
}
/// relaxing the arc (u, x) from the current entry (k, u): the predecessor clauses survive the push of (nk, (Some(u), x))
proof fn lemma_djp_update(dg: &Dgw, d: Seq<usize>, raw: Multiset<PItem>, s: Set<int>, seen: Set<int>, u: int, k: usize, x: int, nk: usize)
    requires
        djp_inv_x(dg, d, raw, s, u, seen),
        0 <= u < d.len(), d[u] == k, !pending(d, proj(raw), u),
        has_pwit(dg, d, s, u, k as int),
        dg.has(u, x), nk == k + dg.wt(u, x), nk < d[x],
        done_le(d, proj(raw), k as int),
    ensures
        proj(raw.insert((Reverse(nk), (Some(u as usize), x as usize)))) == proj(raw).insert((Reverse(nk), x as usize)),
        djp_inv_x(dg, d.update(x, nk), raw.insert((Reverse(nk), (Some(u as usize), x as usize))), s, u, seen.insert(x)),
        has_pwit(dg, d.update(x, nk), s, u, k as int),
        done_le(d.update(x, nk), proj(raw).insert((Reverse(nk), x as usize)), k as int),
        !pending(d.update(x, nk), proj(raw).insert((Reverse(nk), x as usize)), u),
{
    let h = proj(raw);
    let nx: PItem = (Reverse(nk), (Some(u as usize), x as usize));
    let ni: HItem = (Reverse(nk), x as usize);
    let raw2 = raw.insert(nx);
    let h2 = h.insert(ni);
    let d2 = d.update(x, nk);
    assert(0 <= x < d.len() && x != u);
    lemma_relax_update(dg, d, h, s, u, seen, u, k, x, nk);
    assert(h.count(ni) == 0) by {
        if h.count(ni) > 0 { assert(item_ok(dg, d, s, ni)); }
    }
    assert(pi(nx) == ni);
    lemma_proj_insert(raw, nx);
    assert(!s.contains(x));
    assert(!done(d, h, x));
    assert forall|y: PItem| #[trigger] raw2.count(y) > 0 implies pitem_ok(dg, d2, h2, s, y) by {
        if y == nx {
            let cur: HItem = (Reverse(d2[u]), u as usize);
            assert(cur != ni);
            assert(h2.count(cur) == h.count(cur));
        } else {
            assert(raw.count(y) > 0);
            assert(pitem_ok(dg, d, h, s, y));
            if let Some(q) = y.1.0 {
                assert(q as int != x);
                let cur: HItem = (Reverse(d[q as int]), q);
                assert(cur != ni);
                assert(h2.count(cur) == h.count(cur));
            }
        }
    }
    assert forall|v: int| 0 <= v < d2.len() && #[trigger] done(d2, h2, v) implies d2[v] <= k by {
        if v == x {
            assert(h2.count(ni) > 0);
        } else {
            let cur: HItem = (Reverse(d[v]), v as usize);
            assert(h2.count(cur) >= h.count(cur));
            assert(done(d, h, v));
        }
    }
    let curu: HItem = (Reverse(d2[u]), u as usize);
    assert(curu != ni);
    assert(h2.count(curu) == h.count(curu));
}
proof fn lemma_djp_skip(dg: &Dgw, d: Seq<usize>, raw: Multiset<PItem>, s: Set<int>, um: int, seen: Set<int>, u: int, k: usize, x: int)
    requires
        djp_inv_x(dg, d, raw, s, um, seen),
        0 <= u < d.len(), um == -1 || (um == u && d[u] == k),
        dg.has(u, x), d[x] <= k + dg.wt(u, x),
    ensures
        djp_inv_x(dg, d, raw, s, um, seen.insert(x)),
{
    lemma_relax_skip(dg, d, proj(raw), s, um, seen, u, k, x);
}
/// all out-arcs of um seen ==> the invariant between calls is back
proof fn lemma_djp_done(dg: &Dgw, d: Seq<usize>, raw: Multiset<PItem>, s: Set<int>, um: int, seen: Set<int>, k: int)
    requires
        djp_inv_x(dg, d, raw, s, um, seen),
        forall|x: int| dg.has(um, x) ==> seen.contains(x),
        keys_ge(proj(raw), k), done_le(d, proj(raw), k),
    ensures
        djp_inv(dg, d, raw, s),
{
    let h = proj(raw);
    lemma_relax_done(dg, d, h, s, um, seen);
    assert forall|it: HItem| #[trigger] h.count(it) > 0 implies done_le(d, h, it.0.0 as int) by {
        assert(it.0.0 >= k);
    }
}
/// the predecessor clause of the popped entry, restated over the state before the call
proof fn lemma_step_pred(dg: &Dgw, d0: Seq<usize>, h0: Multiset<HItem>, dm: Seq<usize>, hm: Multiset<HItem>, s: Set<int>, x0: PItem)
    requires trans(d0, h0, dm, hm), pitem_ok(dg, dm, hm, s, x0),
    ensures step_pred_ok(dg, d0, h0, s, x0.1.0, x0.1.1 as int, x0.0.0 as int),
{
    if let Some(q) = x0.1.0 {
        assert(tr_vert(d0, h0, dm, hm, q as int, -1));
    }
}

/// the predecessor carried by a returned item (k, (p, v)) is a tight in-neighbour: the exact distance of q is k - w(q, v)
/// (k being the exact distance of v)
spec fn pred_tight(dg: &Dgw, s: Set<int>, p: Option<usize>, v: int, k: int) -> bool {
    p matches Some(q) ==> dg.has(q as int, v) && is_min_walk_weight(has_of(dg), wt_of(dg), s, q as int, k - dg.wt(q as int, v))
}
/// a done vertex is labelled with its exact distance
proof fn lemma_pred_tight(dg: &Dgw, d: Seq<usize>, h: Multiset<HItem>, s: Set<int>, x0: PItem)
    requires dj_inv(dg, d, h, s), done_le_keys(d, h), h.count(pi(x0)) > 0, keys_ge(h, x0.0.0 as int), pitem_ok(dg, d, h, s, x0),
    ensures pred_tight(dg, s, x0.1.0, x0.1.1 as int, x0.0.0 as int),
{
    if let Some(q) = x0.1.0 {
        assert(done_le(d, h, pi(x0).0.0 as int));
        lemma_potential_at(dg, d, h, s, x0.0.0 as int, q as int);
        assert(vert_ok(dg, d, h, s, q as int, -1, Set::empty()));
        lemma_pwit_witness(dg, d, s, q as int, d[q as int] as int);
    }
}

// ---- fresh states (as built by `new`) ----
spec fn all_none(raw: Multiset<PItem>) -> bool {
    forall|x: PItem| #[trigger] raw.count(x) > 0 ==> x.1.0 is None
}
spec fn djp_fresh(dg: &Dgw, d: Seq<usize>, raw: Multiset<PItem>) -> bool {
    projable(raw) && all_none(raw) && fresh(dg, d, proj(raw))
}
proof fn lemma_djp_fresh_step(d: Seq<usize>, raw: Multiset<PItem>, src: Seq<usize>, u: usize)
    requires projable(raw), all_none(raw), fresh_from(d, proj(raw), src), u < d.len(), !src.contains(u), d.len() <= usize::MAX,
    ensures
        projable(raw.insert((Reverse(0usize), (None, u)))), all_none(raw.insert((Reverse(0usize), (None, u)))),
        fresh_from(d.update(u as int, 0), proj(raw.insert((Reverse(0usize), (None, u)))), src.push(u)),
{
    let nx: PItem = (Reverse(0usize), (None, u));
    let ni: HItem = (Reverse(0usize), u);
    assert(pi(nx) == ni);
    assert(proj(raw).count(ni) == 0);
    lemma_proj_insert(raw, nx);
    lemma_fresh_step(d, proj(raw), src, u);
    assert forall|x: PItem| #[trigger] raw.insert(nx).count(x) > 0 implies x.1.0 is None by {
        if x != nx { assert(raw.count(x) > 0); }
    }
}
proof fn lemma_djp_fresh_inv(dg: &Dgw, d: Seq<usize>, raw: Multiset<PItem>)
    requires djp_fresh(dg, d, raw), paths_fit(dg, srcs_of(d)),
    ensures
        djp_inv(dg, d, raw, srcs_of(d)),
        forall|v: int| 0 <= v < d.len() ==> !#[trigger] done(d, proj(raw), v),
{
    let s = srcs_of(d);
    let h = proj(raw);
    lemma_fresh_inv(dg, d, h);
    assert forall|x: PItem| #[trigger] raw.count(x) > 0 implies pitem_ok(dg, d, h, s, x) by {
        lemma_proj_in(raw, x);
        let it = pi(x);
        assert(h.count(it) == 1);
        assert(s.contains(it.1 as int));
    }
    assert forall|it: HItem| #[trigger] h.count(it) > 0 implies done_le(d, h, it.0.0 as int) by {
        assert forall|v: int| 0 <= v < d.len() && #[trigger] done(d, h, v) implies d[v] <= it.0.0 by {}
    }
}

// ---- lower bounds for the vertices that have not been yielded yet ----
/// min(label, k) is a feasible potential when k is a lower bound of the pending keys
proof fn lemma_potential_at(dg: &Dgw, d: Seq<usize>, h: Multiset<HItem>, s: Set<int>, k: int, v: int)
    requires dj_inv(dg, d, h, s), keys_ge(h, k), 0 <= v < d.len(),
    ensures is_lower_bound(has_of(dg), wt_of(dg), s, v, if d[v] < k { d[v] as int } else { k }),
{
    let has = has_of(dg); let w = wt_of(dg);
    let r = vstd::set_lib::set_int_range(0, d.len() as int);
    let pot = |v: int| if d[v] < k { d[v] as int } else { k };
    assert forall|a: int, b: int| r.contains(a) && #[trigger] has(a, b) implies r.contains(b) && pot(b) <= pot(a) + w(a, b) by {
        assert(dg.has(a, b));
        if d[a] < k {
            assert(vert_ok(dg, d, h, s, a, -1, Set::empty()));
            let cur: HItem = (Reverse(d[a]), a as usize);
            if h.count(cur) > 0 { assert(cur.0.0 >= k); }
            assert(relaxed(dg, d, a, b));
        }
    }
    assert(feasible(has, w, s, r, pot));
    lemma_lower_bound_at(has, w, s, r, pot, v);
}
/// a vertex that has not been yielded is at distance >= k (k = last yielded key, a lower bound of the pending keys)
proof fn lemma_lb_unemitted(dg: &Dgw, d: Seq<usize>, h: Multiset<HItem>, s: Set<int>, em: Seq<(usize, usize)>, k: int, t: int)
    requires dj_inv(dg, d, h, s), keys_ge(h, k), k <= usize::MAX, trace_inv(dg, d, h, s, em), 0 <= t < d.len(), !emitted(em, t),
    ensures is_lower_bound(has_of(dg), wt_of(dg), s, t, k),
{
    lemma_potential_at(dg, d, h, s, k, t);
    assert(!done(d, h, t));
    let cur: HItem = (Reverse(d[t]), t as usize);
    if h.count(cur) > 0 { assert(cur.0.0 >= k); }
}

// ---- the predecessor table a client fills from the yielded items ----
/// the i-th yielded vertex has a predecessor that was yielded before it with key = its key - w(q, v)
spec fn parent_at(dg: &Dgw, em: Seq<(usize, usize)>, i: int, q: usize) -> bool {
    exists|j: int| 0 <= j < i && (#[trigger] em[j]).0 == q && em[j].1 + dg.wt(q as int, em[i].0 as int) == em[i].1
}
spec fn tree_at(dg: &Dgw, s: Set<int>, em: Seq<(usize, usize)>, pr: Seq<Option<usize>>, i: int) -> bool {
    let v = em[i].0;
    v < pr.len() && match pr[v as int] {
        None => s.contains(v as int) && em[i].1 == 0,
        Some(q) => !s.contains(v as int) && q < pr.len() && dg.has(q as int, v as int) && parent_at(dg, em, i, q),
    }
}
/// pr holds the reported predecessor of every yielded vertex and None everywhere else
spec fn tree_inv(dg: &Dgw, s: Set<int>, em: Seq<(usize, usize)>, pr: Seq<Option<usize>>) -> bool {
    &&& pr.len() == dg.ord()
    &&& forall|v: int| 0 <= v < pr.len() && !#[trigger] emitted(em, v) ==> pr[v] is None
    &&& forall|i: int| 0 <= i < em.len() ==> #[trigger] tree_at(dg, s, em, pr, i)
}
proof fn lemma_tree_empty(dg: &Dgw, s: Set<int>, pr: Seq<Option<usize>>)
    requires pr.len() == dg.ord(), forall|i: int| 0 <= i < pr.len() ==> pr[i] is None,
    ensures tree_inv(dg, s, Seq::<(usize, usize)>::empty(), pr),
{
}
proof fn lemma_tree_step(dg: &Dgw, s: Set<int>, d0: Seq<usize>, h0: Multiset<HItem>, d1: Seq<usize>, h1: Multiset<HItem>,
    em: Seq<(usize, usize)>, pr: Seq<Option<usize>>, p: Option<usize>, v: usize, k: usize)
    requires
        trace_inv(dg, d0, h0, s, em), trace_inv(dg, d1, h1, s, em.push((v, k))), tree_inv(dg, s, em, pr),
        step_pred_ok(dg, d0, h0, s, p, v as int, k as int), v < pr.len(), d0.len() == pr.len(),
    ensures
        tree_inv(dg, s, em.push((v, k)), pr.update(v as int, p)),
        !emitted(em, v as int),
{
    let em2 = em.push((v, k));
    let pr2 = pr.update(v as int, p);
    let n = em.len() as int;
    assert(em2[n] == (v, k));
    assert forall|i: int| 0 <= i < n implies (#[trigger] em[i]).0 != v by {
        assert(em2[i] == em[i]);
        assert(em2[i].0 != em2[n].0);
    }
    assert(!emitted(em, v as int));
    assert forall|x: int| 0 <= x < pr2.len() && !#[trigger] emitted(em2, x) implies pr2[x] is None by {
        if x == v { assert(em2[n].0 == x); }
        if emitted(em, x) {
            let i = choose|i: int| 0 <= i < em.len() && (#[trigger] em[i]).0 == x;
            assert(em2[i].0 == x);
        }
    }
    assert forall|i: int| 0 <= i < em2.len() implies #[trigger] tree_at(dg, s, em2, pr2, i) by {
        if i < n {
            assert(em2[i] == em[i]);
            assert(tree_at(dg, s, em, pr, i));
            assert(em[i].0 != v);
            if let Some(q) = pr[em[i].0 as int] {
                let j = choose|j: int| 0 <= j < i && (#[trigger] em[j]).0 == q && em[j].1 + dg.wt(q as int, em[i].0 as int) == em[i].1;
                assert(em2[j] == em[j]);
            }
        } else {
            if let Some(q) = p {
                assert(done(d0, h0, q as int));
                assert(emitted(em, q as int));
                let j = choose|j: int| 0 <= j < em.len() && (#[trigger] em[j]).0 == q;
                assert(em_ok(dg, d0, h0, s, em[j]));
                assert(em2[j] == em[j]);
            }
        }
    }
}

/// p lists a predecessor chain top-down: p[0] has no predecessor, every later vertex has the one before it as predecessor
spec fn tree_path(pr: Seq<Option<usize>>, p: Seq<int>) -> bool {
    &&& p.len() >= 1
    &&& forall|i: int| 0 <= i < p.len() ==> 0 <= #[trigger] p[i] < pr.len()
    &&& pr[p[0]] is None
    &&& forall|i: int| 0 < i < p.len() ==> pr[#[trigger] p[i]] == Some(p[i - 1] as usize)
}
/// following predecessors from the i-th yielded vertex reaches a source along a walk whose weight is the yielded key
proof fn lemma_tree_path(dg: &Dgw, s: Set<int>, em: Seq<(usize, usize)>, pr: Seq<Option<usize>>, i: int)
    requires dg.wf(), tree_inv(dg, s, em, pr), 0 <= i < em.len(),
    ensures exists|p: Seq<int>| tree_path(pr, p) && walk_from_to(has_of(dg), s, em[i].0 as int, p) && walk_weight(wt_of(dg), p) == em[i].1,
    decreases i,
{
    let has = has_of(dg); let w = wt_of(dg);
    let v = em[i].0;
    assert(tree_at(dg, s, em, pr, i));
    match pr[v as int] {
        None => {
            lemma_walk_single(has, w, v as int);
            let p = seq![v as int];
            assert(tree_path(pr, p) && walk_from_to(has, s, v as int, p) && walk_weight(w, p) == em[i].1);
        }
        Some(q) => {
            let j = choose|j: int| 0 <= j < i && (#[trigger] em[j]).0 == q && em[j].1 + dg.wt(q as int, em[i].0 as int) == em[i].1;
            lemma_tree_path(dg, s, em, pr, j);
            let pq = choose|p: Seq<int>| tree_path(pr, p) && walk_from_to(has, s, q as int, p) && walk_weight(w, p) == em[j].1;
            lemma_walk_extend(has, w, pq, v as int);
            let p = pq.push(v as int);
            assert forall|a: int| 0 < a < p.len() implies pr[#[trigger] p[a]] == Some(p[a - 1] as usize) by {
                if a < pq.len() { assert(p[a] == pq[a]); assert(p[a - 1] == pq[a - 1]); }
            }
            assert(tree_path(pr, p) && walk_from_to(has, s, v as int, p) && walk_weight(w, p) == em[i].1);
        }
    }
}
