// ---- graph-theory spec library: walks, weights, reachability, certificate lemmas (all proved; no axioms) ----
// `has` is the arc relation, `w` the arc weight function; both are spec closures so that the same lemmas serve
// unit weights (BFS/DFS), usize weights (Dijkstra) and isize weights (Bellman-Ford-Moore, Floyd-Warshall).
type ArcRel = spec_fn(int, int) -> bool;
type ArcW = spec_fn(int, int) -> int;

spec fn step_ok(has: ArcRel, p: Seq<int>, i: int) -> bool { has(p[i], p[i + 1]) }

/// a walk: non-empty vertex sequence, consecutive vertices joined by arcs
spec fn is_walk(has: ArcRel, p: Seq<int>) -> bool {
    p.len() >= 1 && forall|i: int| 0 <= i < p.len() - 1 ==> #[trigger] step_ok(has, p, i)
}

spec fn walk_weight(w: ArcW, p: Seq<int>) -> int
    decreases p.len(),
{
    if p.len() <= 1 { 0 } else { walk_weight(w, p.drop_last()) + w(p[p.len() - 2], p[p.len() - 1]) }
}

spec fn walk_from_to(has: ArcRel, srcs: Set<int>, v: int, p: Seq<int>) -> bool {
    is_walk(has, p) && srcs.contains(p[0]) && p.last() == v
}

spec fn reachable(has: ArcRel, srcs: Set<int>, v: int) -> bool {
    exists|p: Seq<int>| walk_from_to(has, srcs, v, p)
}

/// some walk from a source to v weighs exactly dv
spec fn has_witness(has: ArcRel, w: ArcW, srcs: Set<int>, v: int, dv: int) -> bool {
    exists|p: Seq<int>| walk_from_to(has, srcs, v, p) && walk_weight(w, p) == dv
}

/// no walk from a source to v weighs less than dv
spec fn is_lower_bound(has: ArcRel, w: ArcW, srcs: Set<int>, v: int, dv: int) -> bool {
    forall|p: Seq<int>| #[trigger] walk_from_to(has, srcs, v, p) ==> dv <= walk_weight(w, p)
}

/// dv is the minimum weight of a walk from a source to v
spec fn is_min_walk_weight(has: ArcRel, w: ArcW, srcs: Set<int>, v: int, dv: int) -> bool {
    has_witness(has, w, srcs, v, dv) && is_lower_bound(has, w, srcs, v, dv)
}

/// a feasible potential on the set `r`: sources are in r with d <= 0, r is closed under arcs, and no arc out of r is relaxable
spec fn feasible(has: ArcRel, w: ArcW, srcs: Set<int>, r: Set<int>, d: spec_fn(int) -> int) -> bool {
    &&& forall|s: int| #[trigger] srcs.contains(s) ==> r.contains(s) && d(s) <= 0
    &&& forall|u: int, v: int| r.contains(u) && #[trigger] has(u, v) ==> r.contains(v) && d(v) <= d(u) + w(u, v)
}

proof fn lemma_walk_prefix(has: ArcRel, p: Seq<int>)
    requires is_walk(has, p), p.len() >= 2,
    ensures is_walk(has, p.drop_last()), p.drop_last()[0] == p[0], has(p[p.len() - 2], p[p.len() - 1]),
{
    let q = p.drop_last();
    assert forall|i: int| 0 <= i < q.len() - 1 implies #[trigger] step_ok(has, q, i) by { assert(step_ok(has, p, i)); }
    assert(step_ok(has, p, p.len() - 2));
}

proof fn lemma_walk_extend(has: ArcRel, w: ArcW, p: Seq<int>, v: int)
    requires is_walk(has, p), has(p.last(), v),
    ensures is_walk(has, p.push(v)), p.push(v)[0] == p[0], p.push(v).last() == v,
        walk_weight(w, p.push(v)) == walk_weight(w, p) + w(p.last(), v),
{
    let q = p.push(v);
    assert forall|i: int| 0 <= i < q.len() - 1 implies #[trigger] step_ok(has, q, i) by {
        if i < p.len() - 1 { assert(step_ok(has, p, i)); }
    }
    assert(q.drop_last() =~= p);
}

proof fn lemma_walk_single(has: ArcRel, w: ArcW, v: int)
    ensures is_walk(has, seq![v]), walk_weight(w, seq![v]) == 0, seq![v][0] == v, seq![v].last() == v,
{
}

/// every walk from a source ends inside r and weighs at least d(end)
proof fn lemma_potential_lower_bound(has: ArcRel, w: ArcW, srcs: Set<int>, r: Set<int>, d: spec_fn(int) -> int, v: int, p: Seq<int>)
    requires feasible(has, w, srcs, r, d), walk_from_to(has, srcs, v, p),
    ensures r.contains(v), d(v) <= walk_weight(w, p),
    decreases p.len(),
{
    if p.len() == 1 {
        assert(p[0] == v);
    } else {
        lemma_walk_prefix(has, p);
        let q = p.drop_last();
        lemma_potential_lower_bound(has, w, srcs, r, d, q.last(), q);
    }
}

proof fn lemma_lower_bound_at(has: ArcRel, w: ArcW, srcs: Set<int>, r: Set<int>, d: spec_fn(int) -> int, v: int)
    requires feasible(has, w, srcs, r, d),
    ensures is_lower_bound(has, w, srcs, v, d(v)), reachable(has, srcs, v) ==> r.contains(v),
{
    assert forall|p: Seq<int>| #[trigger] walk_from_to(has, srcs, v, p) implies d(v) <= walk_weight(w, p) && r.contains(v) by {
        lemma_potential_lower_bound(has, w, srcs, r, d, v, p);
    }
}

proof fn lemma_witness_reachable(has: ArcRel, w: ArcW, srcs: Set<int>, v: int, dv: int)
    requires has_witness(has, w, srcs, v, dv),
    ensures reachable(has, srcs, v),
{
    let p0 = choose|p: Seq<int>| walk_from_to(has, srcs, v, p) && walk_weight(w, p) == dv;
    assert(walk_from_to(has, srcs, v, p0));
}

/// certificate: feasible potential + a witness walk of weight exactly d(v) for every v in r
///   ==> d is the exact distance on r, and r is exactly the reachable set
proof fn lemma_certificate(has: ArcRel, w: ArcW, srcs: Set<int>, r: Set<int>, d: spec_fn(int) -> int)
    requires
        feasible(has, w, srcs, r, d),
        forall|v: int| #[trigger] r.contains(v) ==> has_witness(has, w, srcs, v, d(v)),
    ensures
        forall|v: int| #[trigger] r.contains(v) ==> is_min_walk_weight(has, w, srcs, v, d(v)),
        forall|v: int| #[trigger] r.contains(v) <==> reachable(has, srcs, v),
{
    assert forall|v: int| #[trigger] r.contains(v) implies is_min_walk_weight(has, w, srcs, v, d(v)) by {
        lemma_lower_bound_at(has, w, srcs, r, d, v);
    }
    assert forall|v: int| #[trigger] r.contains(v) <==> reachable(has, srcs, v) by {
        lemma_lower_bound_at(has, w, srcs, r, d, v);
        if r.contains(v) { lemma_witness_reachable(has, w, srcs, v, d(v)); }
    }
}

/// unit weights: walk weight = number of arcs
proof fn lemma_unit_weight(p: Seq<int>)
    requires p.len() >= 1,
    ensures walk_weight(|u: int, v: int| 1int, p) == p.len() - 1,
    decreases p.len(),
{
    if p.len() > 1 { lemma_unit_weight(p.drop_last()); }
}
