// ---- BfsPred lemmas (all proved; no axioms). Needs speclib/graph.rs + speclib/bfs_lemmas.rs + prelude/dg.rs ----
// Part A: the neighbour loop of `next` (same shape as in units/bfs.rs; copied because a unit template cannot be included)
// Part B: the BFS queue invariant of bfs_lemmas.rs (binv) extended with the predecessor component of the queue items
// Part C: predecessor vectors: chains, the tree built from the emitted items, shortest paths, cycles

// ---------------------------------------------------------------------------------------------
// Part A
// ---------------------------------------------------------------------------------------------
spec fn dg_has(dg: &Dg) -> ArcRel { |u: int, v: int| dg.has(u, v) }

/// v occurs among the first k items of s
spec fn seen_upto(s: Seq<usize>, k: int, v: int) -> bool { exists|j: int| 0 <= j < k && j < s.len() && #[trigger] s[j] == v }

/// x occurs in s at position >= k
spec fn rest_has(s: Seq<usize>, k: int, x: usize) -> bool { exists|j: int| k <= j < s.len() && #[trigger] s[j] == x }

/// has(a, b) ==> a, b in range, from digraph validity
proof fn lemma_has_range(dg: &Dg)
    requires dg.wf(),
    ensures forall|a: int, b: int| #[trigger] dg_has(dg)(a, b) ==> 0 <= b < dg.ord() && 0 <= a < dg.ord(),
{
    assert forall|a: int, b: int| #[trigger] dg_has(dg)(a, b) implies 0 <= b < dg.ord() && 0 <= a < dg.ord() by {
        assert(dg.has(a, b));
    }
}

/// after k of the out-neighbours nb of u have been processed
#[verifier::opaque]
spec fn loop_inv(dg: &Dg, u: usize, vis0: Seq<bool>, vis: Seq<bool>, add: Seq<int>, nb: Seq<usize>, k: int) -> bool {
    &&& dg.wf() && vis0.len() == dg.ord() && vis.len() == vis0.len() && u < dg.ord() && 0 <= k <= nb.len()
    &&& add.no_duplicates()
    &&& forall|i: int| 0 <= i < nb.len() ==> dg.has(u as int, #[trigger] nb[i] as int)
    &&& forall|j: int| 0 <= j < add.len() ==> 0 <= #[trigger] add[j] < vis0.len() && !vis0[add[j]] && dg.has(u as int, add[j])
    &&& forall|x: usize| #[trigger] dg.has(u as int, x as int) ==> vis0[x as int] || add.contains(x as int) || rest_has(nb, k, x)
    &&& forall|v: int| 0 <= v < vis.len() ==> #[trigger] vis[v] == (vis0[v] || add.contains(v))
    &&& ct(vis) == ct(vis0) + add.len()
}

/// all out-neighbours processed
#[verifier::opaque]
spec fn step_done(dg: &Dg, u: usize, vis0: Seq<bool>, vis: Seq<bool>, add: Seq<int>) -> bool {
    &&& dg.wf() && vis0.len() == dg.ord() && vis.len() == vis0.len() && u < dg.ord()
    &&& add.no_duplicates()
    &&& forall|j: int| 0 <= j < add.len() ==> 0 <= #[trigger] add[j] < vis0.len() && !vis0[add[j]] && dg.has(u as int, add[j])
    &&& forall|x: usize| #[trigger] dg.has(u as int, x as int) ==> vis0[x as int] || add.contains(x as int)
    &&& forall|v: int| 0 <= v < vis.len() ==> #[trigger] vis[v] == (vis0[v] || add.contains(v))
    &&& ct(vis) == ct(vis0) + add.len()
}

proof fn lemma_loop_init(dg: &Dg, u: usize, vis0: Seq<bool>)
    requires dg.wf(), vis0.len() == dg.ord(), u < dg.ord(),
    ensures
        forall|nb: Seq<usize>| (forall|x: usize| dg.has(u as int, x as int) ==> nb.contains(x))
            && (forall|i: int| 0 <= i < nb.len() ==> dg.has(u as int, #[trigger] nb[i] as int))
            ==> #[trigger] loop_inv(dg, u, vis0, vis0, Seq::<int>::empty(), nb, 0),
        (forall|x: usize| !dg.has(u as int, x as int)) ==> step_done(dg, u, vis0, vis0, Seq::<int>::empty()),
{
    reveal(loop_inv);
    reveal(step_done);
    let e = Seq::<int>::empty();
    assert forall|nb: Seq<usize>| (forall|x: usize| dg.has(u as int, x as int) ==> nb.contains(x))
            && (forall|i: int| 0 <= i < nb.len() ==> dg.has(u as int, #[trigger] nb[i] as int))
        implies #[trigger] loop_inv(dg, u, vis0, vis0, e, nb, 0) by {
        assert forall|x: usize| #[trigger] dg.has(u as int, x as int) implies rest_has(nb, 0, x) by {
            assert(nb.contains(x));
            let j = choose|j: int| 0 <= j < nb.len() && nb[j] == x;
            assert(nb[j] == x);
        }
    }
}

proof fn lemma_loop_step(dg: &Dg, u: usize, vis0: Seq<bool>, vis: Seq<bool>, add: Seq<int>, nb: Seq<usize>, k: int, vis2: Seq<bool>, add2: Seq<int>)
    requires
        loop_inv(dg, u, vis0, vis, add, nb, k),
        0 <= k < nb.len(),
        nb[k] < vis.len(),
        if vis[nb[k] as int] { vis2 == vis && add2 == add } else { vis2 == vis.update(nb[k] as int, true) && add2 == add.push(nb[k] as int) },
    ensures
        loop_inv(dg, u, vis0, vis2, add2, nb, k + 1),
        k + 1 == nb.len() ==> step_done(dg, u, vis0, vis2, add2),
{
    reveal(loop_inv);
    reveal(step_done);
    let v = nb[k] as int;
    assert(dg.has(u as int, nb[k] as int));
    if !vis[v] {
        assert(!add.contains(v));
        assert(!vis0[v]);
        lemma_ct_set(vis, v);
        assert forall|x: int| add2.contains(x) <==> add.contains(x) || x == v by {
            if add.contains(x) {
                let j = choose|j: int| 0 <= j < add.len() && add[j] == x;
                assert(add2[j] == x);
            }
            assert(add2[add.len() as int] == v);
        }
        assert forall|j: int| 0 <= j < add2.len() implies 0 <= #[trigger] add2[j] < vis0.len() && !vis0[add2[j]] && dg.has(u as int, add2[j]) by {
            if j < add.len() { assert(add2[j] == add[j]); }
        }
    }
    assert forall|x: usize| #[trigger] dg.has(u as int, x as int) implies vis0[x as int] || add2.contains(x as int) || rest_has(nb, k + 1, x) by {
        if rest_has(nb, k, x) && !(vis0[x as int] || add.contains(x as int)) {
            let j = choose|j: int| k <= j < nb.len() && #[trigger] nb[j] == x;
            if j > k { assert(rest_has(nb, k + 1, x)); }
        }
    }
    if k + 1 == nb.len() {
        assert forall|x: usize| #[trigger] dg.has(u as int, x as int) implies vis0[x as int] || add2.contains(x as int) by {
            assert(!rest_has(nb, k + 1, x));
        }
    }
}

// ---------------------------------------------------------------------------------------------
// Part B: queue items (p, x); pv = the predecessor components, qv = the vertices
// ---------------------------------------------------------------------------------------------

/// a queue item (p, x): p is None for a source; otherwise p is an already yielded in-neighbour of x one level above x,
/// and x is not a source
spec fn pitem_ok(has: ArcRel, qv: Seq<int>, vis: Seq<bool>, srcs: Set<int>, d: spec_fn(int) -> int, p: Option<int>, x: int) -> bool {
    match p {
        None => srcs.contains(x),
        Some(u) => !srcs.contains(x) && is_done(qv, vis, u) && has(u, x) && d(x) == d(u) + 1,
    }
}

spec fn pitem_at(has: ArcRel, qv: Seq<int>, pv: Seq<Option<int>>, vis: Seq<bool>, srcs: Set<int>, d: spec_fn(int) -> int, i: int) -> bool {
    pitem_ok(has, qv, vis, srcs, d, pv[i], qv[i])
}

spec fn pitems(has: ArcRel, qv: Seq<int>, pv: Seq<Option<int>>, vis: Seq<bool>, srcs: Set<int>, d: spec_fn(int) -> int) -> bool {
    &&& pv.len() == qv.len()
    &&& forall|i: int| 0 <= i < qv.len() ==> #[trigger] pitem_at(has, qv, pv, vis, srcs, d, i)
}

/// binv behind an opaque wall: its clause "visited ==> has_witness" and "source ==> visited" feed each other through the
/// witness walk's first vertex (a matching loop); it is revealed only inside the small lemmas below
#[verifier::opaque]
spec fn binv_o(has: ArcRel, qv: Seq<int>, lv: Seq<int>, vis: Seq<bool>, srcs: Set<int>, d: spec_fn(int) -> int) -> bool {
    binv(has, qv, lv, vis, srcs, d)
}

spec fn pinv(has: ArcRel, qv: Seq<int>, pv: Seq<Option<int>>, lv: Seq<int>, vis: Seq<bool>, srcs: Set<int>, d: spec_fn(int) -> int) -> bool {
    &&& binv_o(has, qv, lv, vis, srcs, d)
    &&& pitems(has, qv, pv, vis, srcs, d)
}

/// one step: bstep + the new items carry Some(front vertex)
spec fn pstep(has: ArcRel, qv: Seq<int>, pv: Seq<Option<int>>, lv: Seq<int>, vis: Seq<bool>, qv2: Seq<int>, pv2: Seq<Option<int>>, lv2: Seq<int>, vis2: Seq<bool>, add: Seq<int>) -> bool {
    &&& bstep(has, qv, lv, vis, qv2, lv2, vis2, add)
    &&& pv.len() == qv.len()
    &&& pv2 == pv.skip(1) + Seq::new(add.len(), |k: int| Some(qv[0]))
}

/// the witness-free part of binv
spec fn bflat(qv: Seq<int>, lv: Seq<int>, vis: Seq<bool>, srcs: Set<int>, d: spec_fn(int) -> int) -> bool {
    &&& lv.len() == qv.len()
    &&& qv.no_duplicates()
    &&& forall|i: int| 0 <= i < qv.len() ==> is_vis(vis, #[trigger] qv[i]) && d(qv[i]) == lv[i]
    &&& forall|s: int| #[trigger] srcs.contains(s) ==> is_vis(vis, s)
}

proof fn lemma_bflat(has: ArcRel, qv: Seq<int>, lv: Seq<int>, vis: Seq<bool>, srcs: Set<int>, d: spec_fn(int) -> int)
    requires binv_o(has, qv, lv, vis, srcs, d),
    ensures bflat(qv, lv, vis, srcs, d),
{
    reveal(binv_o);
}

proof fn lemma_step_o(has: ArcRel, qv: Seq<int>, lv: Seq<int>, vis: Seq<bool>, qv2: Seq<int>, lv2: Seq<int>, vis2: Seq<bool>, add: Seq<int>, srcs: Set<int>, d: spec_fn(int) -> int)
    requires
        binv_o(has, qv, lv, vis, srcs, d),
        bstep(has, qv, lv, vis, qv2, lv2, vis2, add),
        forall|a: int, b: int| #[trigger] has(a, b) ==> 0 <= b < vis.len(),
    ensures
        binv_o(has, qv2, lv2, vis2, srcs, bstep_d(d, add, lv[0] + 1)),
        forall|i: int| 0 <= i < lv2.len() ==> lv[0] <= #[trigger] lv2[i],
{
    reveal(binv_o);
    lemma_step(has, qv, lv, vis, qv2, lv2, vis2, add, srcs, d);
}

proof fn lemma_front_o(has: ArcRel, qv: Seq<int>, lv: Seq<int>, vis: Seq<bool>, srcs: Set<int>, d: spec_fn(int) -> int)
    requires binv_o(has, qv, lv, vis, srcs, d), qv.len() > 0,
        forall|a: int, b: int| #[trigger] has(a, b) ==> 0 <= b < vis.len(),
    ensures is_min_walk_weight(has, unit_w(), srcs, qv[0], lv[0]),
{
    reveal(binv_o);
    lemma_front_exact(has, qv, lv, vis, srcs, d);
}

proof fn lemma_vis_exact_o(has: ArcRel, qv: Seq<int>, lv: Seq<int>, vis: Seq<bool>, srcs: Set<int>, d: spec_fn(int) -> int, x: int)
    requires binv_o(has, qv, lv, vis, srcs, d), qv.len() > 0, is_vis(vis, x),
        forall|a: int, b: int| #[trigger] has(a, b) ==> 0 <= b < vis.len(),
    ensures is_min_walk_weight(has, unit_w(), srcs, x, d(x)),
{
    reveal(binv_o);
    lemma_vis_exact_ne(has, qv, lv, vis, srcs, d, x);
}

proof fn lemma_queue_exact_o(has: ArcRel, qv: Seq<int>, lv: Seq<int>, vis: Seq<bool>, srcs: Set<int>, d: spec_fn(int) -> int, i: int)
    requires binv_o(has, qv, lv, vis, srcs, d), 0 <= i < qv.len(),
        forall|a: int, b: int| #[trigger] has(a, b) ==> 0 <= b < vis.len(),
    ensures is_min_walk_weight(has, unit_w(), srcs, qv[i], lv[i]),
{
    reveal(binv_o);
    lemma_queue_exact(has, qv, lv, vis, srcs, d, i);
}

proof fn lemma_exhausted_o(has: ArcRel, qv: Seq<int>, lv: Seq<int>, vis: Seq<bool>, srcs: Set<int>, d: spec_fn(int) -> int)
    requires binv_o(has, qv, lv, vis, srcs, d), qv.len() == 0,
    ensures forall|v: int| #[trigger] is_done(qv, vis, v) <==> reachable(has, srcs, v),
{
    reveal(binv_o);
    lemma_exhausted(has, qv, lv, vis, srcs, d);
    assert forall|v: int| #[trigger] is_done(qv, vis, v) <==> reachable(has, srcs, v) by {
        assert(is_vis(vis, v) <==> reachable(has, srcs, v));
    }
}

proof fn lemma_fresh_o(has: ArcRel, qv: Seq<int>, lv: Seq<int>, vis: Seq<bool>)
    requires
        lv.len() == qv.len(),
        forall|i: int| 0 <= i < lv.len() ==> #[trigger] lv[i] == 0,
        qv.no_duplicates(),
        forall|v: int| #[trigger] is_vis(vis, v) <==> qv.contains(v),
    ensures
        binv_o(has, qv, lv, vis, qv.to_set(), |v: int| 0int),
        forall|v: int| !is_done(qv, vis, v),
{
    reveal(binv_o);
    lemma_fresh(has, qv, lv, vis);
}

/// the item part of one step, from the witness-free facts about the step
proof fn lemma_pitems_step(has: ArcRel, qv: Seq<int>, pv: Seq<Option<int>>, vis: Seq<bool>, qv2: Seq<int>, pv2: Seq<Option<int>>, vis2: Seq<bool>, add: Seq<int>, srcs: Set<int>, d: spec_fn(int) -> int, d2: spec_fn(int) -> int)
    requires
        qv.len() > 0,
        pitems(has, qv, pv, vis, srcs, d),
        forall|i: int| 0 <= i < qv.len() ==> is_vis(vis, #[trigger] qv[i]),
        forall|s: int| #[trigger] srcs.contains(s) ==> is_vis(vis, s),
        qv2.len() == qv.len() - 1 + add.len(),
        forall|i: int| 0 <= i < qv.len() - 1 ==> #[trigger] qv2[i] == qv[i + 1],
        forall|i: int| qv.len() - 1 <= i < qv2.len() ==> #[trigger] qv2[i] == add[i - (qv.len() - 1)],
        pv2 == pv.skip(1) + Seq::new(add.len(), |k: int| Some(qv[0])),
        forall|v: int| #[trigger] is_done(qv2, vis2, v) <==> is_done(qv, vis, v) || v == qv[0],
        forall|k: int| 0 <= k < add.len() ==> !is_vis(vis, #[trigger] add[k]) && has(qv[0], add[k]) && d2(add[k]) == d(qv[0]) + 1,
        forall|v: int| is_vis(vis, v) ==> #[trigger] d2(v) == d(v),
    ensures
        pitems(has, qv2, pv2, vis2, srcs, d2),
{
    let n = qv.len() - 1;
    assert(pv.skip(1).len() == n);
    assert(pv2.len() == qv2.len());
    assert forall|i: int| 0 <= i < qv2.len() implies #[trigger] pitem_at(has, qv2, pv2, vis2, srcs, d2, i) by {
        if i < n {
            assert(pv2[i] == pv.skip(1)[i]);
            assert(pv2[i] == pv[i + 1]);
            assert(qv2[i] == qv[i + 1]);
            assert(pitem_at(has, qv, pv, vis, srcs, d, i + 1));
            assert(is_vis(vis, qv[i + 1]));
            match pv[i + 1] {
                Some(u) => {
                    assert(is_done(qv, vis, u));
                    assert(is_done(qv2, vis2, u));
                    assert(is_vis(vis, u));
                }
                None => {}
            }
        } else {
            let k = i - n;
            assert(pv2[i] == Some(qv[0]));
            assert(qv2[i] == add[k]);
            assert(!is_vis(vis, add[k]));
            assert(is_done(qv2, vis2, qv[0]));
            assert(is_vis(vis, qv[0]));
        }
    }
}

proof fn lemma_pstep(has: ArcRel, qv: Seq<int>, pv: Seq<Option<int>>, lv: Seq<int>, vis: Seq<bool>, qv2: Seq<int>, pv2: Seq<Option<int>>, lv2: Seq<int>, vis2: Seq<bool>, add: Seq<int>, srcs: Set<int>, d: spec_fn(int) -> int)
    requires
        pinv(has, qv, pv, lv, vis, srcs, d),
        pstep(has, qv, pv, lv, vis, qv2, pv2, lv2, vis2, add),
        forall|a: int, b: int| #[trigger] has(a, b) ==> 0 <= b < vis.len(),
    ensures
        pinv(has, qv2, pv2, lv2, vis2, srcs, bstep_d(d, add, lv[0] + 1)),
        forall|i: int| 0 <= i < lv2.len() ==> lv[0] <= #[trigger] lv2[i],
        forall|v: int| #[trigger] is_done(qv2, vis2, v) <==> is_done(qv, vis, v) || v == qv[0],
        !is_done(qv, vis, qv[0]),
{
    let l = lv[0];
    let d2 = bstep_d(d, add, l + 1);
    lemma_bflat(has, qv, lv, vis, srcs, d);
    lemma_step_o(has, qv, lv, vis, qv2, lv2, vis2, add, srcs, d);
    lemma_step_queue(has, qv, lv, vis, qv2, lv2, vis2, add);
    assert(is_vis(vis, qv[0]) && d(qv[0]) == lv[0]);
    assert forall|v: int| is_vis(vis, v) implies #[trigger] d2(v) == d(v) by {
        if add.contains(v) {
            let k = choose|k: int| 0 <= k < add.len() && add[k] == v;
            assert(!vis[add[k]]);
        }
    }
    assert forall|k: int| 0 <= k < add.len() implies !is_vis(vis, #[trigger] add[k]) && has(qv[0], add[k]) && d2(add[k]) == d(qv[0]) + 1 by {
        assert(add.contains(add[k]));
    }
    lemma_pitems_step(has, qv, pv, vis, qv2, pv2, vis2, add, srcs, d, d2);
}

/// no walk from a source to a vertex that has not been yielded yet is shorter than the front level
proof fn lemma_undone_lower(has: ArcRel, qv: Seq<int>, lv: Seq<int>, vis: Seq<bool>, srcs: Set<int>, d: spec_fn(int) -> int, t: int)
    requires binv_o(has, qv, lv, vis, srcs, d), qv.len() > 0, !is_done(qv, vis, t),
        forall|a: int, b: int| #[trigger] has(a, b) ==> 0 <= b < vis.len(),
    ensures is_lower_bound(has, unit_w(), srcs, t, lv[0]),
{
    reveal(binv_o);
    let l = lv[0];
    let dd = |v: int| if is_vis(vis, v) { d(v) } else { l + 1 };
    let r = set_int_range(0, vis.len() as int);
    assert forall|a: int, b: int| r.contains(a) && #[trigger] has(a, b) implies r.contains(b) && dd(b) <= dd(a) + unit_w()(a, b) by {
        if is_vis(vis, b) { lemma_vis_bound(has, qv, lv, vis, srcs, d, b); }
        if is_vis(vis, a) {
            lemma_vis_bound(has, qv, lv, vis, srcs, d, a);
            if !qv.contains(a) { assert(is_done(qv, vis, a)); }
        }
    }
    assert(feasible(has, unit_w(), srcs, r, dd));
    lemma_lower_bound_at(has, unit_w(), srcs, r, dd, t);
    if is_vis(vis, t) { lemma_vis_bound(has, qv, lv, vis, srcs, d, t); }
    assert(l <= dd(t));
}

/// consequences of one step for a state whose invariant holds for SOME level function
proof fn lemma_pnext_post(has: ArcRel, qv: Seq<int>, pv: Seq<Option<int>>, lv: Seq<int>, vis: Seq<bool>, qv2: Seq<int>, pv2: Seq<Option<int>>, lv2: Seq<int>, vis2: Seq<bool>, add: Seq<int>, srcs: Set<int>)
    requires
        exists|d: spec_fn(int) -> int| pinv(has, qv, pv, lv, vis, srcs, d),
        pstep(has, qv, pv, lv, vis, qv2, pv2, lv2, vis2, add),
        forall|a: int, b: int| #[trigger] has(a, b) ==> 0 <= b < vis.len(),
    ensures
        exists|d: spec_fn(int) -> int| pinv(has, qv2, pv2, lv2, vis2, srcs, d),
        is_min_walk_weight(has, unit_w(), srcs, qv[0], lv[0]),
        forall|i: int| 0 <= i < lv2.len() ==> lv[0] <= #[trigger] lv2[i],
        forall|v: int| #[trigger] is_done(qv2, vis2, v) <==> is_done(qv, vis, v) || v == qv[0],
        !is_done(qv, vis, qv[0]),
        forall|t: int| !#[trigger] is_done(qv, vis, t) ==> is_lower_bound(has, unit_w(), srcs, t, lv[0]),
        match pv[0] {
            None => srcs.contains(qv[0]),
            Some(u) => !srcs.contains(qv[0]) && is_done(qv, vis, u) && has(u, qv[0]) && is_min_walk_weight(has, unit_w(), srcs, u, lv[0] - 1),
        },
{
    let d = choose|d: spec_fn(int) -> int| pinv(has, qv, pv, lv, vis, srcs, d);
    lemma_pstep(has, qv, pv, lv, vis, qv2, pv2, lv2, vis2, add, srcs, d);
    lemma_front_o(has, qv, lv, vis, srcs, d);
    lemma_bflat(has, qv, lv, vis, srcs, d);
    assert forall|t: int| !#[trigger] is_done(qv, vis, t) implies is_lower_bound(has, unit_w(), srcs, t, lv[0]) by {
        lemma_undone_lower(has, qv, lv, vis, srcs, d, t);
    }
    assert(pitem_at(has, qv, pv, vis, srcs, d, 0));
    assert(is_vis(vis, qv[0]) && d(qv[0]) == lv[0]);
    match pv[0] {
        Some(u) => { lemma_vis_exact_o(has, qv, lv, vis, srcs, d, u); }
        None => {}
    }
}

proof fn lemma_src_reachable(has: ArcRel, srcs: Set<int>, s: int)
    requires srcs.contains(s),
    ensures reachable(has, srcs, s), is_min_walk_weight(has, unit_w(), srcs, s, 0), hop(has, srcs, s) == 0,
{
    lemma_walk_single(has, unit_w(), s);
    assert(walk_from_to(has, srcs, s, seq![s]));
    assert forall|p: Seq<int>| #[trigger] walk_from_to(has, srcs, s, p) implies 0 <= walk_weight(unit_w(), p) by {
        lemma_unit_w(p);
    }
    lemma_hop(has, srcs, s, 0);
}

proof fn lemma_min_nonneg(has: ArcRel, srcs: Set<int>, v: int, l: int)
    requires is_min_walk_weight(has, unit_w(), srcs, v, l),
    ensures l >= 0,
{
    let p = choose|p: Seq<int>| walk_from_to(has, srcs, v, p) && walk_weight(unit_w(), p) == l;
    lemma_unit_w(p);
}

// ---------------------------------------------------------------------------------------------
// Part C.1: predecessor vectors (definitions and lemmas of units/predecessor_tree.rs, needed to state the contracts of
// PredecessorTree::{search_by, search}; copied because a top-level unit template cannot be included.
// `lemma_step` of that unit is called `lemma_pt_step` here: the name is taken by bfs_lemmas.rs)
// ---------------------------------------------------------------------------------------------
spec fn chain(pr: Seq<Option<usize>>, s: usize, k: nat) -> Option<usize>
    decreases k,
{
    if k == 0 {
        Some(s)
    } else {
        match chain(pr, s, (k - 1) as nat) {
            Some(u) => if u < pr.len() { pr[u as int] } else { None },
            None => None,
        }
    }
}

spec fn says<F: Fn(&usize, &Option<usize>) -> bool>(f: F, a: usize, b: Option<usize>, r: bool) -> bool {
    f.ensures((&a, &b), r)
}

spec fn callable<F: Fn(&usize, &Option<usize>) -> bool>(f: F) -> bool {
    forall|a: usize, b: Option<usize>| #[trigger] f.requires((&a, &b))
}

spec fn deterministic<F: Fn(&usize, &Option<usize>) -> bool>(f: F) -> bool {
    forall|a: usize, b: Option<usize>, r1: bool, r2: bool|
        #[trigger] says(f, a, b, r1) && #[trigger] says(f, a, b, r2) ==> r1 == r2
}

spec fn pos_at<F: Fn(&usize, &Option<usize>) -> bool>(pr: Seq<Option<usize>>, f: F, s: usize, k: nat) -> bool {
    match chain(pr, s, k) {
        Some(u) => u < pr.len() && says(f, u, pr[u as int], true),
        None => false,
    }
}

spec fn neg_at<F: Fn(&usize, &Option<usize>) -> bool>(pr: Seq<Option<usize>>, f: F, s: usize, k: nat) -> bool {
    match chain(pr, s, k) {
        Some(u) => u < pr.len() ==> says(f, u, pr[u as int], false),
        None => true,
    }
}

spec fn first_hit<F: Fn(&usize, &Option<usize>) -> bool>(pr: Seq<Option<usize>>, f: F, s: usize, k: nat) -> bool {
    pos_at(pr, f, s, k) && forall|j: nat| #![trigger chain(pr, s, j)] j < k ==> neg_at(pr, f, s, j)
}

spec fn is_prefix(pr: Seq<Option<usize>>, s: usize, k: nat, p: Seq<usize>) -> bool {
    p.len() == k + 1 && forall|i: int| 0 <= i <= k ==> chain(pr, s, i as nat) == Some(#[trigger] p[i])
}

spec fn link_path(pr: Seq<Option<usize>>, s: usize, p: Seq<usize>) -> bool {
    &&& p.len() > 0
    &&& p[0] == s
    &&& forall|i: int| 0 <= i < p.len() ==> #[trigger] p[i] < pr.len()
    &&& forall|i: int| 0 < i < p.len() ==> #[trigger] link(pr, p, i)
}

spec fn link(pr: Seq<Option<usize>>, p: Seq<usize>, i: int) -> bool {
    pr[p[i - 1] as int] == Some(p[i])
}

spec fn distinct(p: Seq<usize>) -> bool {
    forall|i: int, j: int| 0 <= i < j < p.len() ==> p[i] != p[j]
}

spec fn seen(pr: Seq<Option<usize>>, s: usize, k: nat, x: usize) -> bool {
    exists|i: nat| 1 <= i <= k && chain(pr, s, i) == Some(x)
}

spec fn dead(pr: Seq<Option<usize>>, s0: usize, k: nat, s: usize, vis: Seq<bool>) -> bool {
    &&& k >= 1
    &&& s < pr.len()
    &&& s < vis.len()
    &&& chain(pr, s0, (k - 1) as nat) == Some(s)
    &&& pr[s as int] == Some(s)
    &&& vis[s as int]
}

spec fn count_false(v: Seq<bool>) -> nat
    decreases v.len(),
{
    if v.len() == 0 {
        0
    } else {
        count_false(v.drop_last()) + if v.last() { 0nat } else { 1nat }
    }
}

proof fn lemma_count_false_update(v: Seq<bool>, i: int)
    requires 0 <= i < v.len(), !v[i],
    ensures count_false(v.update(i, true)) < count_false(v),
    decreases v.len(),
{
    let w = v.update(i, true);
    if i == v.len() - 1 {
        assert(w.drop_last() =~= v.drop_last());
    } else {
        assert(w.drop_last() =~= v.drop_last().update(i, true));
        lemma_count_false_update(v.drop_last(), i);
    }
}

proof fn lemma_chain_alive_before(pr: Seq<Option<usize>>, s: usize, k: nat, j: nat)
    requires chain(pr, s, k) is Some, j < k,
    ensures chain(pr, s, j) matches Some(u) && u < pr.len(),
    decreases k,
{
    if j + 1 < k {
        lemma_chain_alive_before(pr, s, (k - 1) as nat, j);
    }
}

proof fn lemma_chain_ended_after(pr: Seq<Option<usize>>, s: usize, k: nat, n: nat)
    requires
        chain(pr, s, k) matches Some(u) ==> u >= pr.len(),
        n > k,
    ensures chain(pr, s, n) is None,
    decreases n,
{
    if n > k + 1 {
        lemma_chain_ended_after(pr, s, k, (n - 1) as nat);
    }
}

proof fn lemma_periodic(pr: Seq<Option<usize>>, s: usize, i: nat, p: nat, m: nat)
    requires chain(pr, s, i) == chain(pr, s, i + p),
    ensures chain(pr, s, i + m) == chain(pr, s, i + p + m),
    decreases m,
{
    if m > 0 {
        lemma_periodic(pr, s, i, p, (m - 1) as nat);
        assert(chain(pr, s, (i + m - 1) as nat) == chain(pr, s, (i + p + m - 1) as nat));
    }
}

proof fn lemma_ended_all_neg<F: Fn(&usize, &Option<usize>) -> bool>(pr: Seq<Option<usize>>, f: F, s: usize, k: nat)
    requires
        forall|j: nat| j <= k ==> neg_at(pr, f, s, j),
        chain(pr, s, k + 1) matches Some(u) ==> u >= pr.len(),
    ensures
        forall|n: nat| neg_at(pr, f, s, n),
{
    assert forall|n: nat| neg_at(pr, f, s, n) by {
        if n > k + 1 {
            lemma_chain_ended_after(pr, s, k + 1, n);
        }
    }
}

proof fn lemma_cycle_neg<F: Fn(&usize, &Option<usize>) -> bool>(pr: Seq<Option<usize>>, f: F, s: usize, k: nat, i: nat, n: nat)
    requires
        forall|j: nat| j <= k ==> neg_at(pr, f, s, j),
        i <= k,
        chain(pr, s, k + 1) == chain(pr, s, i),
    ensures
        neg_at(pr, f, s, n),
    decreases n,
{
    if n > k {
        let p = (k + 1 - i) as nat;
        let m = (n - p - i) as nat;
        lemma_periodic(pr, s, i, p, m);
        assert(i + m == n - p && i + p + m == n);
        lemma_cycle_neg(pr, f, s, k, i, (n - p) as nat);
    }
}

proof fn lemma_cycle_all_neg<F: Fn(&usize, &Option<usize>) -> bool>(pr: Seq<Option<usize>>, f: F, s: usize, k: nat, i: nat)
    requires
        forall|j: nat| j <= k ==> neg_at(pr, f, s, j),
        i <= k,
        chain(pr, s, k + 1) == chain(pr, s, i),
    ensures
        forall|n: nat| neg_at(pr, f, s, n),
{
    assert forall|n: nat| neg_at(pr, f, s, n) by {
        lemma_cycle_neg(pr, f, s, k, i, n);
    }
}

proof fn lemma_first_hit_path<F: Fn(&usize, &Option<usize>) -> bool>(pr: Seq<Option<usize>>, f: F, s: usize, k: nat, p: Seq<usize>)
    requires
        deterministic(f),
        first_hit(pr, f, s, k),
        is_prefix(pr, s, k, p),
    ensures
        link_path(pr, s, p),
        says(f, p.last(), pr[p.last() as int], true),
        forall|i: int| 0 <= i < p.len() - 1 ==> says(f, #[trigger] p[i], pr[p[i] as int], false),
        distinct(p),
{
    assert(chain(pr, s, 0) == Some(p[0]));
    assert(chain(pr, s, k) == Some(p[k as int]));
    assert forall|i: int| 0 <= i < p.len() implies #[trigger] p[i] < pr.len() by {
        assert(chain(pr, s, i as nat) == Some(p[i]));
        if i < k {
            lemma_chain_alive_before(pr, s, k, i as nat);
        }
    }
    assert forall|i: int| 0 < i < p.len() implies #[trigger] link(pr, p, i) by {
        assert(chain(pr, s, i as nat) == Some(p[i]));
        assert(chain(pr, s, (i - 1) as nat) == Some(p[i - 1]));
    }
    assert forall|i: int| 0 <= i < p.len() - 1 implies says(f, #[trigger] p[i], pr[p[i] as int], false) by {
        assert(chain(pr, s, i as nat) == Some(p[i]));
        assert(neg_at(pr, f, s, i as nat));
    }
    assert forall|i: int, j: int| 0 <= i < j < p.len() implies p[i] != p[j] by {
        if p[i] == p[j] {
            assert(chain(pr, s, i as nat) == Some(p[i]));
            assert(chain(pr, s, j as nat) == Some(p[j]));
            let per = (j - i) as nat;
            let m = (k - j) as nat;
            assert(i as nat + per == j as nat);
            lemma_periodic(pr, s, i as nat, per, m);
            let e = (i + m) as nat;
            assert(i as nat + per + m == k);
            assert(chain(pr, s, e) == chain(pr, s, k));
            assert(e < k);
            assert(neg_at(pr, f, s, e));
            assert(pos_at(pr, f, s, k));
        }
    }
}

spec fn never<F: Fn(&usize, &Option<usize>) -> bool>(pr: Seq<Option<usize>>, f: F, s: usize) -> bool {
    forall|n: nat| #![trigger chain(pr, s, n)] neg_at(pr, f, s, n)
}

#[verifier::opaque]
spec fn found<F: Fn(&usize, &Option<usize>) -> bool>(pr: Seq<Option<usize>>, f: F, s: usize, p: Seq<usize>) -> bool {
    &&& exists|k: nat| first_hit(pr, f, s, k) && is_prefix(pr, s, k, p)
    &&& link_path(pr, s, p)
    &&& says(f, p.last(), pr[p.last() as int], true)
    &&& forall|i: int| 0 <= i < p.len() - 1 ==> says(f, #[trigger] p[i], pr[p[i] as int], false)
    &&& distinct(p)
}

#[verifier::opaque]
spec fn inv<F: Fn(&usize, &Option<usize>) -> bool>(pr: Seq<Option<usize>>, f: F, s0: usize, k: nat, s: usize, vis: Seq<bool>, path: Seq<usize>) -> bool {
    &&& s0 < pr.len()
    &&& s < pr.len()
    &&& vis.len() == pr.len()
    &&& chain(pr, s0, k) == Some(s)
    &&& forall|j: nat| j < k ==> neg_at(pr, f, s0, j)
    &&& forall|x: int| 0 <= x < vis.len() && #[trigger] vis[x] ==> seen(pr, s0, k, x as usize)
    &&& (dead(pr, s0, k, s, vis) || is_prefix(pr, s0, k, path))
}

proof fn lemma_init<F: Fn(&usize, &Option<usize>) -> bool>(pr: Seq<Option<usize>>, f: F, s0: usize, vis: Seq<bool>, path: Seq<usize>)
    requires
        s0 < pr.len(),
        vis.len() == pr.len(),
        forall|x: int| 0 <= x < vis.len() ==> !vis[x],
        path.len() == 1,
        path[0] == s0,
    ensures
        inv(pr, f, s0, 0, s0, vis, path),
{
    reveal(inv);
    assert(chain(pr, s0, 0) == Some(s0));
    assert(is_prefix(pr, s0, 0, path));
}

proof fn lemma_hit<F: Fn(&usize, &Option<usize>) -> bool>(pr: Seq<Option<usize>>, f: F, s0: usize, k: nat, s: usize, vis: Seq<bool>, path: Seq<usize>)
    requires
        inv(pr, f, s0, k, s, vis, path),
        deterministic(f),
        s < pr.len(),
        says(f, s, pr[s as int], true),
    ensures
        found(pr, f, s0, path),
{
    reveal(inv);
    if dead(pr, s0, k, s, vis) {
        assert(neg_at(pr, f, s0, (k - 1) as nat));
        assert(says(f, s, pr[s as int], false));
        assert(false);
    }
    assert(pos_at(pr, f, s0, k));
    assert(first_hit(pr, f, s0, k));
    lemma_first_hit_path(pr, f, s0, k, path);
    reveal(found);
}

proof fn lemma_miss<F: Fn(&usize, &Option<usize>) -> bool>(pr: Seq<Option<usize>>, f: F, s0: usize, k: nat, s: usize, vis: Seq<bool>, path: Seq<usize>)
    requires
        inv(pr, f, s0, k, s, vis, path),
        s < pr.len(),
        says(f, s, pr[s as int], false),
    ensures
        forall|j: nat| j <= k ==> neg_at(pr, f, s0, j),
        chain(pr, s0, k + 1) == pr[s as int],
{
    reveal(inv);
    assert(neg_at(pr, f, s0, k));
    assert(chain(pr, s0, (k + 1 - 1) as nat) == Some(s));
}

proof fn lemma_break_ended<F: Fn(&usize, &Option<usize>) -> bool>(pr: Seq<Option<usize>>, f: F, s0: usize, k: nat, s: usize, vis: Seq<bool>, path: Seq<usize>)
    requires
        inv(pr, f, s0, k, s, vis, path),
        s < pr.len(),
        says(f, s, pr[s as int], false),
        pr[s as int] matches Some(v) ==> v >= pr.len(),
    ensures
        never(pr, f, s0),
{
    lemma_miss(pr, f, s0, k, s, vis, path);
    lemma_ended_all_neg(pr, f, s0, k);
}

proof fn lemma_break_visited<F: Fn(&usize, &Option<usize>) -> bool>(pr: Seq<Option<usize>>, f: F, s0: usize, k: nat, s: usize, vis: Seq<bool>, path: Seq<usize>, v: usize)
    requires
        inv(pr, f, s0, k, s, vis, path),
        s < pr.len(),
        says(f, s, pr[s as int], false),
        pr[s as int] == Some(v),
        v < vis.len(),
        vis[v as int],
    ensures
        never(pr, f, s0),
{
    lemma_miss(pr, f, s0, k, s, vis, path);
    assert(seen(pr, s0, k, v)) by { reveal(inv); }
    let i = choose|i: nat| 1 <= i <= k && chain(pr, s0, i) == Some(v);
    lemma_cycle_all_neg(pr, f, s0, k, i);
}

proof fn lemma_pt_step<F: Fn(&usize, &Option<usize>) -> bool>(pr: Seq<Option<usize>>, f: F, s0: usize, k: nat, s: usize, vis: Seq<bool>, path: Seq<usize>, v: usize)
    requires
        inv(pr, f, s0, k, s, vis, path),
        s < pr.len(),
        says(f, s, pr[s as int], false),
        pr[s as int] == Some(v),
        v < pr.len(),
        v < vis.len(),
        !vis[v as int],
    ensures
        inv(pr, f, s0, k + 1, v, vis.update(v as int, true), if v != s { path.push(v) } else { path }),
        count_false(vis.update(v as int, true)) < count_false(vis),
{
    lemma_miss(pr, f, s0, k, s, vis, path);
    reveal(inv);
    let vis2 = vis.update(v as int, true);
    let path2 = if v != s { path.push(v) } else { path };
    lemma_count_false_update(vis, v as int);
    assert(!dead(pr, s0, k, s, vis));
    assert(chain(pr, s0, k + 1) == Some(v));
    assert forall|j: nat| j < k + 1 implies neg_at(pr, f, s0, j) by {}
    assert forall|x: int| 0 <= x < vis2.len() && #[trigger] vis2[x] implies seen(pr, s0, k + 1, x as usize) by {
        if x == v {
            assert(1 <= k + 1 <= k + 1 && chain(pr, s0, k + 1) == Some(x as usize));
        } else {
            assert(vis[x]);
            assert(seen(pr, s0, k, x as usize));
            let i = choose|i: nat| 1 <= i <= k && chain(pr, s0, i) == Some(x as usize);
            assert(1 <= i <= k + 1 && chain(pr, s0, i) == Some(x as usize));
        }
    }
    if v != s {
        assert(is_prefix(pr, s0, k + 1, path2));
    } else {
        assert(chain(pr, s0, ((k + 1) - 1) as nat) == Some(v));
        assert(dead(pr, s0, k + 1, v, vis2));
    }
}

// ---------------------------------------------------------------------------------------------
// Part C.2: the predecessor tree built from the items yielded so far
// ---------------------------------------------------------------------------------------------
spec fn ints(p: Seq<usize>) -> Seq<int> { Seq::new(p.len(), |i: int| p[i] as int) }

/// a yielded vertex v: its hop distance exists; its entry is None iff v is a source; otherwise the entry is a yielded
/// in-neighbour exactly one hop closer to the sources
spec fn pnode_ok(has: ArcRel, srcs: Set<int>, qv: Seq<int>, vis: Seq<bool>, pr: Seq<Option<usize>>, v: int) -> bool {
    &&& is_min_walk_weight(has, unit_w(), srcs, v, hop(has, srcs, v))
    &&& match pr[v] {
        None => srcs.contains(v),
        Some(u) => !srcs.contains(v) && is_done(qv, vis, u as int) && has(u as int, v) && hop(has, srcs, u as int) + 1 == hop(has, srcs, v),
    }
}

#[verifier::opaque]
spec fn ptree(has: ArcRel, srcs: Set<int>, qv: Seq<int>, vis: Seq<bool>, pr: Seq<Option<usize>>) -> bool {
    &&& pr.len() == vis.len()
    &&& forall|v: int| 0 <= v < pr.len() && !is_done(qv, vis, v) ==> #[trigger] pr[v] is None
    &&& forall|v: int| 0 <= v < pr.len() && is_done(qv, vis, v) ==> #[trigger] pnode_ok(has, srcs, qv, vis, pr, v)
}

proof fn lemma_ptree_init(has: ArcRel, srcs: Set<int>, qv: Seq<int>, vis: Seq<bool>, pr: Seq<Option<usize>>)
    requires
        pr.len() == vis.len(),
        forall|v: int| 0 <= v < pr.len() ==> pr[v] is None,
        forall|v: int| !is_done(qv, vis, v),
    ensures ptree(has, srcs, qv, vis, pr),
{
    reveal(ptree);
}

/// the final statement (C05, predecessors): with done == reachable
proof fn lemma_ptree_final(has: ArcRel, srcs: Set<int>, qv: Seq<int>, vis: Seq<bool>, pr: Seq<Option<usize>>)
    requires
        ptree(has, srcs, qv, vis, pr),
        pr.len() <= usize::MAX,
        forall|v: int| is_done(qv, vis, v) <==> reachable(has, srcs, v),
    ensures
        forall|v: int| 0 <= v < pr.len() && srcs.contains(v) ==> #[trigger] pr[v] is None,
        forall|v: int| 0 <= v < pr.len() && !reachable(has, srcs, v) ==> #[trigger] pr[v] is None,
        forall|v: int| 0 <= v < pr.len() && reachable(has, srcs, v) && !srcs.contains(v) ==> tight_pred(has, srcs, #[trigger] pr[v], v),
        forall|v: int| #[trigger] reachable(has, srcs, v) ==> 0 <= v < pr.len() && root_at(has, srcs, pr, v),
{
    assert forall|v: int| #[trigger] reachable(has, srcs, v) implies 0 <= v < pr.len() && root_at(has, srcs, pr, v) by {
        assert(is_done(qv, vis, v));
        assert(pr.len() == vis.len()) by { reveal(ptree); }
        assert(pnode_ok(has, srcs, qv, vis, pr, v)) by { reveal(ptree); }
        let h = hop(has, srcs, v);
        lemma_min_nonneg(has, srcs, v, h);
        assert((v as usize) as int == v);
        lemma_chain_to_source(has, srcs, qv, vis, pr, v as usize, h as nat);
    }
    reveal(ptree);
    assert forall|v: int| 0 <= v < pr.len() && srcs.contains(v) implies #[trigger] pr[v] is None by {
        lemma_src_reachable(has, srcs, v);
        assert(is_done(qv, vis, v));
        assert(pnode_ok(has, srcs, qv, vis, pr, v));
    }
    assert forall|v: int| 0 <= v < pr.len() && !reachable(has, srcs, v) implies #[trigger] pr[v] is None by {
        assert(!is_done(qv, vis, v));
    }
    assert forall|v: int| 0 <= v < pr.len() && reachable(has, srcs, v) && !srcs.contains(v) implies tight_pred(has, srcs, #[trigger] pr[v], v) by {
        assert(is_done(qv, vis, v));
        assert(pnode_ok(has, srcs, qv, vis, pr, v));
        let u = pr[v]->0 as int;
        assert(is_done(qv, vis, u));
        assert(pnode_ok(has, srcs, qv, vis, pr, u));
        lemma_witness_reachable(has, unit_w(), srcs, u, hop(has, srcs, u));
    }
}

/// C05: "every other reachable vertex v has a predecessor u such that u->v is an arc and dist(u) + 1 = dist(v)"
spec fn tight_pred(has: ArcRel, srcs: Set<int>, e: Option<usize>, v: int) -> bool {
    match e {
        None => false,
        Some(u) => has(u as int, v) && reachable(has, srcs, u as int) && exists|l: int| is_min_walk_weight(has, unit_w(), srcs, u as int, l) && is_min_walk_weight(has, unit_w(), srcs, v, l + 1),
    }
}

/// C05: "following predecessors from v reaches a source along a shortest path": after exactly hop(v) links (every link
/// is an arc by tight_pred, and no walk from a source to v has fewer than hop(v) arcs)
spec fn root_at(has: ArcRel, srcs: Set<int>, pr: Seq<Option<usize>>, v: int) -> bool {
    let h = hop(has, srcs, v);
    &&& h >= 0
    &&& is_min_walk_weight(has, unit_w(), srcs, v, h)
    &&& chain(pr, v as usize, h as nat) matches Some(s) && s < pr.len() && pr[s as int] is None && srcs.contains(s as int)
}

/// a lower bound is at most the minimum
proof fn lemma_lb_le(has: ArcRel, srcs: Set<int>, t: int, lb: int, l: int)
    requires is_lower_bound(has, unit_w(), srcs, t, lb), is_min_walk_weight(has, unit_w(), srcs, t, l),
    ensures lb <= l,
{
    let p = choose|p: Seq<int>| walk_from_to(has, srcs, t, p) && walk_weight(unit_w(), p) == l;
    assert(walk_from_to(has, srcs, t, p));
}

proof fn lemma_chain_shift(pr: Seq<Option<usize>>, s: usize, u: usize, k: nat)
    requires s < pr.len(), pr[s as int] == Some(u),
    ensures chain(pr, s, k + 1) == chain(pr, u, k),
    decreases k,
{
    if k == 0 {
        assert(chain(pr, s, 0) == Some(s));
        assert(chain(pr, s, 1) == pr[s as int]);
    } else {
        lemma_chain_shift(pr, s, u, (k - 1) as nat);
        assert(chain(pr, s, ((k + 1) - 1) as nat) == chain(pr, u, (k - 1) as nat));
    }
}

/// following the predecessor entries from a yielded vertex x reaches, after exactly hop(x) links, a source (entry None)
proof fn lemma_chain_to_source(has: ArcRel, srcs: Set<int>, qv: Seq<int>, vis: Seq<bool>, pr: Seq<Option<usize>>, x: usize, h: nat)
    requires
        ptree(has, srcs, qv, vis, pr),
        is_done(qv, vis, x as int),
        h == hop(has, srcs, x as int),
    ensures
        chain(pr, x, h) matches Some(s) && s < pr.len() && pr[s as int] is None && srcs.contains(s as int),
    decreases h,
{
    reveal(ptree);
    assert(pnode_ok(has, srcs, qv, vis, pr, x as int));
    match pr[x as int] {
        None => {
            lemma_src_reachable(has, srcs, x as int);
            assert(chain(pr, x, 0) == Some(x));
        }
        Some(u) => {
            assert(is_done(qv, vis, u as int));
            assert(pnode_ok(has, srcs, qv, vis, pr, u as int));
            lemma_min_nonneg(has, srcs, u as int, hop(has, srcs, u as int));
            lemma_chain_to_source(has, srcs, qv, vis, pr, u, (h - 1) as nat);
            lemma_chain_shift(pr, x, u, (h - 1) as nat);
        }
    }
}

/// along a path of predecessor links starting at a yielded vertex every vertex is yielded and one hop closer
proof fn lemma_link_path_hops(has: ArcRel, srcs: Set<int>, qv: Seq<int>, vis: Seq<bool>, pr: Seq<Option<usize>>, x: usize, p: Seq<usize>, i: int)
    requires
        ptree(has, srcs, qv, vis, pr),
        is_done(qv, vis, x as int),
        link_path(pr, x, p),
        0 <= i < p.len(),
    ensures
        is_done(qv, vis, p[i] as int),
        hop(has, srcs, p[i] as int) + i == hop(has, srcs, x as int),
        i > 0 ==> has(p[i] as int, p[i - 1] as int),
    decreases i,
{
    reveal(ptree);
    if i > 0 {
        lemma_link_path_hops(has, srcs, qv, vis, pr, x, p, i - 1);
        assert(link(pr, p, i));
        assert(p[i - 1] < pr.len());
        assert(pnode_ok(has, srcs, qv, vis, pr, p[i - 1] as int));
    }
}

/// what the reversed search path is: a shortest walk from a source to x
proof fn lemma_link_path_walk(has: ArcRel, srcs: Set<int>, qv: Seq<int>, vis: Seq<bool>, pr: Seq<Option<usize>>, x: usize, p: Seq<usize>)
    requires
        ptree(has, srcs, qv, vis, pr),
        is_done(qv, vis, x as int),
        link_path(pr, x, p),
        pr[p.last() as int] is None,
    ensures
        is_walk(has, ints(p.reverse())),
        srcs.contains(ints(p.reverse())[0]),
        p.reverse().last() == x,
        p.len() - 1 == hop(has, srcs, x as int),
{
    let n = p.len() as int;
    let r = ints(p.reverse());
    lemma_link_path_hops(has, srcs, qv, vis, pr, x, p, n - 1);
    assert(pnode_ok(has, srcs, qv, vis, pr, p[n - 1] as int)) by { reveal(ptree); }
    lemma_src_reachable(has, srcs, p[n - 1] as int);
    assert(r[0] == p[n - 1]);
    assert forall|j: int| 0 <= j < r.len() - 1 implies #[trigger] step_ok(has, r, j) by {
        lemma_link_path_hops(has, srcs, qv, vis, pr, x, p, n - 1 - j);
        assert(r[j] == p[n - 1 - j]);
        assert(r[j + 1] == p[n - 2 - j]);
    }
}
