"""per-property extras: Kani back end, replay searchers, uncovered-function lists, assumption notes"""
import json
import os
import re
import shutil
import subprocess
import time

VERIF = os.path.dirname(os.path.dirname(os.path.abspath(__file__)))
REPO = os.environ.get("VERIF_REPO", "/repo")

COMMON_ASSUMPTIONS = [
    "extraction rules E0-E14 (tools/vx; E14 = collected iterator pipelines rewritten into accumulator loops as the rustdoc of collect / chain / flat_map / map / filter / copied describes) preserve the meaning of the extracted functions; every splice is listed in build/<unit>/<unit>.audit.txt",
    "E5: raw-pointer element access `*p.add(e)` is modelled as checked indexing X[e] of the Vec the pointer was taken from; the generated bound e < X.len() is exactly the UB condition of the original",
    "E4: assert!/panic!/expect/unwrap are modelled as a diverging vpanic()/vexpect(): panicking is an allowed outcome, message formatting is dropped",
    "usize is 64 bits (global size_of usize == 8)",
    "vstd's assumed specifications of Vec / VecDeque / BTreeSet / BTreeMap / slices / iterators",
    "trait-level dispatch is resolved by name to the extracted function or to the stated trait contract (E1/E2); a representation whose method is not itself proved against the trait contract is assumed to satisfy it",
    "a definite 'not satisfied' verdict of Verus/Z3 on an obligation that is discharged on the unchanged tree is reported as a violation; resource-outs are reported as undecided",
]

# ---------------------------------------------------------------------------------------------
# Kani
# ---------------------------------------------------------------------------------------------
KANI = {
    "C15": {
        "quick": ["next_f64_in_unit_interval"],
        "thorough": ["next_f64_in_unit_interval"],
        "flags": ["-Z", "function-contracts"],
        "complete": True,
        "functions": ["Xoshiro256StarStar::next_f64 (src/gen/prng/xoshiro256_star_star.rs) [kani function contract, loop-free, all 2^256 states]"],
    },
    "C18": {
        "quick": [],
        "thorough": [],
        "flags": [],
        "complete": False,
        "functions": ["DistanceMatrix::{new, eccentricities, diameter, center, periphery, is_connected, Index<(usize,usize)>, IndexMut<(usize,usize)>} (src/algo/distance_matrix.rs) [kani, BOUNDED: fixed orders]"],
    },
}


def kani_harnesses(prop, tier):
    k = KANI.get(prop)
    if not k:
        return []
    if prop == "C18":
        # measured: center at order 2 ~110 s, at order 3 ~650 s (Vec push/clear); ecc/periphery at order 3 ~20 s
        # every C18 function is proved by Verus (units dm_metrics, dm_metrics_usize, dm_new, distance_matrix); the Kani
        # harnesses are an independent bounded cross-check kept for the thorough tier (center at order 3 alone: ~11 min)
        sel = []
        if tier == "thorough":
            sel = [(1, "new ecc center periphery", "usize isize"), (2, "new ecc center periphery", "usize isize"),
                   (3, "new ecc center periphery", "usize isize"), (4, "new ecc", "usize isize")]
        hs = []
        for n, ms, ws in sel:
            for w in ws.split():
                for m in ms.split():
                    hs.append("dm_%s_%s_%d" % (m, w, n))
        return hs
    return k[tier]


def run_kani(prop, tier, seed):
    hs = kani_harnesses(prop, tier)
    if not hs:
        return {}
    k = KANI[prop]
    kdir = os.path.join(VERIF, "kani")
    try:
        shutil.copy(os.path.join(REPO, "Cargo.lock"), os.path.join(kdir, "Cargo.lock"))
    except Exception:
        pass
    # the harness crate depends on /repo by path; when VERIF_REPO points elsewhere, patch a copy of the manifest
    manifest = open(os.path.join(kdir, "Cargo.toml")).read()
    env = dict(os.environ)
    env["CARGO_NET_OFFLINE"] = "true"
    work = kdir
    if REPO != "/repo":
        work = os.path.join(VERIF, "build", "run-%d" % os.getpid(), "kani-alt")
        shutil.rmtree(work, ignore_errors=True)
        shutil.copytree(kdir, work)
        open(os.path.join(work, "Cargo.toml"), "w").write(manifest.replace('path = "/repo"', 'path = "%s"' % REPO))
    cmd = ["cargo", "kani"] + k["flags"] + ["--output-format", "terse", "-j", "12"]
    for h in hs:
        cmd += ["--harness", h]
    t0 = time.time()
    try:
        p = subprocess.run(cmd, cwd=work, env=env, capture_output=True, text=True, timeout=3300)
        out = p.stdout + "\n" + p.stderr
        rc = p.returncode
    except subprocess.TimeoutExpired as e:
        out = (e.stdout or "") + "\n" + (e.stderr or "") if isinstance(e.stdout, str) else ""
        rc = -9
    wall = time.time() - t0
    res = {"cmds": [" ".join(cmd)], "obligations": [], "failures": [], "undecided": [], "samples": [], "solver_time_s": 0.0,
           "functions": k["functions"], "bounded": [], "trusted_base": ["Kani 0.68 / CBMC 6.11 (bit-precise, including IEEE-754 floats)"], "assumptions": []}
    m = re.search(r"Complete - (\d+) successfully verified harnesses, (\d+) failures, (\d+) total", out)
    failed = set(re.findall(r"Verification failed for - (\S+)", out))
    for t in re.findall(r"Verification Time: ([0-9.]+)s", out):
        res["solver_time_s"] += float(t)
    res["solver_time_s"] = round(res["solver_time_s"], 2)
    if rc == -9 or not m or int(m.group(3)) != len(hs):
        res["undecided"].append("kani did not complete for %s (exit %s): %s" % (prop, rc, out[-1500:]))
        return res
    for h in hs:
        oid = "kani::%s" % h
        res["obligations"].append(oid)
        bad = [f for f in failed if f.endswith("::" + h) or f == h]
        if bad:
            detail = ""
            mm = re.search(r"Failed Checks:[^\n]*\n(?:.*\n){0,6}", out)
            if mm:
                detail = mm.group(0)
            res["failures"].append({"obligation": oid, "fn": h, "props": [prop], "msg": "kani harness failed", "rendered": detail or "see kani output", "hint": False, "unit": "kani", "orig": "kani/src/lib.rs"})
    if not k["complete"]:
        res["bounded"].append("C18 metrics: Kani harnesses at fixed orders %s only (entries and infinity fully symbolic, unwinding assertions on): complete for those orders, silent about larger ones" % sorted(set(int(h.rsplit("_", 1)[1]) for h in hs)))
    res["samples"] = [{"id": "kani::" + h, "clause": "harness %s in kani/src/lib.rs" % h} for h in hs[:4]]
    covers = re.findall(r"(\d+) of (\d+) cover properties satisfied", out)
    for a, b in covers:
        if a != b:
            res["undecided"].append("kani cover property unsatisfied (vacuity guard) in %s" % prop)
    return res


# ---------------------------------------------------------------------------------------------
def unsafe_inventory(under_contract):
    """every `unsafe` block of /repo/src (non-test code) with its enclosing function; covered = that function is under contract
    in a unit serving C13.  under_contract: set of (file relative to repo, first line, last line) of the extracted functions"""
    import glob
    files = sorted(glob.glob(os.path.join(REPO, "src", "**", "*.rs"), recursive=True))
    req = {"items": [{"id": os.path.relpath(f, REPO), "file": f, "kind": "inventory", "name": ""} for f in files]}
    rp = os.path.join(VERIF, "build", "inventory.req.json")
    os.makedirs(os.path.dirname(rp), exist_ok=True)
    json.dump(req, open(rp, "w"))
    p = subprocess.run([os.path.join(VERIF, "tools/vx/target/release/vx"), rp], capture_output=True, text=True)
    if p.returncode != 0:
        return {"error": p.stderr[-500:]}
    total, covered, open_sites = 0, 0, []
    for item in json.loads(p.stdout):
        rel = item["id"]
        for row in item.get("inventory", []):
            if row.get("kind", "unsafe") != "unsafe":
                continue
            total += 1
            fn = row["fn"]
            ln = int(row["line"])
            ok = any(f == rel and a <= ln <= b for (f, a, b) in under_contract)
            if ok:
                covered += 1
            else:
                open_sites.append("%s:%s %s" % (rel, row["line"], fn))
    return {"unsafe_blocks_total": total, "unsafe_blocks_in_functions_under_contract": covered, "unsafe_blocks_not_covered": open_sites}


KANI_CONTRACT_FNS = {("src/gen/prng/xoshiro256_star_star.rs", "next_f64")}


def function_inventory():
    """every fn definition with a body in /repo/src outside test code (functions written inside macro_rules bodies are not
    parsed and not listed) against the functions under contract in ANY registered unit, matched by file and source line
    range of the extracted text; mechanical, recomputed every run"""
    import glob
    import tempfile
    import vcheck
    spans = []   # (file, start, end)
    tmp = tempfile.mkdtemp(prefix="inv_", dir=os.path.join(VERIF, "build"))
    try:
        for u in vcheck.load_units(None):
            try:
                u.generate(os.path.join(tmp, u.name))
            except Exception:
                continue
            for d in u.fns:
                if d.vx and not getattr(d, "dep", False):
                    spans.append((d.opts["file"], d.vx["orig_start_line"], d.vx["orig_end_line"]))
        files = sorted(glob.glob(os.path.join(REPO, "src", "**", "*.rs"), recursive=True))
        # test-only files (declared `#[cfg(test)] mod ...;` in their parent)
        files = [f for f in files if os.path.basename(f) not in ("fixture.rs", "proptest_strategy.rs")]
        req = {"items": [{"id": os.path.relpath(f, REPO), "file": f, "kind": "inventory", "name": ""} for f in files]}
        rp = os.path.join(tmp, "inventory.req.json")
        json.dump(req, open(rp, "w"))
        p = subprocess.run([os.path.join(VERIF, "tools/vx/target/release/vx"), rp], capture_output=True, text=True)
    finally:
        shutil.rmtree(tmp, ignore_errors=True)
    if p.returncode != 0:
        return {"error": p.stderr[-500:]}
    total, covered, open_fns, kani = 0, 0, [], []
    for item in json.loads(p.stdout):
        rel = item["id"]
        for row in item.get("inventory", []):
            if row.get("kind") != "fn":
                continue
            fn = row["fn"]
            parts = [x for x in fn.split("::")]
            if len(parts) > 2 or (len(parts) == 2 and not (fn.startswith("<") or fn.startswith("trait ") or parts[0][:1].isupper())):
                continue   # fn nested inside a fn
            total += 1
            ln = int(row["line"])
            if any(f == rel and a <= ln <= b for (f, a, b) in spans):
                covered += 1
            elif (rel, fn.split("::")[-1]) in KANI_CONTRACT_FNS:
                covered += 1
                kani.append("%s:%s %s" % (rel, row["line"], fn))
            else:
                open_fns.append("%s:%s %s" % (rel, row["line"], fn))
    return {"functions_total": total, "functions_under_contract": covered, "of_which_by_kani_function_contract": kani,
            "functions_not_under_contract": open_fns}


STANDIN_PROPS = {"C01", "C02", "C03", "C04", "C05", "C06", "C07", "C08", "C09", "C10", "C11", "C12", "C14", "C13", "C15", "C16", "C17", "C18", "C19", "C20"}


def uncovered(prop):
    p = os.path.join(VERIF, "uncovered.json")
    if os.path.exists(p):
        return json.load(open(p)).get(prop, [])
    return []


def assumptions(prop):
    return list(COMMON_ASSUMPTIONS)


def run(prop, tier, seed):
    r = run_kani(prop, tier, seed)
    if prop == "C17":
        r = dict(r)
        r["level"] = "other"
        r["explanation"] = ("C17 is decided in two labelled parts: (1) contract proof (Verus) that AdjacencyList::complete equals its definition for an "
                            "arbitrary thread count t >= 1; (2) bounded stand-in (NOT proof): the remaining thread-parallel functions and the seeded "
                            "AdjacencyMap generators are executed against their single-threaded definitions under CPU affinities that make "
                            "available_parallelism() return the listed thread counts; thread interleavings are not controlled")
    return r


# C13's bounded stand-in has two parts.  (1) Its own search (replay/src/search/c_safe.rs): every vertex-taking query of
# every representation called with ids that are NOT vertices (order, order+1, far-out ids, gaps of a non-contiguous
# AdjacencyMap); the answer must be a panic or the neutral answer and the digraph unchanged.  That search runs in the `c13`
# cargo profile (graaf compiled WITH debug assertions, so std's unsafe-precondition checks abort on an out-of-bounds
# get_unchecked / ptr::add); a process killed by a signal is reported with the input that was running.  The same search then
# covers the LEAK half of C13 (replay/src/search/c_leak.rs): the searcher runs under a counting global allocator and, for
# every operation of the unweighted representations (constructors, generators, conversions, complement / converse / union /
# filter_vertices, iterator queries, Bfs / Dfs / Tarjan) on small and structured digraphs, checks that repeating the call
# with the results dropped does not grow the heap (measured between quiescent points, confirmed by a second round).  (2) The
# PRECONDITION of the unchecked accesses: every digraph produced by the safe API is well-formed (no arc to a non-vertex,
# no self-loop, order consistent), which is what the searches of C01 / C14 / C16 establish on their inputs.
STANDIN_ALIASES = {"C13": ["C13", "C01", "C14", "C16"]}
# properties whose search is repeated with overflow checks on (generators / conversions compute sizes and seeds)
OVERFLOW_PROFILE_PROPS = {"C14", "C15", "C16"}
STANDIN_KIND = {
    "C13": "replay searcher (bounded, NOT proof), three parts: (a) every vertex-taking query of every representation with ids that are not vertices "
           "(order, order+1, far-out ids, gaps of a non-contiguous AdjacencyMap) on all digraphs of order <= 3 and structured larger ones, graaf compiled "
           "with debug assertions (std's unsafe-precondition checks abort; a searcher killed by a signal is reported): answer must be a panic or the neutral "
           "answer, digraph unchanged; (b) leak half: every operation of the unweighted representations repeated under a counting global allocator must not "
           "grow the heap; (c) well-formedness of every digraph produced by the safe API (the precondition of the unchecked accesses) via the C01 / C14 / C16 searches",
}


def search(prop, seed, failures, tier="quick"):
    if prop in STANDIN_ALIASES:
        total = 0
        last = {"input": None, "evaluated": 0, "note": ""}
        for q in STANDIN_ALIASES[prop]:
            r = _search(q, seed, failures, tier, profile="c13" if q == "C13" else "release")
            total += r.get("evaluated", 0)
            if r.get("input") is not None or r.get("error"):
                r["evaluated"] = total
                r["note"] = "(%s stand-in via the %s search: well-formedness of digraphs produced by the safe API) %s" % (prop, q, r.get("note", ""))
                return r
            last = r
        last["evaluated"] = total
        last["note"] = "(%s stand-in via the %s searches) no failing input" % (prop, "/".join(STANDIN_ALIASES[prop]))
        return last
    r = _search(prop, seed, failures, tier)
    if prop in OVERFLOW_PROFILE_PROPS and r.get("input") is None and not r.get("error"):
        # second pass with graaf compiled with overflow checks and debug assertions (cargo profile `c13` of the replay crate), as in
        # a dev / test build: an arithmetic overflow on a valid argument (a seed or an order at a boundary) panics there, and a
        # panic on a valid input is a violation; a release build would wrap silently
        r2 = _search(prop, seed, failures, tier, profile="c13")
        if r2.get("input") is not None:
            r2["input"]["search_profile"] = "c13"
            r2["evaluated"] = r.get("evaluated", 0) + r2.get("evaluated", 0)
            r2["note"] = (r2.get("note") or "") + " (found with overflow checks and debug assertions on: cargo profile c13 of the replay crate, as in a dev / test build)"
            return r2
        if not r2.get("error"):
            r["evaluated"] = r.get("evaluated", 0) + r2.get("evaluated", 0)
            r["note"] = (r.get("note") or "") + " (both profiles: release, and c13 = overflow checks + debug assertions)"
    return r


def _search(prop, seed, failures, tier="quick", profile="release"):
    """concrete-input searcher against the real crate (replay/): returns {'input': ..} or {'input': None}"""
    exe = os.path.join(VERIF, "build", "replay-target", profile, "search")
    rdir = os.path.join(VERIF, "replay")
    env = dict(os.environ)
    env["CARGO_NET_OFFLINE"] = "true"
    try:
        if REPO != "/repo":
            # the replay crate depends on /repo by path: build a patched copy against the alternative tree
            alt = os.path.join(VERIF, "build", "run-%d" % os.getpid(), "replay-alt")  # per process: concurrent checks never share it
            shutil.rmtree(alt, ignore_errors=True)
            shutil.copytree(rdir, alt)
            m = open(os.path.join(alt, "Cargo.toml")).read().replace('path = "/repo"', 'path = "%s"' % REPO)
            open(os.path.join(alt, "Cargo.toml"), "w").write(m)
            alt_target = os.path.join(VERIF, "build", "run-%d" % os.getpid(), "replay-alt-target")
            c = open(os.path.join(alt, ".cargo", "config.toml")).read().replace("/verif/build/replay-target", alt_target)
            open(os.path.join(alt, ".cargo", "config.toml"), "w").write(c)
            rdir = alt
            exe = os.path.join(alt_target, profile, "search")
        try:
            shutil.copy(os.path.join(REPO, "Cargo.lock"), os.path.join(rdir, "Cargo.lock"))
        except Exception:
            pass
        b = subprocess.run(["cargo", "build", "--profile", profile, "--bin", "search"], cwd=rdir, env=env, capture_output=True, text=True, timeout=600)
        if b.returncode != 0:
            return {"input": None, "note": "searcher did not build: " + b.stderr[-800:]}
        env2 = dict(os.environ)
        env2["SEARCH_BUDGET_SECS"] = "25" if tier == "quick" else "120"
        seeds = [seed] if tier == "quick" else [seed, seed + 1, seed + 2]
        p = None
        total = 0
        runs = [([], sd) for sd in seeds]
        if prop == "C17":
            # C17 quantifies over CPU-affinity configurations: run the threaded-function search under several affinities,
            # so that available_parallelism() takes those values (bounded: the listed thread counts only)
            ncpu = os.cpu_count() or 1
            ks = [1, 2, 3, 5, 16] if tier == "quick" else list(range(1, 17))
            ks = sorted(set(min(k, ncpu) for k in ks))
            runs = [(["taskset", "-c", "0-%d" % (k - 1)] if k > 1 else ["taskset", "-c", "0"], seed) for k in ks]
        trace = os.path.join(VERIF, "build", "run-%d" % os.getpid(), "search-trace-%s.json" % prop)
        os.makedirs(os.path.dirname(trace), exist_ok=True)
        if os.path.exists(trace):
            os.remove(trace)
        if prop == "C13":
            env2["SEARCH_TRACE_FILE"] = trace
        for pre, sd in runs:
            p = subprocess.run(pre + [exe, prop, str(sd)], capture_output=True, text=True, timeout=300, env=env2)
            if prop == "C13" and p.returncode < 0 and os.path.exists(trace):
                # the searcher was killed by a signal (SIGSEGV / SIGABRT / SIGBUS ...) while a call of the safe API was running
                try:
                    inp = json.load(open(trace))
                except Exception:
                    inp = {"property": prop}
                inp["check"] = "every call of the safe API on this input returns or panics (unwinding)"
                inp["expected"] = "returns or panics"
                inp["actual"] = "the process was terminated by signal %d during this case: %s" % (-p.returncode, p.stderr.strip()[-300:])
                return {"input": inp, "evaluated": total, "note": "the searcher process died while evaluating this input (profile %s: graaf compiled with debug assertions)" % profile}
            mm = re.search(r"evaluated=(\d+)", p.stdout)
            total += int(mm.group(1)) if mm else 0
            if "FOUND " in p.stdout or "NONE" not in p.stdout:
                break
        evaluated = total
        for ln in p.stdout.split("\n"):
            if ln.startswith("FOUND "):
                return {"input": json.loads(ln[6:]), "evaluated": evaluated, "note": "bounded-exhaustive / seeded search over small and structured inputs against the real crate, oracle written from the property text"}
        if "NONE" not in p.stdout:
            return {"input": None, "evaluated": 0, "error": True, "note": "searcher did not finish (exit %d): %s %s" % (p.returncode, p.stdout[-300:], p.stderr[-300:])}
        return {"input": None, "evaluated": evaluated, "note": "searcher found no failing input: %s" % p.stdout.strip()[-200:]}
    except Exception as e:  # searcher is best effort
        return {"input": None, "note": "searcher error: %r" % e}


def replay(prop, path):
    d = json.load(open(path))
    print("failed obligations:")
    for o in d.get("failed_obligations", []):
        print("  " + o)
    if d.get("failing_input") is None:
        print("no failing input recorded (the verifier gave no counterexample); the failed obligations and verifier output are in the file")
        return 0
    q = d["failing_input"].get("property", prop)   # a stand-in alias (C13 via the C01 / C14 / C16 searches) replays under its own search
    prof = d["failing_input"].get("search_profile") or ("c13" if q == "C13" else "release")
    exe = os.path.join(VERIF, "build", "replay-target", prof, "search")
    if not os.path.exists(exe):
        subprocess.run(["cargo", "build", "--profile", prof, "--bin", "search"], cwd=os.path.join(VERIF, "replay"), capture_output=True, text=True)
    p = subprocess.run([exe, q, "--replay", json.dumps(d["failing_input"])], capture_output=True, text=True)
    print(p.stdout)
    if p.returncode < 0:
        print("the replay process was terminated by signal %d: %s" % (-p.returncode, p.stderr.strip()[-300:]))
        return 1
    return 1 if "FOUND" in p.stdout else 0
