"""per-property extras: Kani back end, replay searchers, uncovered-function lists, assumption notes"""
import json
import os

VERIF = os.path.dirname(os.path.dirname(os.path.abspath(__file__)))

COMMON_ASSUMPTIONS = [
    "extraction rules E0-E11 (tools/vx) preserve the meaning of the extracted functions; every splice is listed in build/<unit>/<unit>.audit.txt",
    "E5: raw-pointer element access `*p.add(e)` is modelled as checked indexing X[e] of the Vec the pointer was taken from; the generated bound e < X.len() is exactly the UB condition of the original",
    "usize is 64 bits (global size_of usize == 8)",
    "vstd's assumed specifications of Vec / VecDeque / BTreeSet / BTreeMap / slices / iterators",
    "trait-level dispatch is resolved by name to the extracted function or to the stated trait contract (E1/E2)",
]


def uncovered(prop):
    p = os.path.join(VERIF, "uncovered.json")
    if os.path.exists(p):
        return json.load(open(p)).get(prop, [])
    return []


def assumptions(prop):
    return list(COMMON_ASSUMPTIONS)


def run(prop, tier, seed):
    return {}


def search(prop, seed, failures):
    return {"input": None, "note": "no searcher for this property yet"}


def replay(prop, path):
    d = json.load(open(path))
    print(json.dumps(d.get("failed_obligations"), indent=1))
    if d.get("failing_input") is None:
        print("no failing input recorded (verifier gave no counterexample); the failed obligations and verifier output are in the file")
        return 0
    return 0
