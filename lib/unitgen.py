"""Unit templates -> generated Verus files (extract from /repo, inject contracts).

A unit template (units/<name>.rs) is Verus text with directives:

  //@unit props=C01,C02 tier=quick [rlimit=20]
  //@file src/repr/adjacency_matrix/mod.rs        default source file for following directives
  //@include prelude/std_contracts.rs             textual include (path relative to /verif)
  /*@struct name=AdjacencyMatrix [subst=D:Dg] [drop=D] @*/
  /*@fn impl=AdjacencyMatrix [trait=AddArc] name=toggle [props=C01,C13] [novac] ...
  requires ... ensures ...            <- signature contract, verbatim Verus
  @loop 1                              <- contract of the 1st loop (source order)
  invariant ... decreases ...
  @closure 1 |x: usize| -> (b: bool)
  ensures ...
  @before `let i = self.index(u, v);`  <- proof hint before the statement starting with that text
  proof { ... }
  @after `...`   @fn_start   @fn_end   @loop_start N   @loop_end N
  @panic *                             <- text placed at panic sites (E4)
  @manual `from` => `to` :: reason     <- exact-text replacement, reported as rule M
  @*/

Everything between directives is copied verbatim (spec fns, lemmas, impl headers).
"""
import json
import os
import re
import shlex
import subprocess

VERIF = os.path.dirname(os.path.dirname(os.path.abspath(__file__)))
REPO = os.environ.get("VERIF_REPO", "/repo")
VX = os.path.join(VERIF, "tools/vx/target/release/vx")


class GenError(Exception):
    """extraction refused / lost anchor: the run is undecided (exit 2)"""


def split_clauses(text):
    """split a requires/ensures/invariant list on top-level commas"""
    out, cur, depth, i, n = [], "", 0, 0, len(text)
    while i < n:
        c = text[i]
        m = re.match(r"(forall|exists|choose)\s*\|", text[i:])
        if m and (i == 0 or not (text[i - 1].isalnum() or text[i - 1] == "_")):
            j = text.index("|", i + m.end())
            cur += text[i : j + 1]
            i = j + 1
            continue
        if c == "|" and depth >= 0:
            # closure bars |x: T| inside clause: treat `|a, b|` commas as nested
            m2 = re.match(r"\|[^|]*\|", text[i:])
            if m2 and i + 1 < n and text[i + 1] != "|" and (i == 0 or text[i - 1] != "|") and re.match(r"\|\s*[a-zA-Z_][^|]*:\s*[^|]*\|", text[i:]):
                cur += m2.group(0)
                i += m2.end()
                continue
        if c in "([{":
            depth += 1
        elif c in ")]}":
            depth -= 1
        if c == "," and depth == 0:
            if cur.strip():
                out.append(cur.strip())
            cur = ""
        else:
            cur += c
        i += 1
    if cur.strip():
        out.append(cur.strip())
    return out


KW = ["requires", "ensures", "invariant_except_break", "invariant", "decreases", "recommends", "no_unwind", "opens_invariants", "returns"]


def split_contract(text):
    """-> list of (keyword, [clauses]) in order"""
    text = re.sub(r"//[^\n]*", "", text)
    toks = re.split(r"(?m)^\s*(%s)\b" % "|".join(KW), text)
    res = []
    if toks[0].strip():
        raise GenError("contract text before first keyword: %r" % toks[0][:80])
    for k in range(1, len(toks), 2):
        res.append((toks[k], split_clauses(toks[k + 1])))
    return res


class Line:
    __slots__ = ("text", "fn", "kind", "clause", "orig")

    def __init__(self, text, fn=None, kind="template", clause=None, orig=None):
        self.text, self.fn, self.kind, self.clause, self.orig = text, fn, kind, clause, orig


class FnDir:
    def __init__(self):
        self.opts = {}
        self.sig = ""
        self.loops = {}
        self.closures = {}
        self.hoists = {}
        self.hints = []  # (where, text_anchor, occ, loop, hint_text)
        self.panic = {}
        self.manual = []
        self.props = []
        self.id = ""
        self.vx = None
        self.obligations = []  # dicts
        self.tline = 0


def parse_fn_directive(header, body, default_file, unit_props, tline):
    d = FnDir()
    d.tline = tline
    toks = shlex.split(header)
    for t in toks:
        if "=" in t:
            k, v = t.split("=", 1)
            d.opts[k] = v
        else:
            d.opts[t] = True
    d.opts.setdefault("file", default_file)
    d.props = d.opts["props"].split(",") if "props" in d.opts else list(unit_props)
    cur = ("sig", None)
    buf = {cur: []}
    order = [cur]
    for ln in body.split("\n"):
        s = ln.strip()
        if s.startswith("@") and not s.startswith("@*/"):
            m = re.match(r"@(\w+)\s*(.*)$", s)
            kind, rest = m.group(1), m.group(2).strip()
            cur = (kind, rest, len(order))
            buf[cur] = []
            order.append(cur)
        else:
            buf[cur].append(ln)
    for key in order:
        text = "\n".join(buf[key]).strip("\n")
        kind = key[0]
        if kind == "sig":
            d.sig = text
            continue
        rest = key[1]
        if kind == "loop":
            d.loops[int(rest)] = text
        elif kind == "closure":
            m = re.match(r"(\d+)\s+(\|.*\|)\s*->\s*(.+)$", rest)
            if not m:
                raise GenError("bad @closure header: %s" % rest)
            d.closures[int(m.group(1))] = {"params": m.group(2), "ret": m.group(3).strip(), "text": text}
        elif kind == "hoist":
            m = re.match(r"(\d+)\s+fn\s+(\w+)\s*(<[^(]*>)?\s*\((.*)\)\s*->\s*(.+)$", rest)
            if not m:
                raise GenError("bad @hoist header: %s" % rest)
            d.hoists[int(m.group(1))] = {"name": m.group(2), "generics": m.group(3) or "", "params": m.group(4), "ret": m.group(5).strip(), "text": text}
        elif kind in ("before", "after"):
            m = re.match(r"(?:#(\d+)\s+)?`(.*)`$", rest)
            if not m:
                raise GenError("bad @%s header: %s" % (kind, rest))
            d.hints.append({"where": kind, "text": m.group(2), "occ": int(m.group(1) or 0), "loop": 0, "hint": text})
        elif kind in ("fn_start", "fn_end"):
            d.hints.append({"where": kind, "text": "", "occ": 0, "loop": 0, "hint": text})
        elif kind in ("loop_start", "loop_end", "before_call", "at_break"):
            d.hints.append({"where": kind, "text": "", "occ": 0, "loop": int(rest), "hint": text})
        elif kind == "panic":
            d.panic[rest or "*"] = text
        elif kind == "manual":
            m = re.match(r"`(.*)`\s*=>\s*`(.*)`\s*::\s*(.*)$", rest)
            if not m:
                raise GenError("bad @manual header: %s" % rest)
            d.manual.append([m.group(1), m.group(2), m.group(3)])
        else:
            raise GenError("unknown section @%s" % kind)
    for i, h in enumerate(d.hints):
        h["id"] = "h%d" % i
    return d


def parse_subst(s):
    """subst=D=>Dg;Self::Item=>usize"""
    out = {}
    if s:
        for kv in s.split(";"):
            k, v = kv.split("=>", 1)
            out[k.strip()] = v.strip()
    return out


class Unit:
    def __init__(self, path):
        self.path = path
        self.name = os.path.splitext(os.path.basename(path))[0]
        self.props = []
        self.tier = "quick"
        self.rlimit = 20
        self.fns = []  # FnDir (kind fn)
        self.items = []  # sequence of ("text", str) | ("fn", FnDir) | ("struct", dict)
        self.lemmas = []
        self.parse()

    def parse(self):
        self._cur_text = []
        self._default_file = None
        self._parse_text(open(self.path).read(), dep=False)
        self._flush()

    def _flush(self):
        if self._cur_text:
            self.items.append(("text", "\n".join(self._cur_text)))
            self._cur_text = []

    def _parse_text(self, txt, dep):
        lines = txt.split("\n")
        i = 0
        while i < len(lines):
            ln = lines[i]
            s = ln.strip()
            if s.startswith("//@unit"):
                for t in shlex.split(s[len("//@unit"):]):
                    k, v = t.split("=", 1)
                    if k == "props":
                        self.props = v.split(",")
                    elif k == "tier":
                        self.tier = v
                    elif k == "rlimit":
                        self.rlimit = float(v)
            elif s.startswith("//@file"):
                self._default_file = s.split()[1]
            elif s.startswith("//@include") or s.startswith("//@import"):
                rel = s.split()[1]
                p = os.path.join(VERIF, rel)
                text = open(p).read()
                self._flush()
                if "/*@fn" in text or "/*@struct" in text or "//@include" in text or "//@import" in text:
                    # a template fragment with directives: parsed in place. //@import = dependency:
                    # its functions are re-verified here but their obligations belong to the unit that owns them
                    saved = self._default_file
                    self._parse_text(text, dep or s.startswith("//@import"))
                    self._flush()
                    self._default_file = saved
                else:
                    self.items.append(("include", (rel, text)))
            elif s.startswith("/*@struct") or s.startswith("/*@type"):
                self._flush()
                kind = "struct" if s.startswith("/*@struct") else "type"
                hdr = s[len("/*@" + kind):]
                hdr = hdr.replace("@*/", "")
                opts = {}
                for t in shlex.split(hdr):
                    k, v = t.split("=", 1)
                    opts[k] = v
                opts.setdefault("file", self._default_file)
                opts["kind"] = kind
                opts["tline"] = i + 1
                self.items.append(("struct", opts))
            elif s.startswith("/*@fn"):
                self._flush()
                header = s[len("/*@fn"):]
                body = []
                tline = i + 1
                if header.rstrip().endswith("@*/"):
                    header = header.rstrip()[:-3]
                else:
                    i += 1
                    while not lines[i].strip().startswith("@*/"):
                        body.append(lines[i])
                        i += 1
                d = parse_fn_directive(header, "\n".join(body), self._default_file, self.props, tline)
                d.dep = dep
                if dep:
                    d.props = []
                    d.opts["novac"] = True
                self.fns.append(d)
                self.items.append(("fn", d))
            else:
                self._cur_text.append(ln)
            i += 1

    # ------------------------------------------------------------------
    def request(self):
        items = []
        n = 0
        for kind, it in self.items:
            if kind == "struct":
                n += 1
                it["id"] = "s%d" % n
                items.append({"id": it["id"], "file": os.path.join(REPO, it["file"]), "kind": it["kind"], "name": it["name"], "subst": parse_subst(it.get("subst")), "drop_generics": it["drop"].split(",") if it.get("drop") else [], "rename": it.get("rename"), "ptr_field": it.get("ptrfield")})
            elif kind == "fn":
                n += 1
                d = it
                o = d.opts
                d.id = "f%d" % n
                items.append({
                    "id": d.id, "file": os.path.join(REPO, o["file"]), "kind": "fn",
                    "impl_type": o.get("impl"), "trait": o.get("trait"), "impl_contains": o.get("implhas"),
                    "name": o["name"], "rename": o.get("rename"),
                    "subst": parse_subst(o.get("subst")),
                    "drop_generics": o["drop"].split(",") if o.get("drop") else [],
                    "drop_where": o["dropwhere"].split(",") if o.get("dropwhere") else [],
                    "closures": {str(k): {"params": v["params"], "ret": v["ret"]} for k, v in d.closures.items()},
                    "anchors": [{"id": h["id"], "where": h["where"], "text": h["text"], "occ": h["occ"], "loop": h["loop"]} for h in d.hints],
                    "ret_name": o.get("ret"),
                    "no_ptr_rule": bool(o.get("noptr")),
                    "ptr_field": o.get("ptrfield"),
                    "safe_index": bool(o.get("safeindex")),
                    "iter_inline": parse_subst(o.get("iterinline")),
                    "macro_rules": o.get("macro"), "macro_arg": o.get("macroarg"),
                    "hoist": {str(k): {"name": v["name"], "generics": v["generics"], "params": v["params"], "ret": v["ret"]} for k, v in d.hoists.items()},
                    "ret_type": o.get("rettype"),
                    "wrap": o["wrap"].split(",") if o.get("wrap") else [],
                    "manual": d.manual,
                    "loopify": o.get("loopify"),
                    "fuse": bool(o.get("fuse")),
                    "eager": bool(o.get("eager")),
                })
        return {"items": items}

    def generate(self, outdir, vacuity=False):
        """returns (path, [Line]) ; raises GenError on refusal"""
        req = self.request()
        os.makedirs(outdir, exist_ok=True)
        rp = os.path.join(outdir, self.name + ".req.json")
        json.dump(req, open(rp, "w"), indent=1)
        p = subprocess.run([VX, rp], capture_output=True, text=True)
        if p.returncode != 0:
            raise GenError("vx failed: " + p.stderr[-2000:])
        res = {r["id"]: r for r in json.loads(p.stdout)}
        errs = []
        for r in res.values():
            for e in r["errors"]:
                errs.append("%s: %s" % (r["id"], e))
        if errs:
            raise GenError("; ".join(errs))
        out = []
        for kind, it in self.items:
            if kind == "text":
                for ln in it.split("\n"):
                    out.append(Line(ln))
            elif kind == "include":
                name, text = it
                for ln in text.split("\n"):
                    out.append(Line(ln, kind="include:" + name))
            elif kind == "struct":
                r = res[it["id"]]
                it["vx"] = r
                for ln in r["text"].split("\n"):
                    out.append(Line(ln, kind="struct", orig="%s:%d" % (it["file"], r["orig_start_line"])))
            elif kind == "fn":
                d = it
                d.vx = res[d.id]
                out.extend(self.assemble_fn(d, False))
                if vacuity and not d.opts.get("novac"):
                    keep = d.obligations
                    out.extend(self.assemble_fn(d, True))
                    d.obligations = keep
        path = os.path.join(outdir, self.name + ("_vac" if vacuity else "") + ".rs")
        with open(path, "w") as f:
            f.write("\n".join(l.text for l in out) + "\n")
        return path, out

    def assemble_fn(self, d, vacuity):
        r = d.vx
        name = d.opts.get("rename") or d.opts["name"]
        fq = "%s::%s" % (d.opts.get("impl") or "", name) if d.opts.get("impl") else name
        d.fq = fq
        d.obligations = []
        out = []
        orig = "%s:%d" % (d.opts["file"], r["orig_start_line"])
        nloops = len(r["loops"])
        for k in d.loops:
            if k > nloops:
                raise GenError("lost anchor: %s has %d loops, contract names loop %d" % (fq, nloops, k))

        def obl(kind, clause, hint=False, props=None):
            oid = "%s::%s::%s::%s" % (self.name, fq, kind, re.sub(r"\s+", " ", clause)[:160])
            d.obligations.append({"id": oid, "fn": fq, "kind": kind, "hint": hint, "clause": re.sub(r"\s+", " ", clause), "props": props if props is not None else d.props})
            return oid

        def contract_lines(text, where, extra_false=False):
            ls = []
            secs = split_contract(text) if text.strip() else []
            if extra_false:
                placed = False
                for k, (kw, cl) in enumerate(secs):
                    if kw == "ensures":
                        cl.append("false")
                        placed = True
                if not placed:
                    idx = len(secs)
                    for k, (kw, cl) in enumerate(secs):
                        if kw == "decreases":
                            idx = k
                            break
                    secs.insert(idx, ("ensures", ["false"]))
            for kw, clauses in secs:
                ls.append(Line("    " + kw, fn=d, kind=where + ":" + kw))
                for c in clauses:
                    oid = None
                    # a clause may carry its own property tags:  /*props=C06*/ r is None ==> ...
                    cprops = None
                    mp = re.match(r"/\*props=([A-Z0-9,]+)\*/\s*", c)
                    if mp:
                        cprops = [x for x in mp.group(1).split(",") if not d.dep] if not getattr(d, "dep", False) else []
                        c = c[mp.end():]
                    if cprops is None and d.opts.get("clauseprops") and not getattr(d, "dep", False):
                        # functional clauses of this function belong to other properties than its safety sites
                        cprops = d.opts["clauseprops"].split(",")
                    if kw in ("ensures", "invariant", "invariant_except_break", "decreases") and not (extra_false and c == "false"):
                        oid = obl(where + ":" + kw, c, props=cprops)
                    for j, cl in enumerate((c + ",").split("\n")):
                        ls.append(Line("        " + cl.strip(), fn=d, kind=where + ":" + kw, clause=oid))
            return ls

        def hint_lines(text, where):
            ls = []
            for ln in text.split("\n"):
                oid = None
                if re.search(r"\bassert\b", ln):
                    oid = obl("hint:" + where, ln.strip(), hint=True)
                ls.append(Line(ln, fn=d, kind="hint:" + where, clause=oid))
            return ls

        hints_by_id = {h["id"]: h for h in d.hints}
        text = r["text"]
        if d.opts.get("noisolation"):
            # facts about variables the loop does not modify stay visible inside loop bodies (robust against hoisting a
            # loop-invariant `let` out of a loop / closure)
            text = "#[verifier::loop_isolation(false)]\n" + text
        if vacuity:
            text = re.sub(r"\bfn %s\b" % re.escape(name), "fn %s__vac" % name, text, count=1)
        parts = re.split(r"(/\*@[A-Z]+:?[A-Za-z0-9]*@\*/)", text)
        cur = ""
        body_started = False

        def flush_cur():
            nonlocal cur
            if cur != "":
                for ln in cur.split("\n"):
                    out.append(Line(ln, fn=d, kind="body" if body_started else "sig", orig=orig))
            cur = ""

        for p in parts:
            m = re.match(r"/\*@([A-Z]+):?([A-Za-z0-9]*)@\*/$", p)
            if not m:
                cur += p
                continue
            tag, arg = m.group(1), m.group(2)
            mm = re.match(r"([A-Z]+?)(\d+)$", tag)
            if mm:
                tag, arg = mm.group(1), mm.group(2)
            flush_cur()
            if tag == "SIG":
                out.extend(contract_lines(d.sig, "fn", extra_false=vacuity and not d.opts.get("novac")))
                body_started = True
            elif tag == "LOOP":
                n = int(arg)
                if n in d.loops:
                    out.extend(contract_lines(d.loops[n], "loop%d" % n))
            elif tag == "CLOSURE":
                n = int(arg)
                out.extend(contract_lines(d.closures[n]["text"], "closure%d" % n))
            elif tag == "HOIST":
                n = int(arg)
                out.extend(contract_lines(d.hoists[n]["text"], "hoist%d" % n))
            elif tag == "ANCHOR":
                h = hints_by_id[arg]
                out.extend(hint_lines(h["hint"], "%s %s" % (h["where"], h["text"] or h["loop"] or "")))
            elif tag in ("ANCHORLS", "ANCHORLE", "ANCHORBC", "ANCHORBR"):
                n = int(arg)
                w = {"ANCHORLS": "loop_start", "ANCHORLE": "loop_end", "ANCHORBC": "before_call", "ANCHORBR": "at_break"}[tag]
                for h in d.hints:
                    if h["where"] == w and h["loop"] == n:
                        out.extend(hint_lines(h["hint"], "%s %d" % (w, n)))
            elif tag == "PANIC":
                t = d.panic.get(arg, d.panic.get("*"))
                if t:
                    obl("panic-site%s" % arg, t.strip())
                    for ln in t.split("\n"):
                        out.append(Line(ln, fn=d, kind="panic-site", clause=d.obligations[-1]["id"]))
            else:
                raise GenError("unknown marker " + p)
        flush_cur()
        # safety obligations generated by the body itself (counted from vx's site inventory)
        sites = r["sites"]
        for k in ("index", "e5_access", "unchecked_call", "arith"):
            for j in range(sites.get(k, 0)):
                d.obligations.append({"id": "%s::%s::safety:%s#%d" % (self.name, fq, k, j + 1), "fn": fq, "kind": "safety:" + k, "hint": False, "clause": "", "props": d.props})
        return out
