"""check driver: extract -> inject -> verify (Verus) -> classify -> replay -> evidence"""
import concurrent.futures as cf
import glob
import hashlib
import json
import os
import re
import shutil
import subprocess
import sys
import time

sys.path.insert(0, os.path.dirname(os.path.abspath(__file__)))
import unitgen  # noqa: E402
from unitgen import GenError, Unit, VERIF, REPO  # noqa: E402

BUILD = os.path.join(VERIF, "build")
UNDECIDED_PAT = re.compile(r"rlimit|Resource limit|timed? ?out|not supported|unsupported|internal error|panicked|must have a decreases clause|must have a `decreases`|cannot be used|is not allowed|expected one of", re.I)


def sh(cmd, **kw):
    return subprocess.run(cmd, capture_output=True, text=True, **kw)


def run_verus(path, rlimit, seed, extra=()):
    cmd = ["verus", os.path.basename(path), "--output-json", "--time", "--multiple-errors", "8", "--error-format=json", "--triggers-mode", "silent", "--rlimit", str(rlimit)]
    if seed:
        cmd += ["--smt-option", "smt.random_seed=%d" % (seed % 1000000), "--smt-option", "sat.random_seed=%d" % (seed % 1000000)]
    cmd += list(extra)
    t0 = time.time()
    try:
        p = subprocess.run(cmd, capture_output=True, text=True, cwd=os.path.dirname(path), timeout=float(os.environ.get("VERIF_VERUS_TIMEOUT", "900")))
    except subprocess.TimeoutExpired:
        return {"cmd": " ".join(cmd), "exit": -9, "json": None, "diags": [], "stderr": "verus timed out (wall-clock guard)", "wall": time.time() - t0}
    wall = time.time() - t0
    try:
        js = json.loads(p.stdout)
    except Exception:
        js = None
    diags = []
    for ln in p.stderr.split("\n"):
        ln = ln.strip()
        if ln.startswith("{"):
            try:
                dj = json.loads(ln)
            except Exception:
                continue
            if dj.get("$message_type") == "diagnostic" or "message" in dj:
                diags.append(dj)
    return {"cmd": " ".join(cmd), "exit": p.returncode, "json": js, "diags": diags, "stderr": p.stderr, "wall": wall}


def fn_breakdown(js):
    out = {}
    try:
        for m in js["times-ms"]["smt"]["smt-run-module-times"]:
            for f in m.get("function-breakdown", []):
                out[f["function"]] = f
    except Exception:
        pass
    return out


class UnitResult:
    def __init__(self, unit):
        self.unit = unit
        self.undecided = []  # messages
        self.failures = []  # dicts: obligation id, fn(FnDir), msg, rendered, hint(bool)
        self.vacuous = []
        self.obligations = []
        self.lemmas = []
        self.smt_ms = 0
        self.wall = 0
        self.verified_fns = 0
        self.cmd = ""
        self.assumptions = []
        self.audit = ""
        self.rlimit_used = {}


def scan_assumptions(lines):
    found = []
    pat = re.compile(r"\b(assume_specification|external_body|external_fn_specification|external_type_specification|admit\s*\(|assume\s*\(|exec_allows_no_decreases_clause|#\[verifier::external\]|broadcast\s+axiom|axiom\s+fn)")
    n = len(lines)
    for i, l in enumerate(lines):
        code = l.text.split("//")[0]
        m = pat.search(code)
        if not m:
            continue
        # name: next `fn name` or bracketed path on this or following lines
        name = ""
        for j in range(i, min(n, i + 6)):
            if "assume_specification" in m.group(1):
                t = lines[j].text
                k = t.find("[", t.find("assume_specification") + 1 if j == i else 0)
                # the generic parameter list `<T, I: ..<[T]>>` may contain brackets: take the bracket group that follows the `>` of the generics
                gen_end = 0
                if j == i:
                    depth = 0
                    for pos, ch in enumerate(t[t.find("assume_specification") + len("assume_specification"):], t.find("assume_specification") + len("assume_specification")):
                        if ch == "<":
                            depth += 1
                        elif ch == ">":
                            depth -= 1
                            if depth == 0:
                                gen_end = pos
                                break
                        elif ch == "[" and depth == 0:
                            break
                    k = t.find("[", gen_end)
                if k >= 0:
                    depth = 0
                    for pos in range(k, len(t)):
                        if t[pos] == "[":
                            depth += 1
                        elif t[pos] == "]":
                            depth -= 1
                            if depth == 0:
                                name = t[k + 1:pos].strip()
                                break
                    if name:
                        break
            mm = re.search(r"\bfn\s+(\w+)", lines[j].text)
            if mm:
                name = mm.group(1)
                break
            mm = re.search(r"\bstruct\s+(\w+)", lines[j].text)
            if mm:
                name = mm.group(1)
                break
        where = l.kind if l.kind.startswith("include:") else ("extracted:" + l.fn.fq if l.fn is not None else "unit template")
        found.append("%s %s (%s)" % (m.group(1).strip("( "), name, where))
    return sorted(set(found))


RUN_ROOT = None  # bin/check sets a per-process directory so that concurrent checks never share generated files


def process_unit(unit, seed, vacuity=True):
    res = UnitResult(unit)
    outdir = os.path.join(RUN_ROOT or BUILD, unit.name)
    shutil.rmtree(outdir, ignore_errors=True)
    os.makedirs(outdir)
    t0 = time.time()
    try:
        path, lines = unit.generate(outdir)
        if vacuity:
            vpath, vlines = unit.generate(outdir, vacuity=True)
            # regenerate obligations for the main variant (generate() overwrote them)
            path, lines = unit.generate(outdir)
    except GenError as e:
        res.undecided.append("extraction refused / lost anchor in unit %s: %s" % (unit.name, e))
        return res
    except Exception as e:  # template bug
        res.undecided.append("generator error in unit %s: %r" % (unit.name, e))
        return res
    # audit file
    with open(os.path.join(outdir, unit.name + ".audit.txt"), "w") as f:
        for d in unit.fns:
            f.write("==== %s  (%s:%d-%d)\n-- original\n%s\n-- edits\n" % (d.fq, d.opts["file"], d.vx["orig_start_line"], d.vx["orig_end_line"], d.vx["orig_text"]))
            for e in d.vx["edits"]:
                f.write("  [%s] line %d: %r -> %r\n" % (e["rule"], e["line"], e["from"][:100], e["to"][:100]))
            f.write("-- extracted (markers = injection points)\n%s\n\n" % d.vx["text"])
    for d in unit.fns:
        res.obligations.extend(d.obligations)
    res.assumptions = scan_assumptions(lines)
    # trusted extractor rewrites (rule E14 / E14b / E14c) are assumptions too: list each function they were applied to
    for d in unit.fns:
        rules = sorted(set(e["rule"].split()[0] for e in d.vx["edits"] if e["rule"].startswith("E14")))
        if rules:
            res.assumptions.append("extractor rule %s applied to %s: collect / chain / flat_map%s replaced by accumulator loops as their rustdoc describes (trusted rewrite, DESIGN section 5)" % ("+".join(rules), d.fq, " / fused map, filter, copied stages" if any(r != "E14" for r in rules) else ""))
    # template lemmas (proof fns) are obligations too
    for l in lines:
        if l.fn is None:
            m = re.match(r"\s*(?:pub\s+)?(?:broadcast\s+)?proof\s+fn\s+(\w+)", l.text)
            if m and "external_body" not in l.text:
                res.lemmas.append(m.group(1))
    with cf.ThreadPoolExecutor(2) as ex:
        fut = ex.submit(run_verus, path, unit.rlimit, seed)
        vfut = ex.submit(run_verus, vpath, unit.rlimit, seed) if vacuity else None
        r = fut.result()
        vr = vfut.result() if vfut else None
    res.cmd = r["cmd"]
    res.wall = time.time() - t0
    if r["json"] is None:
        res.undecided.append("verus produced no JSON for unit %s: %s" % (unit.name, r["stderr"][-1500:]))
        return res
    vres = r["json"]["verification-results"]
    res.verified_fns = vres.get("verified", 0)
    try:
        res.smt_ms = r["json"]["times-ms"]["smt"]["smt-run"]
    except Exception:
        pass
    fb = fn_breakdown(r["json"])
    res.rlimit_used = {k: v.get("rlimit") for k, v in fb.items()}
    classify(res, r, lines, unit, seed, path)
    if not res.failures and not res.undecided and (r["exit"] != 0 or not vres.get("success", False)):
        # Verus failed without a diagnostic that could be mapped (internal error, panic of the tool): never a pass
        res.undecided.append("unit %s: verus exited %s without a usable diagnostic: %s" % (unit.name, r["exit"], r["stderr"].strip()[-600:]))
    if vacuity and vr is not None and not res.undecided:
        if vr["json"] is None:
            res.undecided.append("vacuity twin of %s produced no JSON" % unit.name)
        else:
            vfb = fn_breakdown(vr["json"])
            for d in unit.fns:
                if d.opts.get("novac"):
                    continue
                hit = [v for k, v in vfb.items() if k.endswith("::" + d.fq + "__vac")]
                if not hit:
                    # compile-level failure of twin?
                    if vr["json"]["verification-results"].get("encountered-vir-error"):
                        res.undecided.append("vacuity twin of %s did not compile" % unit.name)
                        break
                    continue
                if all(h.get("success") for h in hit):
                    res.vacuous.append(d.fq)
    return res


def classify(res, r, lines, unit, seed, path):
    base = os.path.basename(path)
    for dj in r["diags"]:
        if dj.get("level") not in ("error",):
            continue
        msg = dj.get("message", "")
        if msg.startswith("aborting due to") or msg.startswith("could not compile"):
            continue
        spans = [s for s in dj.get("spans", []) if os.path.basename(s.get("file_name", "")) == base]
        for ch in dj.get("children", []):
            spans += [s for s in ch.get("spans", []) if os.path.basename(s.get("file_name", "")) == base]
        rendered = dj.get("rendered", "")
        if UNDECIDED_PAT.search(msg):
            res.undecided.append("unit %s: %s" % (unit.name, rendered.strip()[:600]))
            continue
        if dj.get("code"):
            res.undecided.append("unit %s: compile error %s" % (unit.name, rendered.strip()[:600]))
            continue
        fn = None
        clause = None
        hint = False
        prim_text = ""
        for s in sorted(spans, key=lambda s: not s.get("is_primary")):
            ln = s["line_start"] - 1
            if 0 <= ln < len(lines):
                L = lines[ln]
                if s.get("is_primary") and not prim_text:
                    prim_text = L.text.strip()
                    hint = L.kind.startswith("hint")
                if fn is None and L.fn is not None:
                    fn = L.fn
        for s in sorted(spans, key=lambda s: bool(s.get("is_primary"))):
            ln = s["line_start"] - 1
            if 0 <= ln < len(lines) and lines[ln].clause:
                clause = lines[ln].clause
                break
        # whitelist of verdicts that are failed obligations; every other Verus message is a tool / proof-incompleteness message
        known_kinds = ("not satisfied", "assertion failed", "possible arithmetic", "possible division", "possible bit shift",
                       "unable to prove post-condition", "unable to prove pre-condition", "index out of",
                       "precondition not met")   # vstd custom_err form, e.g. "precondition not met: index in bounds for this access"
        if fn is None:
            if spans:
                res.undecided.append("unit %s: failure outside extracted code (spec library / scaffolding): %s" % (unit.name, rendered.strip()[:600]))
            else:
                res.undecided.append("unit %s: %s" % (unit.name, rendered.strip()[:600]))
            continue
        if not any(k in msg for k in known_kinds):
            res.undecided.append("unit %s fn %s: %s" % (unit.name, fn.fq, rendered.strip()[:600]))
            continue
        if clause is None:
            clause = "%s::%s::%s::%s" % (unit.name, fn.fq, re.sub(r"\s+", "-", msg)[:60], re.sub(r"\s+", " ", prim_text)[:120])
        elif "precondition" in msg or "assertion" in msg:
            pass
        oprops = fn.props
        for o in fn.obligations:
            if o["id"] == clause:
                oprops = o["props"]
        res.failures.append({"obligation": clause, "fn": fn.fq, "props": oprops, "msg": msg, "rendered": rendered, "hint": hint, "orig": "%s:%d" % (fn.opts["file"], fn.vx["orig_start_line"]), "unit": unit.name})


def load_units(prop=None):
    """units listed in units/REGISTRY (finished units only); parsed only if they serve `prop`"""
    names = [l.split("#")[0].strip() for l in open(os.path.join(VERIF, "units", "REGISTRY"))]
    out = []
    for n in names:
        if not n:
            continue
        p = os.path.join(VERIF, "units", n + ".rs")
        if prop is not None:
            m = re.search(r"//@unit[^\n]*props=(\S+)", open(p).read())
            if not m or prop not in m.group(1).split(","):
                continue
        out.append(Unit(p))
    return out


def load_known():
    known, fixed = [], []
    p = os.path.join(VERIF, "known_findings.txt")
    if os.path.exists(p):
        for ln in open(p):
            ln = ln.strip()
            if ln.startswith("known:"):
                m = re.match(r"known:\s*property=(\S+)\s+match=\"([^\"]+)\"\s*::\s*(.*)$", ln) or re.match(r"known:\s*property=(\S+)\s+match=(\S+)\s*::\s*(.*)$", ln)
                if m:
                    known.append({"property": m.group(1), "match": m.group(2), "text": m.group(3)})
            elif ln.startswith("fixed:"):
                fixed.append(ln)
    return known, fixed


def verus_check(prop, tier, seed, extra_handlers=None):
    """returns dict with everything needed for the verdict + evidence"""
    units = [u for u in load_units(prop) if prop in u.props and (tier == "thorough" or u.tier == "quick")]
    results = []
    with cf.ThreadPoolExecutor(6) as ex:
        futs = [ex.submit(process_unit, u, seed) for u in units]
        for f in futs:
            results.append(f.result())
    if tier == "thorough":
        # stability: re-verify with two more solver seeds and a doubled rlimit
        for k in (1, 2):
            with cf.ThreadPoolExecutor(6) as ex:
                futs = [ex.submit(process_unit, u, seed + 7919 * k, False) for u in units]
                for f, base in zip(futs, results):
                    r2 = f.result()
                    a = sorted(x["obligation"] for x in base.failures)
                    b = sorted(x["obligation"] for x in r2.failures)
                    if a != b or bool(r2.undecided) != bool(base.undecided):
                        base.undecided.append("unit %s: verdict differs between solver seeds (%s vs %s)" % (base.unit.name, a, b))
                    base.smt_ms += r2.smt_ms
    return results
