use vstd::prelude::*;
verus! {
global size_of usize == 8;

pub struct PredecessorTree {
    pub pred: Vec<Option<usize>>,
}

impl PredecessorTree {
    pub fn search_by<F>(
        &self,
        mut s: usize,
        is_target: F,
    ) -> (r: Option<Vec<usize>>)
    where
        F: Fn(&usize, &Option<usize>) -> bool,
        requires
            s < self.pred.len(),
            forall|i: int| 0 <= i < self.pred.len() ==> (self.pred[i] matches Some(p) ==> p < self.pred.len()),
            forall|a: &usize, b: &Option<usize>| is_target.requires((a, b)),
    {
        if is_target(&s, &self.pred[s]) {
            return Some(vec![s]);
        }

        let mut visited = vec![false; self.pred.len()];
        let mut path = vec![s];

        while let Some(v__r) = self.pred.get(s)
            invariant visited.len() == self.pred.len(),
                forall|i: int| 0 <= i < self.pred.len() ==> (self.pred[i] matches Some(p) ==> p < self.pred.len()),
                forall|a: &usize, b: &Option<usize>| is_target.requires((a, b)),
        {
            let v = *v__r;
            if is_target(&s, &v) {
                return Some(path);
            }

            if let Some(v) = v {
                if visited[v] {
                    break;
                }

                visited[v] = true;

                if v != s {
                    path.push(v);
                }

                s = v;
            } else {
                break;
            }
        }

        None
    }
}

} // verus!
fn main() {}
