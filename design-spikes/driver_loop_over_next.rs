use vstd::prelude::*;
use std::collections::BTreeSet;
use std::collections::VecDeque;
use vstd::std_specs::iter::IteratorSpec;
verus! {
global size_of usize == 8;

pub struct AdjacencyList {
    arcs: Vec<BTreeSet<usize>>,
}

impl AdjacencyList {
    pub closed spec fn has(&self, u: usize, v: usize) -> bool {
        u < self.arcs@.len() && self.arcs@[u as int]@.contains(v)
    }
    pub closed spec fn ord(&self) -> nat { self.arcs@.len() }
    pub closed spec fn wf(&self) -> bool {
        forall|u: usize, v: usize| self.has(u, v) ==> v < self.ord() && u != v
    }

    fn order(&self) -> (r: usize) ensures r == self.ord() { self.arcs.len() }

    // assumed contract standing for OutNeighbors::out_neighbors (trait RPITIT not supported)
    #[verifier::external_body]
    fn out_neighbors(&self, u: usize) -> (r: impl Iterator<Item = usize> + use<'_>)
        requires u < self.ord()
        ensures
            r.obeys_prophetic_iter_laws(),
            r.decrease() is Some,
            r.remaining().no_duplicates(),
            forall|v: usize| self.has(u, v) ==> r.remaining().contains(v),
            forall|i: int| 0 <= i < r.remaining().len() ==> self.has(u, #[trigger] r.remaining()[i]),
    {
        self.arcs[u].iter().copied()
    }
}

pub struct Bfs<'a> {
    digraph: &'a AdjacencyList,
    queue: VecDeque<usize>,
    visited: Vec<bool>,
}

impl<'a> Bfs<'a> {
    pub closed spec fn inv(&self) -> bool {
        self.digraph.wf() && self.visited.len() == self.digraph.ord()
        && forall|i: int| 0 <= i < self.queue@.len() ==> self.queue@[i] < self.visited.len()
    }

    fn next(&mut self) -> (r: Option<usize>)
        requires old(self).inv(),
        ensures final(self).inv(), final(self).digraph == old(self).digraph,
    {
        let u = self.queue.pop_front()?;
        for v in it: self.digraph.out_neighbors(u)
            invariant self.inv(), self.digraph == old(self).digraph,
               it.iter.obeys_prophetic_iter_laws(), it.iter.decrease() is Some,
               forall|i: int| 0 <= i < it.seq().len() ==> old(self).digraph.has(u, #[trigger] it.seq()[i]),
        {
            if !self.visited[v] {
                self.visited[v] = true;
                self.queue.push_back(v);
            }
        }
        Some(u)
    }

    #[verifier::exec_allows_no_decreases_clause]
    fn collect_all(&mut self) -> (out: Vec<bool>)
        requires old(self).inv(),
        ensures out.len() == old(self).digraph.ord(),
    {
        let order = self.digraph.order();
        let mut seen = vec![false; order];
        let ghost d0 = self.digraph;
        loop
            invariant self.inv(), self.digraph == d0, seen.len() == d0.ord(),
        {
            match self.next() {
                Some(u) => { if u < order { seen[u] = true; } }
                None => { break; }
            }
        }
        seen
    }
}

} // verus!
fn main() {}
