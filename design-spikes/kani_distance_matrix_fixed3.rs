#[cfg(kani)]
mod proofs {
    use graaf::DistanceMatrix;
    #[kani::proof]
    #[kani::unwind(11)]
    fn dm_metrics_fixed3() {
        const N: usize = 3;
        let inf: usize = kani::any();
        let mut m = DistanceMatrix::<usize>::new(N, inf);
        for i in 0..N { for j in 0..N {
            let x: usize = kani::any();
            kani::assume(x <= inf);
            m[(i, j)] = x;
        } }
        let mut ecc = [0usize; N];
        for i in 0..N { let mut mx = 0; for j in 0..N { if m[(i, j)] > mx { mx = m[(i, j)]; } } ecc[i] = mx; }
        let mut k = 0;
        for e in m.eccentricities() { assert!(*e == ecc[k]); k += 1; }
        assert!(k == N);
        let mut dia = 0; let mut mn = usize::MAX;
        for i in 0..N { if ecc[i] > dia { dia = ecc[i]; } if ecc[i] < mn { mn = ecc[i]; } }
        assert!(*m.diameter() == dia);
        let mut conn = true;
        for i in 0..N { if ecc[i] == inf { conn = false; } }
        assert!(m.is_connected() == conn);
    }
}
