use vstd::prelude::*;
use std::collections::BTreeSet;
use std::collections::btree_set;
use vstd::std_specs::iter::IteratorSpec;
verus! {

pub open spec fn strictly_sorted(s: Seq<&usize>) -> bool {
    forall|i: int, j: int| 0 <= i < j < s.len() ==> *s[i] < *s[j]
}

pub broadcast axiom fn axiom_btree_set_iter_sorted<'a>(it: btree_set::Iter<'a, usize>)
    ensures strictly_sorted(#[trigger] it.remaining());

fn probe(s: &BTreeSet<usize>)
{
    broadcast use axiom_btree_set_iter_sorted;
    let it = s.iter();
    assert(it.remaining().to_set().finite());
    assert(forall|i: int| 0 <= i < it.remaining().len() ==> s@.contains(*(#[trigger] it.remaining()[i])));  // P2b
    assert(forall|i: int, j: int| 0 <= i < j < it.remaining().len() ==> *it.remaining()[i] < *it.remaining()[j]); // P3 sorted
}

fn all_lt(s: &BTreeSet<usize>, bound: usize) -> (r: bool)
    ensures r == (forall|x: usize| s@.contains(x) ==> x < bound)
{
    let mut ok = true;
    for x in it: s.iter()
        invariant ok == (forall|i: int| 0 <= i < it.index@ ==> *it.seq()[i] < bound),
    {
        if *x >= bound { ok = false; }
    }
    ok
}

} // verus!
fn main() {}
