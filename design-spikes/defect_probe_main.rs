use graaf::*;
use std::collections::BTreeSet;
fn main() {
    // C03
    let mut d = AdjacencyListWeighted::<usize>::empty(4);
    d.add_arc_weighted(0, 1, 10); d.add_arc_weighted(0, 2, 1); d.add_arc_weighted(2, 1, 1); d.add_arc_weighted(0, 3, 20);
    println!("C03 dijkstra distances: {:?}", DijkstraDist::new(&d, std::iter::once(0)).distances());
    println!("C03 dijkstra order: {:?}", Dijkstra::new(&d, std::iter::once(0)).collect::<Vec<_>>());
    // C06
    let mut l = AdjacencyList::empty(4);
    l.add_arc(0, 1); l.add_arc(0, 2); l.add_arc(0, 3); l.add_arc(3, 2);
    println!("C06 dfs: {:?}", Dfs::new(&l, std::iter::once(0)).collect::<Vec<_>>());
    // C11/C13 AdjacencyMap non-contiguous
    let mut m = AdjacencyMap::empty(1);
    m.add_arc(5, 7);
    println!("map order {} vertices {:?}", m.order(), m.vertices().collect::<Vec<_>>());
    println!("map complement arcs {:?}", m.complement().arcs().collect::<Vec<_>>());
    // matrix empty overflow (debug build panics)
    let r = std::panic::catch_unwind(|| AdjacencyMatrix::empty(1usize << 33));
    println!("matrix empty(2^33) ok? {}", r.is_ok());
    // PredecessorTree revisit
    let p = PredecessorTree::from(vec![Some(1), Some(0)]);
    println!("C19 {:?}", p.search(0, 5));
    let _ = BTreeSet::<usize>::new();
}
