use vstd::prelude::*;
use vstd::slice::SliceIndexSpec;
verus! {

global size_of usize == 8;
// ---- assumed std contracts (prelude) ----
pub assume_specification<T, I: core::slice::SliceIndex<[T]>> [<[T]>::get_unchecked_mut::<I>] (s: &mut [T], i: I) -> (r: &mut <I as core::slice::SliceIndex<[T]>>::Output)
    requires i.in_bounds(old(s)),
    ensures i.index_mut_postcondition(old(s), final(s), &*r, &*final(r));

#[verifier::external_body]
fn vpanic() -> ! { panic!() }

// ---- real code ----
pub struct AdjacencyMatrix {
    blocks: Vec<usize>,
    order: usize,
}

pub open spec fn bit_of(b: usize, k: usize) -> bool { b & (1usize << k) != 0 }

impl AdjacencyMatrix {
    pub closed spec fn wf(&self) -> bool {
        self.order > 0 && self.order * self.order <= usize::MAX && self.blocks@.len() == (self.order * self.order + 63) / 64
    }
    pub closed spec fn cell(&self, i: int) -> bool {
        bit_of(self.blocks@[i / 64], (i % 64) as usize)
    }
    pub closed spec fn has(&self, u: usize, v: usize) -> bool {
        u < self.order && v < self.order && self.cell(u * self.order + v)
    }

    const fn mask(u: usize) -> (r: usize)
        ensures r == 1usize << (u & 63)
    {
        assert(u & 63 < 64) by (bit_vector);
        1 << (u & 63)
    }

    const fn index(&self, u: usize, v: usize) -> (r: usize)
        requires self.wf(), u < self.order, v < self.order,
        ensures r == u * self.order + v, r < self.order * self.order,
    {
        assert(u * self.order + v < self.order * self.order) by (nonlinear_arith)
            requires u < self.order, v < self.order;
        u * self.order + v
    }

    fn toggle(&mut self, u: usize, v: usize)
        requires old(self).wf(),
        ensures final(self).wf(), final(self).order == old(self).order,
            u != v, u < old(self).order, v < old(self).order,
            forall|i: int| 0 <= i < old(self).order * old(self).order ==> final(self).cell(i) == (if i == u * old(self).order + v { !old(self).cell(i) } else { old(self).cell(i) }),
    {
        if u == v { assert(*self == *old(self)); vpanic(); }
        if !(u < self.order) { assert(*self == *old(self)); vpanic(); }
        if !(v < self.order) { assert(*self == *old(self)); vpanic(); }

        let i = self.index(u, v);
        assert(i >> 6 == i / 64 && i & 63 == i % 64) by (bit_vector);
        let ghost m = 1usize << (i & 63);
        let ghost b0 = self.blocks@[(i >> 6) as int];

        unsafe { *self.blocks.get_unchecked_mut(i >> 6) ^= Self::mask(i) };

        assert forall|j: int| 0 <= j < self.order * self.order implies self.cell(j) == (if j == i { !old(self).cell(j) } else { old(self).cell(j) }) by {
            if j / 64 == i / 64 {
                let k = (j % 64) as usize; let ki = (i % 64) as usize;
                assert(k < 64 && ki < 64);
                assert(forall|b: usize, k: usize, ki: usize| k < 64 && ki < 64 ==> #[trigger] bit_of(b ^ (1usize << ki), k) == (if k == ki { !bit_of(b, k) } else { bit_of(b, k) })) by (bit_vector);
            }
        }
    }
}

} // verus!
fn main() {}
