use vstd::prelude::*;
use std::collections::BTreeSet;
verus! {
global size_of usize == 8;

pub assume_specification<T, F: FnOnce(T) -> bool> [Option::<T>::is_some_and] (o: Option<T>, f: F) -> (r: bool)
    requires o is Some ==> f.requires((o->0,)),
    ensures r == (o is Some && f.ensures((o->0,), true)), o is Some ==> f.ensures((o->0,), r);

pub struct AdjacencyList { arcs: Vec<BTreeSet<usize>>, }

impl AdjacencyList {
    pub closed spec fn has(&self, u: usize, v: usize) -> bool {
        u < self.arcs@.len() && self.arcs@[u as int]@.contains(v)
    }
    fn has_arc(&self, u: usize, v: usize) -> (r: bool)
        ensures r == self.has(u, v)
    {
        broadcast use vstd::std_specs::btree::group_btree_axioms;
        self.arcs.get(u).is_some_and(|set: &BTreeSet<usize>| -> (b: bool) ensures b == set@.contains(v) { set.contains(&v) })
    }
}

} // verus!
fn main() {}
