use vstd::prelude::*;
verus! {

pub struct WG { pub n: nat, pub w: Map<(nat, nat), int> }

pub open spec fn arc(g: WG, u: nat, v: nat) -> bool { g.w.dom().contains((u, v)) }
pub open spec fn step_ok(g: WG, p: Seq<nat>, i: int) -> bool { arc(g, p[i], p[i + 1]) }

pub open spec fn is_walk(g: WG, p: Seq<nat>) -> bool {
    p.len() >= 1
    && (forall|i: int| 0 <= i < p.len() ==> #[trigger] p[i] < g.n)
    && (forall|i: int| 0 <= i < p.len() - 1 ==> #[trigger] step_ok(g, p, i))
}

pub open spec fn weight(g: WG, p: Seq<nat>) -> int
    decreases p.len()
{
    if p.len() <= 1 { 0 } else { weight(g, p.drop_last()) + g.w[(p[p.len() - 2], p[p.len() - 1])] }
}

pub open spec fn walk_from_to(g: WG, srcs: Set<nat>, v: nat, p: Seq<nat>) -> bool {
    is_walk(g, p) && srcs.contains(p[0]) && p.last() == v
}

pub open spec fn feasible(g: WG, srcs: Set<nat>, r: Set<nat>, d: Map<nat, int>) -> bool {
    (forall|s: nat| #[trigger] srcs.contains(s) && s < g.n ==> r.contains(s) && d[s] <= 0)
    && (forall|u: nat, v: nat| r.contains(u) && #[trigger] arc(g, u, v) ==> r.contains(v) && d[v] <= d[u] + g.w[(u, v)])
}

pub proof fn lemma_potential_lower_bound(g: WG, srcs: Set<nat>, r: Set<nat>, d: Map<nat, int>, v: nat, p: Seq<nat>)
    requires feasible(g, srcs, r, d), walk_from_to(g, srcs, v, p),
    ensures r.contains(v), d[v] <= weight(g, p),
    decreases p.len(),
{
    if p.len() == 1 {
        assert(p[0] == v);
        assert(p[0] < g.n);
    } else {
        let q = p.drop_last();
        let u = q.last();
        assert forall|i: int| 0 <= i < q.len() - 1 implies #[trigger] step_ok(g, q, i) by {
            assert(step_ok(g, p, i));
        }
        assert forall|i: int| 0 <= i < q.len() implies #[trigger] q[i] < g.n by { assert(p[i] < g.n); }
        assert(q[0] == p[0]);
        lemma_potential_lower_bound(g, srcs, r, d, u, q);
        assert(step_ok(g, p, p.len() - 2));
        assert(arc(g, u, v));
    }
}

} // verus!
fn main() {}
