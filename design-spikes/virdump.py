#!/usr/bin/env python3
"""Crude VIR pretty printer: prints requires/ensures of functions matching a regex."""
import re, sys

def tokenize(s):
    tok = re.compile(r'\(|\)|"(?:[^"\\]|\\.)*"|[^\s()]+')
    return tok.findall(s)

def parse(tokens):
    stack = [[]]
    for t in tokens:
        if t == '(':
            stack.append([])
        elif t == ')':
            x = stack.pop()
            stack[-1].append(x)
        else:
            stack[-1].append(t)
    return stack[0]

def kw(lst, key):
    if not isinstance(lst, list): return None
    for i, x in enumerate(lst):
        if x == key and i + 1 < len(lst):
            return lst[i + 1]
    return None

def funpath(x):
    # (Fun :path a::b)
    if isinstance(x, list) and x and x[0] == 'Fun':
        return kw(x, ':path')
    return None

def short(p):
    if p is None: return '?'
    p = re.sub(r'impl&%\d+::', '', p)
    parts = p.split('::')
    return '::'.join(parts[-2:]) if len(parts) > 1 else p

def varname(x):
    # (VarIdent "r" (...))
    if isinstance(x, list) and x and x[0] == 'VarIdent':
        return x[1].strip('"')
    return str(x)

def place(x):
    if not isinstance(x, list): return str(x)
    if x[0] == 'Place':
        k = x[1]
        if k == 'Local': return varname(x[2])
        if k == 'Temporary': return expr(x[2])
        if k == 'Field':
            return place(x[-1]) + '.' + str(kw(x[2], ':field') if isinstance(x[2], list) else x[2])
        if k == 'DerefMut': return '*' + place(x[-1])
        if k == 'WithExpr': return expr(x[-1])
        return k + '(' + ' '.join(place(y) if isinstance(y, list) else str(y) for y in x[2:]) + ')'
    return expr(x)

BIN = {'Eq': '==', 'Ne': '!=', 'And': '&&', 'Or': '||', 'Implies': '==>', 'Le': '<=', 'Lt': '<', 'Ge': '>=', 'Gt': '>',
       'Add': '+', 'Sub': '-', 'Mul': '*', 'EuclideanDiv': '/', 'EuclideanMod': '%', 'Xor': '^'}

def expr(x):
    if not isinstance(x, list): return str(x)
    if not x: return '()'
    h = x[0]
    if h == '@@' or h == '>':
        return expr(x[1:]) if len(x) > 2 and not isinstance(x[1], list) else expr(x[1])
    if h == 'Call':
        tgt = kw(x, ':target')
        args = kw(x, ':args') or []
        name = '?'
        if isinstance(tgt, list):
            if tgt[0] == 'CallTarget' and tgt[1] == 'Fun':
                kind = tgt[2]
                res = kw(kind, ':resolved') if isinstance(kind, list) else None
                fp = funpath(res) if res else None
                if fp is None:
                    for y in tgt[3:]:
                        fp = funpath(y)
                        if fp: break
                name = short(fp)
            elif tgt[0] == 'CallTarget':
                name = tgt[1] + ':' + (expr(tgt[2]) if len(tgt) > 2 else '')
        return name + '(' + ', '.join(expr(a) for a in args) + ')'
    if h == 'Logical':
        op = x[1][1] if isinstance(x[1], list) else x[1]
        return '(' + expr(x[2]) + ' ' + BIN.get(op, op) + ' ' + expr(x[3]) + ')'
    if h == 'Binary':
        opl = x[1]
        op = opl[1] if isinstance(opl, list) else opl
        if op == 'Arith' or op == 'Inequality' or op == 'Bitwise':
            op = opl[2] if not isinstance(opl[2], list) else opl[2][0]
        return '(' + expr(x[2]) + ' ' + BIN.get(op, str(op)) + ' ' + expr(x[3]) + ')'
    if h == 'Unary':
        return str(x[1] if not isinstance(x[1], list) else x[1][0]) + '(' + expr(x[2]) + ')'
    if h == 'UnaryOpr':
        o = x[1]
        if isinstance(o, list) and o[0] == 'UnaryOpr':
            o = o[1:]
        tag = ' '.join(str(t) if not isinstance(t, list) else short(kw(t, 'Path') or str(t[-1])) for t in o[:4]) if isinstance(o, list) else str(o)
        return '[' + tag + '](' + expr(x[2]) + ')'
    if h == 'ReadPlace':
        return place(x[1])
    if h == 'Block':
        return '{ ' + ' ; '.join(expr(s) for s in x[1]) + ' ' + (expr(x[2]) if len(x) > 2 else '') + ' }'
    if h == 'Var': return varname(x[1])
    if h == 'VarAt': return 'old(' + varname(x[1]) + ')'
    if h == 'Const':
        return ' '.join(str(t) for t in x[1][1:]) if isinstance(x[1], list) else str(x[1])
    if h == 'Quant':
        q = x[1]
        binders = x[2]
        bs = ', '.join(str(kw(b, ':name') and varname(kw(b, ':name'))) for b in binders if isinstance(b, list))
        qn = q if not isinstance(q, list) else ' '.join(str(t) for t in q if not isinstance(t, list))
        return str(qn) + '|' + bs + '| ' + expr(x[3])
    if h == 'If':
        return 'if ' + expr(x[1]) + ' { ' + expr(x[2]) + ' } else { ' + (expr(x[3]) if len(x) > 3 else '') + ' }'
    if h == 'WithTriggers':
        return expr(x[-1])
    if h == 'Ctor':
        return 'Ctor ' + ' '.join(expr(y) if isinstance(y, list) else str(y) for y in x[1:])
    if h == 'Stmt' or h == 'Decl':
        return ' '.join(expr(y) if isinstance(y, list) else str(y) for y in x[1:])
    if h == 'Place': return place(x)
    if h == 'tuple':
        return '; '.join(expr(y) for y in x[1:])
    if isinstance(h, list):
        return ' '.join(expr(y) for y in x)
    return h + '(' + ' '.join(expr(y) if isinstance(y, list) else str(y) for y in x[1:]) + ')'

def main():
    path, pat = sys.argv[1], re.compile(sys.argv[2])
    txt = open(path).read()
    # split into top-level function entries
    idx = [m.start() for m in re.finditer(r'^\(Function', txt, re.M)]
    idx.append(len(txt))
    for a, b in zip(idx, idx[1:]):
        chunk = txt[a:b]
        m = re.search(r':name \(Fun :path ([^\)]+)\)', chunk)
        if not m or not pat.search(m.group(1) + ' ' + chunk[:600]):
            continue
        try:
            tree = parse(tokenize(chunk))[0]
        except Exception as e:
            print('parse error', m.group(1), e); continue
        print('=== fn', m.group(1), ' mode=', kw(tree, ':mode'))
        params = kw(tree, ':params') or []
        print('   params:', ', '.join(varname(kw(p, ':name')) for p in params if isinstance(p, list)),
              ' ret:', varname(kw(kw(tree, ':ret'), ':name')) if kw(tree, ':ret') else '')
        req = kw(tree, ':require') or []
        for r in req:
            print('   requires', expr(r))
        ens = kw(tree, ':ensure') or []
        if ens and ens[0] == 'tuple':
            for grp in ens[1:]:
                if isinstance(grp, list):
                    for e in grp:
                        print('   ensures ', expr(e))
        else:
            for e in ens:
                print('   ensures ', expr(e))
        body = kw(tree, ':body')
        if body and kw(tree, ':mode') == 'Spec':
            print('   body    ', expr(body)[:1500])

main()
