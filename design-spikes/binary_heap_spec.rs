#![feature(allocator_api)]
use vstd::prelude::*;
use vstd::multiset::Multiset;
use std::collections::BinaryHeap;
use core::cmp::Reverse;
verus! {
global size_of usize == 8;

#[verifier::external_type_specification]
#[verifier::external_body]
#[verifier::accept_recursive_types(T)]
#[verifier::reject_recursive_types(A)]
pub struct ExBinaryHeap<T, A: std::alloc::Allocator>(BinaryHeap<T, A>);

#[verifier::external_type_specification]
pub struct ExReverse<T>(Reverse<T>);

pub type HeapItem = (Reverse<usize>, usize);
pub uninterp spec fn heap_view(h: &BinaryHeap<HeapItem>) -> Multiset<HeapItem>;

pub assume_specification<T>[ BinaryHeap::<T>::with_capacity ](n: usize) -> (r: BinaryHeap<T>) ensures heap_items_a(&r) == Multiset::<T>::empty();
// specialised contracts stated through wrappers is not possible; state generic-typed specs restricted by a spec predicate instead
pub uninterp spec fn heap_items<T>(h: &BinaryHeap<T>) -> Multiset<T>;
pub uninterp spec fn heap_le<T>(a: T, b: T) -> bool;

pub assume_specification<T: Ord, A: std::alloc::Allocator>[ BinaryHeap::<T, A>::push ](h: &mut BinaryHeap<T, A>, x: T)
    ensures heap_items_a(final(h)) == heap_items_a(old(h)).insert(x);
pub uninterp spec fn heap_items_a<T, A: std::alloc::Allocator>(h: &BinaryHeap<T, A>) -> Multiset<T>;

pub assume_specification<T: Ord, A: std::alloc::Allocator>[ BinaryHeap::<T, A>::pop ](h: &mut BinaryHeap<T, A>) -> (r: Option<T>)
    ensures
        r is None ==> heap_items_a(old(h)).len() == 0 && heap_items_a(final(h)) == heap_items_a(old(h)),
        r matches Some(x) ==> heap_items_a(old(h)).count(x) > 0 && heap_items_a(final(h)) == heap_items_a(old(h)).remove(x)
            && forall|y: T| heap_items_a(old(h)).count(y) > 0 ==> #[trigger] heap_le(y, x);

pub broadcast axiom fn axiom_heap_le_item(a: HeapItem, b: HeapItem)
    ensures #[trigger] heap_le(a, b) ==> a.0.0 >= b.0.0;

fn step(h: &mut BinaryHeap<HeapItem>) -> (r: Option<usize>)
    ensures r matches Some(w) ==> forall|y: HeapItem| heap_items_a(old(h)).count(y) > 0 ==> y.0.0 >= w
{
    broadcast use axiom_heap_le_item;
    let (Reverse(w_prev), u) = h.pop()?;
    h.push((Reverse(w_prev + 0), u));
    Some(w_prev)
}

} // verus!
fn main() {}
