use vstd::prelude::*;
use vstd::std_specs::iter::IteratorSpec;
verus! {
global size_of usize == 8;

#[verifier::external_body]
pub struct Dg { _p: () }

impl Dg {
    pub uninterp spec fn spec_order(&self) -> nat;
    pub uninterp spec fn spec_arcs(&self) -> Seq<(usize, usize, isize)>;

    #[verifier::external_body]
    fn contiguous_order(&self) -> (r: usize) ensures r == self.spec_order() { unimplemented!() }

    #[verifier::external_body]
    fn arcs_weighted(&self) -> (r: impl Iterator<Item = (usize, usize, &isize)> + use<'_>)
        ensures r.obeys_prophetic_iter_laws(), r.decrease() is Some,
            r.remaining().len() == self.spec_arcs().len(),
            forall|i: int| 0 <= i < r.remaining().len() ==> {
                let a = #[trigger] r.remaining()[i];
                a.0 == self.spec_arcs()[i].0 && a.1 == self.spec_arcs()[i].1 && *a.2 == self.spec_arcs()[i].2
                && a.0 < self.spec_order() && a.1 < self.spec_order()
            },
    { core::iter::empty() }
}

fn f(d: &Dg) -> (n: usize)
{
    let arcs = d.arcs_weighted().collect::<Vec<_>>();
    let arcs_len = arcs.len();
    assert(arcs_len == d.spec_arcs().len());
    let mut i = 0;
    let mut acc: usize = 0;
    while i < arcs_len
        invariant arcs_len == arcs.len(), i <= arcs_len,
            forall|k: int| 0 <= k < arcs.len() ==> (#[trigger] arcs@[k]).0 < d.spec_order(),
        decreases arcs_len - i,
    {
        let (u, v, w) = arcs[i];
        assert(u < d.spec_order());
        i += 1;
    }
    acc
}

} // verus!
fn main() {}
