fn main(){}
