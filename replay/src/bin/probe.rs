//! runs the failing inputs of the recorded defects against the real crate (child process per UB-prone case)
use graaf::*;
fn main() {
    let arg = std::env::args().nth(1).unwrap_or_default();
    match arg.as_str() {
        "f1" => {
            let mut d = AdjacencyListWeighted::<usize>::empty(4);
            d.add_arc_weighted(0, 1, 10); d.add_arc_weighted(0, 2, 1); d.add_arc_weighted(2, 1, 1); d.add_arc_weighted(0, 3, 20);
            let dist = DijkstraDist::new(&d, std::iter::once(0)).distances();
            let ord: Vec<_> = Dijkstra::new(&d, std::iter::once(0)).collect();
            println!("F1 distances {:?} order {:?}", dist, ord);
            assert_eq!(dist, vec![0, 2, 1, 20]);
            assert_eq!(ord, vec![0, 2, 1, 3]);
        }
        "f2" => {
            let mut l = AdjacencyList::empty(4);
            l.add_arc(0, 1); l.add_arc(0, 2); l.add_arc(0, 3); l.add_arc(3, 2);
            let v: Vec<_> = Dfs::new(&l, std::iter::once(0)).collect();
            println!("F2 dfs {:?}", v);
            assert_eq!(v.len(), 4);
        }
        "f3" => {
            let l = AdjacencyList::empty(2);
            let b = Bfs::new(&l, std::iter::once(1000));
            println!("F3 constructed {:?}", b.count());
        }
        "f3dfs" => {
            let l = AdjacencyList::empty(2);
            let b = Dfs::new(&l, std::iter::once(1000));
            println!("F3 constructed {:?}", b.count());
        }
        "f4" => {
            let p = PredecessorTree::from(vec![Some(9)]);
            println!("F4 {:?}", p.search(0, 1));
        }
        "f5" => {
            let m = AdjacencyMatrix::empty(1usize << 33);
            println!("F5 order {}", m.order());
        }
        "f10" => {
            let mut d = AdjacencyListWeighted::<usize>::empty(3);
            d.add_arc_weighted(0, 1, 10); d.add_arc_weighted(1, 2, usize::MAX - 12); d.add_arc_weighted(2, 1, 3);
            let dist = DijkstraDist::new(&d, std::iter::once(0)).distances();
            println!("F10 distances {:?}", dist);
            assert_eq!(dist, vec![0, 10, usize::MAX - 2]);
        }
        _ => println!("usage: probe f1|f2|f3|f3dfs|f4|f5"),
    }
}
