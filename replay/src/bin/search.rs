//! Counterexample searcher / replayer against the real graaf crate.
//!
//!   search <prop> <seed>            -> `FOUND <json>` | `NONE evaluated=<n>`
//!   search <prop> --replay '<json>' -> `FOUND <json>` | `PASS`
//!
//! Every oracle is written from the property text in /verif/properties.jsonl
//! over plain data (sets of arcs, brute-force shortest paths), not by calling
//! another graaf function, except where the property itself relates two
//! functions. Known, recorded defects are skipped behind `SKIP_KNOWN_*`
//! constants so that the search continues past them.

/// compare expected and actual, returning a `Fail` for the current function
macro_rules! ensure_eq {
    ($check:expr, $exp:expr, $act:expr) => {{
        let e = $exp;
        let a = $act;
        if e != a {
            return Err($crate::model::mk_fail(
                &$check,
                format!("{:?}", e),
                format!("{:?}", a),
            ));
        }
    }};
}

macro_rules! ensure {
    ($check:expr, $cond:expr, $actual:expr) => {{
        if !($cond) {
            return Err($crate::model::mk_fail(
                &$check,
                "holds".to_string(),
                $actual,
            ));
        }
    }};
}

#[path = "../search/json.rs"]
mod json;
#[macro_use]
#[path = "../search/model.rs"]
mod model;
#[path = "../search/c_repr.rs"]
mod c_repr;
#[path = "../search/c_trav.rs"]
mod c_trav;
#[path = "../search/c_sp.rs"]
mod c_sp;
#[path = "../search/c_ops.rs"]
mod c_ops;
#[path = "../search/c_gen.rs"]
mod c_gen;
#[path = "../search/c_conv.rs"]
mod c_conv;
#[path = "../search/c_misc.rs"]
mod c_misc;
#[path = "../search/c_scc.rs"]
mod c_scc;
#[path = "../search/c_eq.rs"]
mod c_eq;
#[path = "../search/c_par.rs"]
mod c_par;
#[path = "../search/c_safe.rs"]
mod c_safe;
#[path = "../search/c_leak.rs"]
mod c_leak;

#[global_allocator]
static GLOBAL: c_leak::Counting = c_leak::Counting;

use {
    json::J,
    model::{
        guarded,
        R,
    },
    std::{
        sync::{
            atomic::{
                AtomicU64,
                Ordering as AtomicOrdering,
            },
            Mutex,
        },
        time::{
            Duration,
            Instant,
        },
    },
};

// ---- known, recorded defects of the pinned tree (see /verif/known_findings.txt) ----

/// F2 (C06): `Dfs*::next` returns None when the popped vertex is already
/// visited, so the iteration may stop early and reachable vertices can be
/// missing (arcs 0->1,0->2,0->3,3->2, source 0 yields 0,3,2). While true,
/// "a reachable vertex was never yielded" is not reported; every other C06
/// clause is still checked on the prefix that is yielded.
pub const SKIP_KNOWN_F2: bool = true;

/// F3, successor half (C13): the traversal `next` functions index `visited` /
/// `dist` with successor ids that are not checked against `order()`; a
/// non-contiguous AdjacencyMap (`empty(1); add_arc(0, 1000)`) reports such
/// ids: undefined behaviour. While true, the C13 hostile-argument search runs
/// traversals from VALID sources on contiguous vertex sets only.
pub const SKIP_KNOWN_F3: bool = false; // repaired by fix dc28791: the successor id is checked, the traversal panics

/// F6 (C11/C12): AdjacencyMap complement / converse / is_semicomplete /
/// is_tournament treat vertex ids as positions when the vertex set is not
/// 0..order (converse, is_semicomplete and is_tournament then index out of
/// bounds: undefined behaviour). While true, these four operations only see
/// AdjacencyMap digraphs with vertex set 0..order. Set to false only on a
/// tree where the defect is repaired.
pub const SKIP_KNOWN_F6: bool = false; // repaired by fix 309ee69

/// New finding of this searcher (C11): the rustdoc of
/// `FilterVertices::filter_vertices` says "Panics if the subgraph has zero
/// vertices", but `AdjacencyMap::filter_vertices(|_| false)` returns a
/// digraph of order 0 (not a valid digraph: every constructor requires
/// order >= 1). Input: AdjacencyMap::empty(1).filter_vertices(|_| false).
/// While true, predicates that select no vertex are not used.
pub const SKIP_KNOWN_FILTER_EMPTY: bool = true;

/// One concrete input of one property.
pub trait Case {
    fn prop(&self) -> &'static str;
    fn run(&self) -> R;
    /// self-contained description of the input (property / function / check
    /// / expected / actual are added by the driver)
    fn fields(&self) -> Vec<(String, J)>;
}

pub struct Ctx {
    pub evaluated: u64,
    pub deadline: Instant,
    /// `search <prop> --selftest <seed>`: additionally feed the json of every
    /// evaluated case (written to text and parsed back) to `--replay`'s code
    /// path and report the first case that replay refuses or judges
    /// differently. Guarantees that every FOUND that search can print replays.
    pub selftest: bool,
}

impl Ctx {
    pub fn expired(&self) -> bool {
        Instant::now() >= self.deadline
    }

    /// evaluate one case; Some(json) if it violates the property
    pub fn eval<C: Case>(&mut self, c: &C) -> Option<J> {
        self.evaluated += 1;
        let found = eval_case(c);
        if self.selftest {
            let mut o = vec![("property".to_string(), J::s(c.prop()))];
            o.extend(c.fields());
            let text = J::Obj(o).to_string();
            let verdict = json::parse(&text).and_then(|j| replay(c.prop(), &j));
            let agrees = match (&verdict, &found) {
                (Ok(a), b) => a.is_some() == b.is_some(),
                (Err(_), _) => false,
            };
            if !agrees {
                return Some(J::Obj(vec![
                    ("selftest".into(), J::s("replay disagrees with search on this input")),
                    ("search".into(), J::s(if found.is_some() { "FOUND" } else { "no violation" })),
                    ("replay".into(), J::Str(format!("{verdict:?}"))),
                    ("input".into(), J::Str(text)),
                ]));
            }
        }
        found
    }
}

// ---- global watchdog: a library call that never returns is a violation ----

/// the case being evaluated right now: (epoch, property, input fields)
static CURRENT: Mutex<Option<(u64, &'static str, Vec<(String, J)>)>> = Mutex::new(None);
static EPOCH: AtomicU64 = AtomicU64::new(0);
/// serialises the final line of output between main and the watchdog
static OUTPUT: Mutex<bool> = Mutex::new(false);

fn case_timeout() -> Duration {
    Duration::from_secs(
        std::env::var("SEARCH_CASE_TIMEOUT_SECS")
            .ok()
            .and_then(|s| s.parse::<u64>().ok())
            .unwrap_or(10),
    )
}

/// Background thread: if the SAME case stays current for longer than the
/// case timeout, print it as FOUND (it replays under the same watchdog) and
/// end the process.
fn start_watchdog() {
    let limit = case_timeout();
    let _ = std::thread::spawn(move || {
        let mut seen: Option<(u64, Instant)> = None;
        loop {
            std::thread::sleep(Duration::from_millis(250));
            let epoch = CURRENT
                .lock()
                .unwrap_or_else(|e| e.into_inner())
                .as_ref()
                .map(|c| c.0);
            match (epoch, seen) {
                (None, _) => seen = None,
                (Some(e), Some((s, t))) if e == s => {
                    if t.elapsed() >= limit {
                        let done = OUTPUT.lock().unwrap_or_else(|e| e.into_inner());
                        if *done {
                            return;
                        }
                        let slot = CURRENT.lock().unwrap_or_else(|e| e.into_inner());
                        if let Some((e2, prop, fields)) = slot.as_ref() {
                            if *e2 == s {
                                let secs = limit.as_secs();
                                let mut o = vec![
                                    ("property".to_string(), J::s(prop)),
                                    ("function".to_string(), J::s(model::cur_global())),
                                ];
                                o.extend(fields.iter().cloned());
                                if !model::phase_global().is_empty() {
                                    o.push(("while_calling".to_string(), J::s(model::phase_global())));
                                }
                                o.push((
                                    "violation".to_string(),
                                    J::Str(format!(
                                        "the library call did not return within {secs} s (non-termination)"
                                    )),
                                ));
                                o.push(("check".to_string(), J::s("every library call on this input returns")));
                                o.push(("expected".to_string(), J::s("returns")));
                                o.push(("actual".to_string(), J::Str(format!("still running after {secs} s"))));
                                println!("FOUND {}", J::Obj(o));
                                use std::io::Write;
                                let _ = std::io::stdout().flush();
                                std::process::exit(0);
                            }
                        }
                        seen = None;
                    }
                }
                (Some(e), _) => seen = Some((e, Instant::now())),
            }
        }
    });
}

/// the one final line of output (unless the watchdog already printed)
fn final_line(line: &str) {
    let mut done = OUTPUT.lock().unwrap_or_else(|e| e.into_inner());
    *done = true;
    println!("{line}");
}

pub fn eval_case<C: Case>(c: &C) -> Option<J> {
    if let Ok(path) = std::env::var("SEARCH_TRACE_FILE") {
        // the case about to run: if the process is killed by a signal, the driver reports this input
        let mut o = vec![("property".to_string(), J::s(c.prop()))];
        o.extend(c.fields());
        let _ = std::fs::write(path, J::Obj(o).to_string());
    }
    let epoch = EPOCH.fetch_add(1, AtomicOrdering::Relaxed) + 1;
    *CURRENT.lock().unwrap_or_else(|e| e.into_inner()) = Some((epoch, c.prop(), c.fields()));
    let r = eval_case_unwatched(c);
    *CURRENT.lock().unwrap_or_else(|e| e.into_inner()) = None;
    r
}

fn eval_case_unwatched<C: Case>(c: &C) -> Option<J> {
    match guarded(|| c.run()) {
        Ok(()) => None,
        Err(f) => {
            let mut o = vec![
                ("property".to_string(), J::s(c.prop())),
                ("function".to_string(), J::Str(f.func)),
            ];
            o.extend(c.fields());
            o.push(("check".to_string(), J::Str(f.check)));
            o.push(("expected".to_string(), J::Str(f.expected)));
            o.push(("actual".to_string(), J::Str(f.actual)));
            Some(J::Obj(o))
        }
    }
}

const PROPS: [&str; 20] = [
    "C01", "C02", "C03", "C04", "C05", "C06", "C07", "C08", "C09", "C10", "C11",
    "C12", "C13", "C14", "C15", "C16", "C17", "C18", "C19", "C20",
];

fn search(prop: &str, seed: u64, ctx: &mut Ctx) -> Option<J> {
    match prop {
        "C01" => c_repr::search_c01(seed, ctx),
        "C02" => c_repr::search_c02(seed, ctx),
        "C03" | "C04" | "C05" | "C06" => c_trav::search(prop, seed, ctx),
        "C07" | "C08" => c_sp::search(prop, seed, ctx),
        "C09" => c_scc::search_c09(seed, ctx),
        "C10" => c_scc::search_c10(seed, ctx),
        "C11" => c_ops::search_c11(seed, ctx),
        "C12" => c_ops::search_c12(seed, ctx),
        "C13" => c_safe::search_c13(seed, ctx).or_else(|| c_leak::search_leak(seed, ctx)),
        "C14" => c_gen::search_c14(seed, ctx),
        "C15" => c_gen::search_c15(seed, ctx),
        "C16" => c_conv::search_c16(seed, ctx),
        "C17" => c_par::search_c17(seed, ctx),
        "C18" => c_misc::search_c18(seed, ctx),
        "C19" => c_misc::search_c19(seed, ctx),
        "C20" => c_misc::search_c20(seed, ctx),
        _ => unreachable!(),
    }
}

fn replay(prop: &str, j: &J) -> Result<Option<J>, String> {
    match prop {
        "C01" => c_repr::replay_c01(j),
        "C02" => c_repr::replay_c02(j),
        "C03" | "C04" | "C05" | "C06" => c_trav::replay(prop, j),
        "C07" | "C08" => c_sp::replay(prop, j),
        "C09" => c_scc::replay_c09(j),
        "C10" => c_scc::replay_c10(j),
        "C11" => c_ops::replay_c11(j),
        "C12" => c_ops::replay_c12(j),
        "C13" => if j.get("leak_op").is_some() { c_leak::replay_leak(j) } else { c_safe::replay_c13(j) },
        "C14" => c_gen::replay_c14(j),
        "C15" => c_gen::replay_c15(j),
        "C16" => c_conv::replay_c16(j),
        "C17" => c_par::replay_c17(j),
        "C18" => c_misc::replay_c18(j),
        "C19" => c_misc::replay_c19(j),
        "C20" => c_misc::replay_c20(j),
        _ => unreachable!(),
    }
}

fn usage() -> ! {
    eprintln!(
        "usage: search <prop> <seed>\n       search <prop> --replay '<json>'\n  props: {}",
        PROPS.join(" ")
    );
    std::process::exit(2)
}

fn main() {
    let args: Vec<String> = std::env::args().collect();
    if args.len() < 3 || !PROPS.contains(&args[1].as_str()) {
        usage();
    }
    // library panics are expected in many checks; keep stderr quiet
    std::panic::set_hook(Box::new(|_| {}));
    let prop = args[1].as_str();
    start_watchdog();
    if args[2] == "--replay" {
        let Some(text) = args.get(3) else { usage() };
        let j = match json::parse(text) {
            Ok(j) => j,
            Err(e) => {
                eprintln!("search: cannot parse replay json: {e}");
                std::process::exit(2);
            }
        };
        match replay(prop, &j) {
            Ok(Some(f)) => final_line(&format!("FOUND {f}")),
            Ok(None) => final_line("PASS"),
            Err(e) => {
                eprintln!("search: bad replay input for {prop}: {e}");
                std::process::exit(2);
            }
        }
    } else {
        let selftest = args[2] == "--selftest";
        let seed_text = if selftest { args.get(3).map_or("1", String::as_str) } else { args[2].as_str() };
        let Ok(seed) = seed_text.parse::<u64>() else { usage() };
        let budget = std::env::var("SEARCH_BUDGET_SECS")
            .ok()
            .and_then(|s| s.parse::<u64>().ok())
            .unwrap_or(25);
        let mut ctx = Ctx {
            evaluated: 0,
            deadline: Instant::now() + Duration::from_secs(budget),
            selftest,
        };
        match search(prop, seed, &mut ctx) {
            Some(f) => final_line(&format!("FOUND {f}")),
            None if prop == "C17" => final_line(&format!(
                "NONE evaluated={} threads={}",
                ctx.evaluated,
                c_par::threads()
            )),
            None => final_line(&format!("NONE evaluated={}", ctx.evaluated)),
        }
    }
}
