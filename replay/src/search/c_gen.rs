//! C14 (deterministic generators against their defining arc sets) and C15
//! (seeded random generators: structural validity and determinism).

use {
    crate::{
        json::J,
        model::*,
        Case,
        Ctx,
    },
    graaf::gen::prng::Xoshiro256StarStar,
};

// ------------------------------------------------------------------ C14 ----

pub struct C14 {
    /// empty | trivial | complete | circuit | cycle | path | star | wheel |
    /// biclique | claw | utility
    pub gen: String,
    /// order, or m for biclique
    pub a: usize,
    /// n for biclique
    pub b: usize,
}

/// the defining arc set; None when the parameters are inadmissible
pub fn gen_model(gen: &str, a: usize, b: usize) -> Option<G> {
    let (gen, a, b) = match gen {
        "trivial" => ("empty", 1, 0),
        "claw" => ("biclique", 1, 3),
        "utility" => ("biclique", 3, 3),
        g => (g, a, b),
    };
    if gen == "biclique" {
        if a == 0 || b == 0 {
            return None;
        }
        let mut g = G::new(a + b);
        for u in 0..a {
            for v in a..a + b {
                g.add(u, v, 1);
                g.add(v, u, 1);
            }
        }
        return Some(g);
    }
    let n = a;
    if n == 0 || (gen == "wheel" && n < 4) {
        return None;
    }
    let mut g = G::new(n);
    for (u, v) in pairs(n) {
        let circ = |x: usize, y: usize| y == (x + 1) % n;
        // successor on the rim 1..n-1 of a wheel
        let rim = |x: usize, y: usize| x >= 1 && y >= 1 && y == if x == n - 1 { 1 } else { x + 1 };
        let yes = match gen {
            "empty" => false,
            "complete" => true,
            "circuit" => circ(u, v),
            "cycle" => circ(u, v) || circ(v, u),
            "path" => v == u + 1,
            "star" => u == 0 || v == 0,
            "wheel" => u == 0 || v == 0 || rim(u, v) || rim(v, u),
            other => panic!("unknown generator {other}"),
        };
        if yes {
            let _ = g.arcs.insert((u, v), 1);
        }
    }
    Some(g)
}

fn gen_call<D: Dgu>(gen: &str, a: usize, b: usize) -> D {
    match gen {
        "empty" => D::empty(a),
        "trivial" => D::trivial(),
        "complete" => D::complete(a),
        "circuit" => D::circuit(a),
        "cycle" => D::cycle(a),
        "path" => D::path(a),
        "star" => D::star(a),
        "wheel" => D::wheel(a),
        "biclique" => D::biclique(a, b),
        "claw" => D::claw(),
        "utility" => D::utility(),
        other => panic!("unknown generator {other}"),
    }
}

fn gen_label(gen: &str) -> &'static str {
    match gen {
        "empty" => "Empty::empty",
        "trivial" => "Empty::trivial",
        "complete" => "Complete::complete",
        "circuit" => "Circuit::circuit",
        "cycle" => "Cycle::cycle",
        "path" => "Path::path",
        "star" => "Star::star",
        "wheel" => "Wheel::wheel",
        "biclique" => "Biclique::biclique",
        "claw" => "Biclique::claw",
        "utility" => "Biclique::utility",
        _ => "generator",
    }
}

fn run_c14_one<D: Dgu>(c: &C14, model: &Option<G>) -> R {
    let call = if ["trivial", "claw", "utility"].contains(&c.gen.as_str()) {
        format!("{}::{}()", D::NAME, c.gen)
    } else if c.gen == "biclique" {
        format!("{}::biclique({}, {})", D::NAME, c.a, c.b)
    } else {
        format!("{}::{}({})", D::NAME, c.gen, c.a)
    };
    match model {
        None => {
            ensure!(
                format!("{call}: inadmissible parameters panic"),
                panics(|| gen_call::<D>(&c.gen, c.a, c.b)),
                "returned normally".to_string()
            );
        }
        Some(g) => {
            let d = gen_call::<D>(&c.gen, c.a, c.b);
            let what = format!("{call} has exactly its defining arc set");
            if g.order() <= 70 {
                same_probed(&d, g, &what)?;
            } else {
                // every arc is still compared through arcs(); has_arc is probed
                // at the ids next to the word-size boundaries only
                same_sampled(&d, g, &what)?;
            }
        }
    }
    Ok(())
}

impl Case for C14 {
    fn prop(&self) -> &'static str {
        "C14"
    }

    fn run(&self) -> R {
        at(gen_label(&self.gen));
        let model = gen_model(&self.gen, self.a, self.b);
        // every representation equals the defining arc set, hence they all agree
        for repr in UNWEIGHTED {
            with_urepr!(repr, run_c14_one(self, &model))?;
        }
        Ok(())
    }

    fn fields(&self) -> Vec<(String, J)> {
        let mut f = vec![("generator".into(), J::s(&self.gen))];
        if self.gen == "biclique" {
            f.push(("m".into(), J::u(self.a)));
            f.push(("n".into(), J::u(self.b)));
        } else if !["trivial", "claw", "utility"].contains(&self.gen.as_str()) {
            f.push(("order".into(), J::u(self.a)));
        }
        f
    }
}

const GENS: [&str; 7] = ["empty", "complete", "circuit", "cycle", "path", "star", "wheel"];

pub fn search_c14(_seed: u64, ctx: &mut Ctx) -> Option<J> {
    let mk = |gen: &str, a: usize, b: usize| C14 {
        gen: gen.to_string(),
        a,
        b,
    };
    for gen in ["trivial", "claw", "utility"] {
        if let Some(f) = ctx.eval(&mk(gen, 0, 0)) {
            return Some(f);
        }
    }
    // order 0 (and wheel 1..3) are inadmissible: covered by order starting at 0;
    // 1..=200 crosses the 64-bit blocks (64, 128, 192), the orders above the
    // core count (17, 33, 67) and every chunking case of the parallel impls
    for order in 0..=200usize {
        for gen in GENS {
            if let Some(f) = ctx.eval(&mk(gen, order, 0)) {
                return Some(f);
            }
        }
        if order <= 9 {
            for n in 0..=9usize {
                if let Some(f) = ctx.eval(&mk("biclique", order, n)) {
                    return Some(f);
                }
            }
        }
        if ctx.expired() {
            return None;
        }
    }
    // a few larger bicliques across the 64-bit block boundary
    for (m, n) in [(1, 63), (32, 32), (33, 32), (60, 9), (9, 60), (64, 64), (1, 128), (100, 30)] {
        if let Some(f) = ctx.eval(&mk("biclique", m, n)) {
            return Some(f);
        }
    }
    None
}

pub fn replay_c14(j: &J) -> Result<Option<J>, String> {
    let gen = j.req("generator")?.str()?.to_string();
    if gen_label(&gen) == "generator" {
        return Err(format!("unknown generator {gen}"));
    }
    let (a, b) = if gen == "biclique" {
        (j.req("m")?.usize()?, j.req("n")?.usize()?)
    } else if ["trivial", "claw", "utility"].contains(&gen.as_str()) {
        (0, 0)
    } else {
        (j.req("order")?.usize()?, 0)
    };
    if a.saturating_add(b) > 2000 {
        return Err("order too large for a replay (<= 2000)".into());
    }
    Ok(crate::eval_case(&C14 { gen, a, b }))
}

// ------------------------------------------------------------------ C15 ----

pub struct C15 {
    /// random_tournament | random_recursive_tree | erdos_renyi | next_f64
    pub gen: String,
    pub repr: String,
    /// order, or the number of steps for next_f64
    pub order: usize,
    pub seed: u64,
    /// erdos_renyi only; kept as text so that NaN and friends survive JSON
    pub p: String,
}

/// Read the digraph back through order / vertices / arcs and check that it
/// is structurally valid: vertex set 0..order, arcs ascending without
/// repeats, no self-loop, both endpoints in range.
fn observe<D: Dg>(d: &D, call: &str) -> Result<G, Fail> {
    let n = d.order();
    let vs: Vec<usize> = d.vertices().take(n + 8).collect();
    ensure_eq!(
        format!("{call}: the vertex set is 0..order"),
        (0..n).collect::<Vec<_>>(),
        vs
    );
    let arcs: Vec<(usize, usize)> = d.arcs().take(n * n + 8).collect();
    ensure!(
        format!("{call}: arcs() is strictly ascending (no duplicate arc)"),
        arcs.windows(2).all(|w| w[0] < w[1]),
        format!("{arcs:?}")
    );
    ensure!(
        format!("{call}: no self-loop and no endpoint outside 0..order"),
        arcs.iter().all(|&(u, v)| u != v && u < n && v < n),
        format!("{arcs:?}")
    );
    let mut g = G::new(n);
    for (u, v) in arcs {
        let _ = g.arcs.insert((u, v), 1);
    }
    same_probed(d, &g, call)?;
    Ok(g)
}

fn run_c15<D: Dgu>(c: &C15) -> R {
    let (n, seed) = (c.order, c.seed);
    match c.gen.as_str() {
        "random_tournament" => {
            at("RandomTournament::random_tournament");
            let call = format!("{}::random_tournament({n}, {seed})", D::NAME);
            let d = D::random_tournament(n, seed);
            let g = observe(&d, &call)?;
            for u in 0..n {
                for v in u + 1..n {
                    ensure!(
                        format!("{call}: exactly one arc between {u} and {v}"),
                        g.has(u, v) != g.has(v, u),
                        format!("arcs {:?}", g.arc_list())
                    );
                }
            }
            let e = D::random_tournament(n, seed);
            ensure!(
                format!("{call}: calling twice with equal arguments returns equal digraphs"),
                d == e && observe(&e, &call)? == g,
                format!("{:?} vs {:?}", g.arc_list(), e.arcs().collect::<Vec<_>>())
            );
        }
        "random_recursive_tree" => {
            at("RandomRecursiveTree::random_recursive_tree");
            let call = format!("{}::random_recursive_tree({n}, {seed})", D::NAME);
            let d = D::random_recursive_tree(n, seed);
            let g = observe(&d, &call)?;
            ensure!(
                format!("{call}: vertex 0 has no out-arc"),
                g.out(0).is_empty(),
                format!("arcs {:?}", g.arc_list())
            );
            for u in 1..n {
                let o = g.out(u);
                ensure!(
                    format!("{call}: vertex {u} has exactly one out-arc, to a smaller vertex"),
                    o.len() == 1 && o[0] < u,
                    format!("out-neighbours of {u}: {o:?}; arcs {:?}", g.arc_list())
                );
            }
            let e = D::random_recursive_tree(n, seed);
            ensure!(
                format!("{call}: calling twice with equal arguments returns equal digraphs"),
                d == e && observe(&e, &call)? == g,
                format!("{:?} vs {:?}", g.arc_list(), e.arcs().collect::<Vec<_>>())
            );
        }
        "erdos_renyi" => {
            at("ErdosRenyi::erdos_renyi");
            let p: f64 = c.p.parse().map_err(|_| mk_fail("p parses as f64", "a float".into(), c.p.clone()))?;
            let call = format!("{}::erdos_renyi({n}, {}, {seed})", D::NAME, c.p);
            if !(0.0..=1.0).contains(&p) {
                ensure!(
                    format!("{call}: p outside [0, 1] panics"),
                    panics(|| D::erdos_renyi(n, p, seed)),
                    "returned normally".to_string()
                );
                return Ok(());
            }
            let d = D::erdos_renyi(n, p, seed);
            let g = observe(&d, &call)?;
            if p == 0.0 {
                ensure_eq!(format!("{call}: no arcs when p = 0"), 0, g.size());
            }
            if p == 1.0 {
                ensure_eq!(format!("{call}: all n(n-1) arcs when p = 1"), n * (n - 1), g.size());
            }
            let e = D::erdos_renyi(n, p, seed);
            ensure!(
                format!("{call}: calling twice with equal arguments returns equal digraphs"),
                d == e && observe(&e, &call)? == g,
                format!("{:?} vs {:?}", g.arc_list(), e.arcs().collect::<Vec<_>>())
            );
        }
        other => panic!("unknown generator {other}"),
    }
    Ok(())
}

impl Case for C15 {
    fn prop(&self) -> &'static str {
        "C15"
    }

    fn run(&self) -> R {
        if self.gen == "next_f64" {
            at("Xoshiro256StarStar::next_f64");
            let mut r = Xoshiro256StarStar::new(self.seed);
            for step in 0..self.order {
                let x = r.next_f64();
                ensure!(
                    format!("Xoshiro256StarStar::new({}).next_f64() lies in [0, 1) at step {step}", self.seed),
                    (0.0..1.0).contains(&x),
                    format!("{x}")
                );
            }
            return Ok(());
        }
        with_urepr!(self.repr.as_str(), run_c15(self))
    }

    fn fields(&self) -> Vec<(String, J)> {
        if self.gen == "next_f64" {
            return vec![
                ("generator".into(), J::s("next_f64")),
                ("seed".into(), J::n(self.seed)),
                ("steps".into(), J::u(self.order)),
            ];
        }
        let mut f = vec![
            ("generator".into(), J::s(&self.gen)),
            ("repr".into(), J::s(&self.repr)),
            ("order".into(), J::u(self.order)),
            ("seed".into(), J::n(self.seed)),
        ];
        if self.gen == "erdos_renyi" {
            f.push(("p".into(), J::s(&self.p)));
        }
        f
    }
}

pub fn search_c15(seed: u64, ctx: &mut Ctx) -> Option<J> {
    let mut rng = Rng::new(seed);
    let mut seeds: Vec<u64> = vec![0, 1, u64::MAX, seed];
    for _ in 0..4 {
        seeds.push(rng.next());
    }
    let ps = ["0", "1", "0.5", "0.25", "0.9", "-0.1", "1.0000001", "NaN", "inf", "-inf"];
    for order in 1..=20usize {
        for &s in &seeds {
            for repr in UNWEIGHTED {
                for gen in ["random_tournament", "random_recursive_tree"] {
                    let c = C15 {
                        gen: gen.to_string(),
                        repr: repr.to_string(),
                        order,
                        seed: s,
                        p: String::new(),
                    };
                    if let Some(f) = ctx.eval(&c) {
                        return Some(f);
                    }
                }
                for p in ps {
                    let c = C15 {
                        gen: "erdos_renyi".to_string(),
                        repr: repr.to_string(),
                        order,
                        seed: s,
                        p: p.to_string(),
                    };
                    if let Some(f) = ctx.eval(&c) {
                        return Some(f);
                    }
                }
            }
        }
        if ctx.expired() {
            return None;
        }
    }
    // next_f64 in [0, 1): special seeds, then many random seeds
    let mut f64_seeds: Vec<u64> = (0..64).collect();
    f64_seeds.extend([u64::MAX, u64::MAX - 1, 1 << 63, seed]);
    for _ in 0..4000 {
        f64_seeds.push(rng.next());
    }
    for (i, s) in f64_seeds.into_iter().enumerate() {
        let c = C15 {
            gen: "next_f64".to_string(),
            repr: String::new(),
            order: 512,
            seed: s,
            p: String::new(),
        };
        if let Some(f) = ctx.eval(&c) {
            return Some(f);
        }
        if i % 256 == 0 && ctx.expired() {
            return None;
        }
    }
    None
}

pub fn replay_c15(j: &J) -> Result<Option<J>, String> {
    let gen = j.req("generator")?.str()?.to_string();
    let seed = j.req("seed")?.i128()?;
    if !(0..=u64::MAX as i128).contains(&seed) {
        return Err("seed must be a u64".into());
    }
    let seed = seed as u64;
    if gen == "next_f64" {
        let steps = j.req("steps")?.usize()?;
        return Ok(crate::eval_case(&C15 {
            gen,
            repr: String::new(),
            order: steps.min(10_000_000),
            seed,
            p: String::new(),
        }));
    }
    if !["random_tournament", "random_recursive_tree", "erdos_renyi"].contains(&gen.as_str()) {
        return Err(format!("unknown generator {gen}"));
    }
    let repr = j.req("repr")?.str()?.to_string();
    if !UNWEIGHTED.contains(&repr.as_str()) {
        return Err(format!("unknown unweighted representation {repr}"));
    }
    let order = j.req("order")?.usize()?;
    if order == 0 || order > 500 {
        return Err("order must be in 1..=500".into());
    }
    let p = match j.get("p") {
        Some(p) => p.str()?.to_string(),
        None => String::new(),
    };
    if gen == "erdos_renyi" && p.parse::<f64>().is_err() {
        return Err("p must be a string holding a float".into());
    }
    Ok(crate::eval_case(&C15 {
        gen,
        repr,
        order,
        seed,
        p,
    }))
}
