//! C11 (complement / converse / union / filter_vertices against their set
//! definitions) and C12 (structural predicates against their definitions).

use {
    crate::{
        c_repr::repr_and_g,
        json::J,
        model::*,
        Case,
        Ctx,
        SKIP_KNOWN_F6,
        SKIP_KNOWN_FILTER_EMPTY,
    },
    graaf::*,
    std::collections::BTreeSet,
};

// ------------------------------------------------------------------ C11 ----

pub struct C11 {
    pub repr: String,
    /// "complement" | "converse" | "union" | "filter_vertices"
    pub op: &'static str,
    pub g: G,
    /// second operand of union
    pub h: Option<G>,
    /// third operand, for associativity of union
    pub k: Option<G>,
    /// filter_vertices keeps exactly these ids
    pub keep: Vec<usize>,
}

pub fn m_complement(g: &G) -> G {
    let mut c = G {
        verts: g.verts.clone(),
        arcs: Default::default(),
    };
    for &u in &g.verts {
        for &v in &g.verts {
            if u != v && !g.has(u, v) {
                let _ = c.arcs.insert((u, v), 1);
            }
        }
    }
    c
}

fn m_converse(g: &G) -> G {
    G {
        verts: g.verts.clone(),
        arcs: g.arcs.iter().map(|(&(u, v), &w)| ((v, u), w)).collect(),
    }
}

pub fn m_union(g: &G, h: &G) -> G {
    let mut u = g.clone();
    u.verts.extend(h.verts.iter().copied());
    for &a in h.arcs.keys() {
        let _ = u.arcs.insert(a, 1);
    }
    u
}

fn m_induced(g: &G, keep: &BTreeSet<usize>) -> G {
    G {
        verts: g.verts.intersection(keep).copied().collect(),
        arcs: g
            .arcs
            .iter()
            .filter(|(&(u, v), _)| keep.contains(&u) && keep.contains(&v))
            .map(|(&a, &w)| (a, w))
            .collect(),
    }
}

fn run_converse<D: Dg>(c: &C11) -> R {
    let g = &c.g;
    let d = D::build(g);
    let before = d.clone();
    at("Converse::converse");
    let r = d.converse();
    same_probed(&r, &m_converse(g), "converse(): vertex set V, v->u exactly when u->v is in A, weights carried over")?;
    ensure!("converse() leaves the operand unchanged", d == before, format!("{d:?}"));
    same(&d, g, "operand after converse()")?;
    let rr = r.converse();
    same_probed(&rr, g, "converse is an involution: converse(converse(D))")?;
    ensure!(
        "converse(converse(D)) == D",
        rr == d,
        format!("{rr:?} != {d:?}")
    );
    Ok(())
}

fn run_complement<D: Dgu>(c: &C11) -> R {
    let g = &c.g;
    let d = D::build(g);
    let before = d.clone();
    at("Complement::complement");
    let r = d.complement();
    same_probed(&r, &m_complement(g), "complement(): vertex set V, u->v exactly when u != v are in V and u->v is not in A")?;
    ensure!("complement() leaves the operand unchanged", d == before, format!("{d:?}"));
    same(&d, g, "operand after complement()")?;
    let rr = r.complement();
    same_probed(&rr, g, "complement is an involution: complement(complement(D))")?;
    ensure!(
        "complement(complement(D)) == D",
        rr == d,
        format!("{rr:?} != {d:?}")
    );
    Ok(())
}

fn run_union<D: Dgu>(c: &C11) -> R {
    let (g, h) = (&c.g, c.h.as_ref().unwrap());
    let (d, e) = (D::build(g), D::build(h));
    let (d0, e0) = (d.clone(), e.clone());
    at("Union::union");
    let u = d.union(&e);
    let mu = m_union(g, h);
    same_probed(&u, &mu, "D.union(E): vertex set V(D) U V(E), arc set A(D) U A(E)")?;
    ensure!(
        "union() leaves both operands unchanged",
        d == d0 && e == e0,
        format!("{d:?} / {e:?}")
    );
    same(&d, g, "left operand after union()")?;
    same(&e, h, "right operand after union()")?;
    let u2 = e.union(&d);
    same(&u2, &mu, "E.union(D)")?;
    ensure!("union is commutative: D.union(E) == E.union(D)", u == u2, format!("{u:?} != {u2:?}"));
    let dd = d.union(&d);
    same(&dd, g, "union is idempotent: D.union(D)")?;
    ensure!("D.union(D) == D", dd == d, format!("{dd:?} != {d:?}"));
    if let Some(k) = &c.k {
        let f = D::build(k);
        let l = u.union(&f);
        let r = d.union(&e.union(&f));
        same(&l, &m_union(&mu, k), "(D.union(E)).union(F)")?;
        ensure!(
            "union is associative: (D.union(E)).union(F) == D.union(E.union(F))",
            l == r,
            format!("{l:?} != {r:?}")
        );
    }
    Ok(())
}

fn run_filter(c: &C11) -> R {
    let g = &c.g;
    let d = AdjacencyMap::build(g);
    let before = d.clone();
    let keep: BTreeSet<usize> = c.keep.iter().copied().collect();
    at("FilterVertices::filter_vertices");
    let exp = m_induced(g, &keep);
    if exp.order() == 0 {
        // rustdoc: "Panics if the subgraph has zero vertices"
        ensure!(
            "filter_vertices with a predicate that selects no vertex panics (rustdoc) instead of returning a digraph without vertices",
            panics(|| d.filter_vertices(|v| keep.contains(&v))),
            "returned normally".to_string()
        );
        return Ok(());
    }
    let r = d.filter_vertices(|v| keep.contains(&v));
    same_probed(&r, &exp, "filter_vertices(p): the subdigraph induced by {v in V : p(v)}")?;
    ensure!("filter_vertices() leaves the operand unchanged", d == before, format!("{d:?}"));
    same(&d, g, "operand after filter_vertices()")?;
    Ok(())
}

impl Case for C11 {
    fn prop(&self) -> &'static str {
        "C11"
    }

    fn run(&self) -> R {
        match self.op {
            "converse" => with_repr!(self.repr.as_str(), run_converse(self)),
            "complement" => with_urepr!(self.repr.as_str(), run_complement(self)),
            "union" => with_urepr!(self.repr.as_str(), run_union(self)),
            _ => run_filter(self),
        }
    }

    fn fields(&self) -> Vec<(String, J)> {
        let weighted = self.repr.starts_with("AdjacencyListWeighted");
        let mut f = vec![
            ("repr".into(), J::s(&self.repr)),
            ("operation".into(), J::s(self.op)),
        ];
        f.extend(self.g.fields(weighted));
        if let Some(h) = &self.h {
            f.push(("other".into(), h.json(false)));
        }
        if let Some(k) = &self.k {
            f.push(("third".into(), k.json(false)));
        }
        if self.op == "filter_vertices" {
            f.push(("keep".into(), J::us(&self.keep)));
        }
        f
    }
}

fn unary(repr: &str, op: &'static str, g: G) -> C11 {
    C11 {
        repr: repr.to_string(),
        op,
        g,
        h: None,
        k: None,
        keep: vec![],
    }
}

fn weights_for(repr: &str) -> &'static [i64] {
    if repr.ends_with("<isize>") {
        &[-4, -1, 0, 1, 3, 9]
    } else if repr.ends_with("<usize>") {
        &[0, 1, 3, 9]
    } else {
        &[]
    }
}

fn reweigh(rng: &mut Rng, g: &mut G, repr: &str) {
    let ws = weights_for(repr);
    if !ws.is_empty() {
        for w in g.arcs.values_mut() {
            *w = rng.pick(ws);
        }
    }
}

/// every digraph of order 1..=max as (order, mask)
fn small_digraphs(max: usize) -> Vec<G> {
    let mut v = Vec::new();
    for order in 1..=max {
        for mask in 0..(1u64 << (order * (order - 1))) {
            v.push(g_from_mask(order, mask));
        }
    }
    v
}

fn filter_cases(g: &G, rng: &mut Rng, exhaustive: bool) -> Vec<Vec<usize>> {
    let vs = g.vlist();
    let mut out = Vec::new();
    if exhaustive {
        for m in 0..(1u64 << vs.len()) {
            out.push(
                (0..vs.len())
                    .filter(|&i| m >> i & 1 == 1)
                    .map(|i| vs[i])
                    .collect::<Vec<_>>(),
            );
        }
    } else {
        for _ in 0..3 {
            let mut k: Vec<usize> = vs.iter().copied().filter(|_| rng.chance(1, 2)).collect();
            // ids outside V are harmless in a predicate
            k.push(g.max_id().wrapping_add(1));
            out.push(k);
        }
        out.push(vec![]);
    }
    if SKIP_KNOWN_FILTER_EMPTY {
        out.retain(|k| k.iter().any(|v| g.verts.contains(v)));
    }
    out
}

/// operations that spawn worker threads on every call (about a millisecond
/// per case): they are subsampled so that the whole search stays in budget
fn heavy(repr: &str, op: &str) -> bool {
    (repr == "AdjacencyList" && (op == "complement" || op == "union"))
        || (repr == "AdjacencyMap" && op == "union")
}

pub fn search_c11(seed: u64, ctx: &mut Ctx) -> Option<J> {
    let mut rng = Rng::new(seed);
    let small3 = small_digraphs(3);
    // unary operations, every digraph of order <= 3, then order 4
    for order in 1..=4usize {
        for mask in 0..(1u64 << (order * (order - 1))) {
            for repr in ALL_REPRS {
                let mut g = g_from_mask(order, mask);
                reweigh(&mut rng, &mut g, repr);
                if let Some(f) = ctx.eval(&unary(repr, "converse", g.clone())) {
                    return Some(f);
                }
                if UNWEIGHTED.contains(&repr)
                    && !(order == 4 && heavy(repr, "complement") && mask % 32 != seed % 32)
                {
                    if let Some(f) = ctx.eval(&unary(repr, "complement", g)) {
                        return Some(f);
                    }
                }
            }
            if order <= 3 {
                let g = g_from_mask(order, mask);
                for keep in filter_cases(&g, &mut rng, true) {
                    let mut c = unary("AdjacencyMap", "filter_vertices", g.clone());
                    c.keep = keep;
                    if let Some(f) = ctx.eval(&c) {
                        return Some(f);
                    }
                }
            }
            if ctx.expired() {
                return None;
            }
        }
        if order == 3 {
            // union: every ordered pair of digraphs of order <= 3 (every
            // 32nd pair beyond order 2 for the thread-spawning impls)
            for (i, g) in small3.iter().enumerate() {
                for (k, h) in small3.iter().enumerate() {
                    for repr in UNWEIGHTED {
                        if heavy(repr, "union")
                            && g.order().max(h.order()) == 3
                            && (i * 69 + k) as u64 % 32 != seed % 32
                        {
                            continue;
                        }
                        let mut c = unary(repr, "union", g.clone());
                        c.h = Some(h.clone());
                        if rng.chance(1, 4) {
                            c.k = Some(small3[rng.below(small3.len())].clone());
                        }
                        if let Some(f) = ctx.eval(&c) {
                            return Some(f);
                        }
                    }
                }
                if i % 4 == 0 && ctx.expired() {
                    return None;
                }
            }
        }
    }
    // union of operands of DIFFERENT order (equal and different numbers of
    // 64-bit blocks in the bit matrix: 3/5 and 9/11 share the block count)
    for (a, b) in [(3usize, 5usize), (5, 3), (9, 11), (11, 9), (7, 8), (8, 7), (8, 9), (9, 8), (2, 8), (63, 65), (65, 64)] {
        for repr in UNWEIGHTED {
            let reps = if heavy(repr, "union") { 2 } else { 24 };
            for r in 0..reps {
                let (g, h) = if r == 0 {
                    (make_model("complete", a), structured("circuit", b, &[]))
                } else {
                    (random_g(&mut rng, a, &[]), random_g(&mut rng, b, &[]))
                };
                let mut c = unary(repr, "union", g);
                c.h = Some(h);
                if r % 4 == 1 {
                    let o = 1 + rng.below(12);
                    c.k = Some(random_g(&mut rng, o, &[]));
                }
                if let Some(f) = ctx.eval(&c) {
                    return Some(f);
                }
            }
        }
        if ctx.expired() {
            return None;
        }
    }
    // orders above the worker-thread count and not a multiple of the chunk
    // size (AdjacencyList::complement / union and AdjacencyMap::union chunk
    // their rows by available_parallelism()): complement, converse and union
    // on path, cycle, star and a random digraph, every representation that
    // implements the operation
    for order in THREAD_ORDERS {
        let shapes: Vec<G> = vec![
            structured("path", order, &[]),
            structured("cycle", order, &[]),
            structured("star", order, &[]),
            random_g(&mut rng, order, &[]),
        ];
        for (i, g0) in shapes.iter().enumerate() {
            for repr in ALL_REPRS {
                let mut g = g0.clone();
                reweigh(&mut rng, &mut g, repr);
                if let Some(f) = ctx.eval(&unary(repr, "converse", g.clone())) {
                    return Some(f);
                }
                if !UNWEIGHTED.contains(&repr) {
                    continue;
                }
                if let Some(f) = ctx.eval(&unary(repr, "complement", g.clone())) {
                    return Some(f);
                }
                // union: equal order (another shape), a different order from
                // the same list, and one operand much larger than the other
                let other_order = THREAD_ORDERS[(i + 1 + rng.below(7)) % THREAD_ORDERS.len()];
                let others = [
                    shapes[(i + 1) % shapes.len()].clone(),
                    random_g(&mut rng, other_order, &[]),
                    structured("circuit", 3, &[]),
                ];
                for (k, h) in others.into_iter().enumerate() {
                    for swap in [false, true] {
                        // the thread-spawning impls see the swapped pair only
                        // for the "much larger operand" case (time budget)
                        if swap && k != 2 && heavy(repr, "union") {
                            continue;
                        }
                        let (a, b) = if swap { (h.clone(), g.clone()) } else { (g.clone(), h.clone()) };
                        let mut c = unary(repr, "union", a);
                        c.h = Some(b);
                        if k == 1 && !swap {
                            c.k = Some(structured("star", 20, &[]));
                        }
                        if let Some(f) = ctx.eval(&c) {
                            return Some(f);
                        }
                    }
                }
            }
        }
        if ctx.expired() {
            return None;
        }
    }
    // filter_vertices keeping a vertex that loses all its neighbours
    for (g, keeps) in [
        (structured("star", 6, &[]), vec![vec![0], vec![1, 2, 3, 4, 5], vec![0, 3], vec![3]]),
        (structured("path", 7, &[]), vec![vec![0, 2, 4, 6], vec![1, 3, 5], vec![0, 1, 3, 4, 6], vec![6]]),
        (structured("cycle", 65, &[]), vec![vec![0, 64], vec![63, 64], vec![0, 32, 33], (0..65).step_by(2).collect()]),
    ] {
        for keep in keeps {
            let mut c = unary("AdjacencyMap", "filter_vertices", g.clone());
            c.keep = keep;
            if let Some(f) = ctx.eval(&c) {
                return Some(f);
            }
        }
    }
    // seeded random up to order 6; AdjacencyMap also with non-contiguous ids
    // for union and filter_vertices (and for complement / converse only when
    // the known defect F6 is not skipped)
    for i in 0..4000usize {
        for repr in ALL_REPRS {
            let order = 1 + rng.below(6);
            let mut g = random_g(&mut rng, order, &[]);
            reweigh(&mut rng, &mut g, repr);
            if let Some(f) = ctx.eval(&unary(repr, "converse", g.clone())) {
                return Some(f);
            }
            if UNWEIGHTED.contains(&repr) {
                if !heavy(repr, "complement") || i % 32 == 0 {
                    if let Some(f) = ctx.eval(&unary(repr, "complement", g.clone())) {
                        return Some(f);
                    }
                }
                if heavy(repr, "union") && i % 32 != 0 {
                    continue;
                }
                let mut c = unary(repr, "union", g);
                let o2 = 1 + rng.below(6);
                c.h = Some(random_g(&mut rng, o2, &[]));
                let o3 = 1 + rng.below(6);
                c.k = Some(random_g(&mut rng, o3, &[]));
                if let Some(f) = ctx.eval(&c) {
                    return Some(f);
                }
            }
        }
        let g = random_noncontiguous_g(&mut rng, &[]);
        let h = if rng.chance(1, 2) {
            random_noncontiguous_g(&mut rng, &[])
        } else {
            let o = 1 + rng.below(5);
            random_g(&mut rng, o, &[])
        };
        if i % 32 == 0 {
            let mut c = unary("AdjacencyMap", "union", g.clone());
            c.h = Some(h.clone());
            c.k = Some(random_noncontiguous_g(&mut rng, &[]));
            if let Some(f) = ctx.eval(&c) {
                return Some(f);
            }
        }
        for keep in filter_cases(&g, &mut rng, false) {
            let mut c = unary("AdjacencyMap", "filter_vertices", g.clone());
            c.keep = keep;
            if let Some(f) = ctx.eval(&c) {
                return Some(f);
            }
        }
        if !SKIP_KNOWN_F6 {
            for op in ["complement", "converse"] {
                if let Some(f) = ctx.eval(&unary("AdjacencyMap", op, g.clone())) {
                    return Some(f);
                }
            }
        }
        if i % 32 == 0 && ctx.expired() {
            return None;
        }
    }
    None
}

fn sub_g(j: &J, key: &str, repr: &str) -> Result<Option<G>, String> {
    match j.get(key) {
        None => Ok(None),
        Some(x) => {
            let g = G::from_json(x)?;
            if g.order() == 0 || !g.verts.contains(&0) {
                return Err(format!("{key}: the vertex set must contain 0"));
            }
            if !g.contiguous() && repr != "AdjacencyMap" {
                return Err(format!("{key}: non-contiguous needs AdjacencyMap"));
            }
            Ok(Some(g))
        }
    }
}

pub fn replay_c11(j: &J) -> Result<Option<J>, String> {
    let (repr, g) = repr_and_g(j)?;
    let op: &'static str = match j.req("operation")?.str()? {
        "complement" => "complement",
        "converse" => "converse",
        "union" => "union",
        "filter_vertices" => "filter_vertices",
        o => return Err(format!("unknown operation {o}")),
    };
    let unweighted = UNWEIGHTED.contains(&repr.as_str());
    match op {
        "complement" | "union" if !unweighted => {
            return Err(format!("{repr} does not implement {op}"))
        }
        "filter_vertices" if repr != "AdjacencyMap" => {
            return Err("only AdjacencyMap implements filter_vertices".into())
        }
        _ => {}
    }
    if SKIP_KNOWN_F6 && !g.contiguous() && (op == "complement" || op == "converse") {
        return Err("excluded: known defect F6 (AdjacencyMap complement/converse on non-contiguous ids; converse is undefined behaviour)".into());
    }
    let h = sub_g(j, "other", &repr)?;
    if op == "union" && h.is_none() {
        return Err("union needs \"other\"".into());
    }
    let k = sub_g(j, "third", &repr)?;
    let keep = match j.get("keep") {
        Some(k) => k.usizes()?,
        None => vec![],
    };
    if SKIP_KNOWN_FILTER_EMPTY
        && op == "filter_vertices"
        && !keep.iter().any(|v| g.verts.contains(v))
    {
        return Err("excluded: known finding (filter_vertices selecting no vertex does not panic)".into());
    }
    Ok(crate::eval_case(&C11 {
        repr,
        op,
        g,
        h,
        k,
        keep,
    }))
}

// ------------------------------------------------------------------ C12 ----

pub struct C12 {
    pub repr: String,
    pub g: G,
    /// when present only the binary predicates are checked, on (g, h)
    pub h: Option<G>,
}

fn run_c12<D: Dg>(c: &C12) -> R {
    let g = &c.g;
    let d = D::build(g);
    let before = d.clone();
    if let Some(h) = &c.h {
        let e = D::build(h);
        let sub = |a: &G, b: &G| {
            a.verts.is_subset(&b.verts) && a.arcs.keys().all(|k| b.arcs.contains_key(k))
        };
        at("IsSubdigraph::is_subdigraph");
        ensure_eq!(
            "H.is_subdigraph(D) iff V(H) is a subset of V(D) and A(H) of A(D) (H = first digraph, D = other)",
            sub(g, h),
            d.is_subdigraph(&e)
        );
        at("IsSuperdigraph::is_superdigraph");
        ensure_eq!(
            "H.is_superdigraph(D) iff D is a subdigraph of H (H = first digraph, D = other)",
            sub(h, g),
            d.is_superdigraph(&e)
        );
        at("IsSpanningSubdigraph::is_spanning_subdigraph");
        ensure_eq!(
            "H.is_spanning_subdigraph(D) iff V(H) = V(D) and A(H) is a subset of A(D) (H = first digraph, D = other)",
            sub(g, h) && g.verts == h.verts,
            d.is_spanning_subdigraph(&e)
        );
        ensure!("predicates leave the operands unchanged", d == before, format!("{d:?}"));
        return Ok(());
    }
    let vs = g.vlist();
    let mut complete = true;
    let mut semi = true;
    let mut tour = true;
    for (i, &u) in vs.iter().enumerate() {
        for &v in &vs[i + 1..] {
            let k = g.has(u, v) as usize + g.has(v, u) as usize;
            complete &= k == 2;
            semi &= k >= 1;
            tour &= k == 1;
        }
    }
    at("IsComplete::is_complete");
    ensure_eq!(
        "is_complete iff every ordered pair of distinct vertices is an arc",
        complete,
        d.is_complete()
    );
    if !(SKIP_KNOWN_F6 && !g.contiguous()) {
        at("IsSemicomplete::is_semicomplete");
        ensure_eq!(
            "is_semicomplete iff every unordered pair of distinct vertices is joined by at least one arc",
            semi,
            d.is_semicomplete()
        );
        at("IsTournament::is_tournament");
        ensure_eq!(
            "is_tournament iff every unordered pair of distinct vertices is joined by exactly one arc",
            tour,
            d.is_tournament()
        );
    }
    let ins: Vec<usize> = vs.iter().map(|&v| g.inn(v).len()).collect();
    let outs: Vec<usize> = vs.iter().map(|&v| g.out(v).len()).collect();
    at("IsRegular::is_regular");
    ensure_eq!(
        "is_regular iff all indegrees and outdegrees equal one constant",
        ins.iter().chain(outs.iter()).all(|&x| x == ins[0]),
        d.is_regular()
    );
    at("IsBalanced::is_balanced");
    ensure_eq!(
        "is_balanced iff indegree = outdegree at every vertex",
        ins == outs,
        d.is_balanced()
    );
    at("IsSymmetric::is_symmetric");
    ensure_eq!(
        "is_symmetric iff every arc has its reverse",
        g.arcs.keys().all(|&(u, v)| g.has(v, u)),
        d.is_symmetric()
    );
    at("IsOriented::is_oriented");
    ensure_eq!(
        "is_oriented iff no arc has its reverse",
        g.arcs.keys().all(|&(u, v)| !g.has(v, u)),
        d.is_oriented()
    );
    at("IsSimple::is_simple");
    ensure_eq!("is_simple is true for every digraph built through the API", true, d.is_simple());
    at("predicates");
    ensure!("predicates leave the digraph unchanged", d == before, format!("{d:?}"));
    Ok(())
}

impl Case for C12 {
    fn prop(&self) -> &'static str {
        "C12"
    }

    fn run(&self) -> R {
        with_repr!(self.repr.as_str(), run_c12(self))
    }

    fn fields(&self) -> Vec<(String, J)> {
        let weighted = self.repr.starts_with("AdjacencyListWeighted");
        let mut f = vec![("repr".into(), J::s(&self.repr))];
        f.extend(self.g.fields(weighted));
        if let Some(h) = &self.h {
            f.push(("other".into(), h.json(weighted)));
        }
        f
    }
}

pub fn search_c12(seed: u64, ctx: &mut Ctx) -> Option<J> {
    let mut rng = Rng::new(seed);
    let small3 = small_digraphs(3);
    for order in 1..=4usize {
        for mask in 0..(1u64 << (order * (order - 1))) {
            for repr in ALL_REPRS {
                // AdjacencyList::is_semicomplete spawns a thread per vertex on
                // dense digraphs: at order 4 it sees every eighth digraph
                if order == 4 && repr == "AdjacencyList" && mask % 8 != seed % 8 {
                    continue;
                }
                let mut g = g_from_mask(order, mask);
                reweigh(&mut rng, &mut g, repr);
                let c = C12 {
                    repr: repr.to_string(),
                    g,
                    h: None,
                };
                if let Some(f) = ctx.eval(&c) {
                    return Some(f);
                }
            }
            if ctx.expired() {
                return None;
            }
        }
        if order == 3 {
            for g in &small3 {
                for h in &small3 {
                    for repr in ALL_REPRS {
                        let (mut g, mut h) = (g.clone(), h.clone());
                        reweigh(&mut rng, &mut g, repr);
                        reweigh(&mut rng, &mut h, repr);
                        let c = C12 {
                            repr: repr.to_string(),
                            g,
                            h: Some(h),
                        };
                        if let Some(f) = ctx.eval(&c) {
                            return Some(f);
                        }
                    }
                }
                if ctx.expired() {
                    return None;
                }
            }
        }
    }
    // orders above the worker-thread count and not a multiple of the chunk
    // size (AdjacencyList::is_semicomplete chunks its rows by
    // available_parallelism()): is_complete / is_semicomplete / is_tournament
    // and the other predicates on (a) the complete digraph, (b) complete minus
    // BOTH arcs of one unordered pair (first two, middle two, last two
    // vertices, and (last, first)), (c) tournaments, (d) a tournament plus
    // one reverse arc at the tail end
    for order in THREAD_ORDERS {
        let n = order;
        let complete = make_model("complete", n);
        let mut cases: Vec<G> = vec![complete.clone()];
        for (u, v) in [(0, 1), (n / 2 - 1, n / 2), (n / 2, n / 2 + 1), (n - 2, n - 1), (n - 1, 0), (n - 1, n / 2)] {
            let mut g = complete.clone();
            let _ = g.arcs.remove(&(u, v));
            let _ = g.arcs.remove(&(v, u));
            cases.push(g);
            // only one arc of the pair missing: still semicomplete
            let mut g = complete.clone();
            let _ = g.arcs.remove(&(u.max(v), u.min(v)));
            cases.push(g);
        }
        for flip in [0, 2, 3] {
            let t = tournament(n, flip);
            cases.push(t.clone());
            // plus one reverse arc at the tail end / at the front / in the middle
            for (u, v) in [(n - 2, n - 1), (0, 1), (n / 2, n - 1)] {
                let mut g = t.clone();
                let _ = g.arcs.insert((u, v), 1);
                let _ = g.arcs.insert((v, u), 1);
                cases.push(g);
            }
            // minus the arc between the last two vertices
            let mut g = t.clone();
            let _ = g.arcs.remove(&(n - 2, n - 1));
            let _ = g.arcs.remove(&(n - 1, n - 2));
            cases.push(g);
        }
        for g0 in cases {
            for repr in ALL_REPRS {
                let mut g = g0.clone();
                reweigh(&mut rng, &mut g, repr);
                let c = C12 {
                    repr: repr.to_string(),
                    g,
                    h: None,
                };
                if let Some(f) = ctx.eval(&c) {
                    return Some(f);
                }
            }
        }
        if ctx.expired() {
            return None;
        }
    }
    for i in 0..8000usize {
        for repr in ALL_REPRS {
            let order = 2 + rng.below(5);
            // dense digraphs matter for complete / semicomplete / tournament
            let mut g = match rng.below(4) {
                0 => m_complement(&random_g(&mut rng, order, &[])),
                1 => {
                    // a tournament with one defect at most
                    let mut t = G::new(order);
                    for u in 0..order {
                        for v in u + 1..order {
                            if rng.chance(1, 2) {
                                t.add(u, v, 1);
                            } else {
                                t.add(v, u, 1);
                            }
                        }
                    }
                    match rng.below(3) {
                        0 if order > 1 => {
                            let a = t.arc_list();
                            let _ = t.arcs.remove(&rng.pick(&a));
                        }
                        1 => {
                            let (u, v) = rng.pick(&pairs(order.max(2)));
                            t.add(u, v, 1);
                        }
                        _ => {}
                    }
                    t
                }
                _ => random_g(&mut rng, order, &[]),
            };
            reweigh(&mut rng, &mut g, repr);
            if repr != "AdjacencyList" || i % 8 == 0 {
                let c = C12 {
                    repr: repr.to_string(),
                    g: g.clone(),
                    h: None,
                };
                if let Some(f) = ctx.eval(&c) {
                    return Some(f);
                }
            }
            // a sub / super / unrelated digraph of another order
            let mut h = g.clone();
            match rng.below(4) {
                0 => {
                    let a = h.arc_list();
                    for x in a {
                        if rng.chance(1, 3) {
                            let _ = h.arcs.remove(&x);
                        }
                    }
                }
                1 => {
                    let keep: BTreeSet<usize> = (0..1 + rng.below(order)).collect();
                    h = m_induced(&g, &keep);
                }
                2 => {
                    let o = 1 + rng.below(6);
                    h = random_g(&mut rng, o, &[]);
                }
                _ => {}
            }
            reweigh(&mut rng, &mut h, repr);
            for (a, b) in [(g.clone(), h.clone()), (h, g)] {
                let c = C12 {
                    repr: repr.to_string(),
                    g: a,
                    h: Some(b),
                };
                if let Some(f) = ctx.eval(&c) {
                    return Some(f);
                }
            }
        }
        // non-contiguous AdjacencyMap digraphs
        let g = random_noncontiguous_g(&mut rng, &[]);
        let mut h = g.clone();
        if rng.chance(1, 2) {
            let a = h.arc_list();
            for x in a {
                if rng.chance(1, 3) {
                    let _ = h.arcs.remove(&x);
                }
            }
        } else {
            h = random_noncontiguous_g(&mut rng, &[]);
        }
        for (a, b) in [(g.clone(), None), (g.clone(), Some(h.clone())), (h, Some(g))] {
            let c = C12 {
                repr: "AdjacencyMap".to_string(),
                g: a,
                h: b,
            };
            if let Some(f) = ctx.eval(&c) {
                return Some(f);
            }
        }
        if i % 32 == 0 && ctx.expired() {
            return None;
        }
    }
    None
}

pub fn replay_c12(j: &J) -> Result<Option<J>, String> {
    let (repr, g) = repr_and_g(j)?;
    let h = sub_g(j, "other", &repr)?;
    if let Some(h) = &h {
        if repr.ends_with("<usize>") && h.arcs.values().any(|&w| w < 0) {
            return Err("negative weight for a usize-weighted digraph".into());
        }
    }
    Ok(crate::eval_case(&C12 { repr, g, h }))
}
