//! C01 (mutation histories against a model set of arcs) and C02 (every query
//! against its definition over the arc set).

use {
    crate::{
        json::J,
        model::*,
        Case,
        Ctx,
    },
    graaf::*,
};

// ------------------------------------------------------------------ C01 ----

#[derive(Clone, Debug, PartialEq)]
pub enum Op {
    /// add_arc(u, v) / add_arc_weighted(u, v, w)
    Add(usize, usize, i64),
    Remove(usize, usize),
    /// AdjacencyMatrix::toggle
    Toggle(usize, usize),
}

impl Op {
    pub fn json(&self, weighted: bool) -> J {
        match *self {
            Op::Add(u, v, w) if weighted => {
                J::Arr(vec![J::s("add_arc_weighted"), J::u(u), J::u(v), J::n(w)])
            }
            Op::Add(u, v, _) => J::Arr(vec![J::s("add_arc"), J::u(u), J::u(v)]),
            Op::Remove(u, v) => J::Arr(vec![J::s("remove_arc"), J::u(u), J::u(v)]),
            Op::Toggle(u, v) => J::Arr(vec![J::s("toggle"), J::u(u), J::u(v)]),
        }
    }

    pub fn from_json(j: &J) -> Result<Op, String> {
        let a = j.arr()?;
        if a.len() < 3 {
            return Err("op needs [name, u, v]".into());
        }
        let (u, v) = (a[1].usize()?, a[2].usize()?);
        match a[0].str()? {
            "add_arc" => Ok(Op::Add(u, v, 1)),
            "add_arc_weighted" => {
                Ok(Op::Add(u, v, a.get(3).ok_or("missing weight")?.i64()?))
            }
            "remove_arc" => Ok(Op::Remove(u, v)),
            "toggle" => Ok(Op::Toggle(u, v)),
            o => Err(format!("unknown op {o}")),
        }
    }
}

/// Apply one mutating call to both the digraph and the model and compare the
/// outcome (panic / return value). Shared with C20.
pub fn apply_op<D: Dg>(d: &mut D, g: &mut G, op: &Op, step: usize) -> R {
    let before = d.clone();
    match *op {
        Op::Add(u, v, w) => {
            at(if D::WEIGHTED {
                "AddArcWeighted::add_arc_weighted"
            } else {
                "AddArc::add_arc"
            });
            let reject = u == v
                || (!D::GROWS && (!g.verts.contains(&u) || !g.verts.contains(&v)));
            let panicked = panics(|| d.add(u, v, w));
            if reject {
                ensure!(
                    format!("step {step}: {op:?} (self-loop or endpoint outside the fixed-order digraph) is rejected with a panic"),
                    panicked,
                    "returned normally".to_string()
                );
                ensure!(
                    format!("step {step}: rejected {op:?} leaves the digraph equal to the clone taken before"),
                    *d == before,
                    format!("digraph changed: {d:?}")
                );
            } else {
                ensure!(
                    format!("step {step}: valid {op:?} does not panic"),
                    !panicked,
                    "panicked".to_string()
                );
                g.add(u, v, w);
            }
        }
        Op::Remove(u, v) => {
            at("RemoveArc::remove_arc");
            let exp = g.arcs.remove(&(u, v)).is_some();
            let act = d.remove_arc(u, v);
            ensure_eq!(
                format!("step {step}: {op:?} returns whether the arc was present"),
                exp,
                act
            );
        }
        Op::Toggle(u, v) => {
            at("AdjacencyMatrix::toggle");
            let reject = u == v || !g.verts.contains(&u) || !g.verts.contains(&v);
            let panicked = panics(|| d.toggle_arc(u, v));
            if reject {
                ensure!(
                    format!("step {step}: {op:?} is rejected with a panic"),
                    panicked,
                    "returned normally".to_string()
                );
                ensure!(
                    format!("step {step}: rejected {op:?} leaves the digraph unchanged"),
                    *d == before,
                    format!("digraph changed: {d:?}")
                );
            } else {
                ensure!(
                    format!("step {step}: valid {op:?} does not panic"),
                    !panicked,
                    "panicked".to_string()
                );
                if g.arcs.remove(&(u, v)).is_none() {
                    let _ = g.arcs.insert((u, v), 1);
                }
            }
        }
    }
    Ok(())
}

pub struct C01 {
    pub repr: String,
    pub start: String,
    pub order: usize,
    pub ops: Vec<Op>,
}

fn run_c01<D: Dg>(c: &C01) -> R {
    at("constructor");
    let mut d = D::make(&c.start, c.order);
    let mut g = make_model(&c.start, c.order);
    same_probed(&d, &g, &format!("after {}({})", c.start, c.order))?;
    for (i, op) in c.ops.iter().enumerate() {
        apply_op(&mut d, &mut g, op, i)?;
        same_probed(&d, &g, &format!("after step {i} {op:?}"))?;
        // the in-neighbours of the touched head (the matrix derives them from arcs())
        let v = match *op {
            Op::Add(_, v, _) | Op::Remove(_, v) | Op::Toggle(_, v) => v,
        };
        if g.verts.contains(&v) {
            at("InNeighbors::in_neighbors");
            ensure_eq!(
                format!("after step {i} {op:?}: in_neighbors({v}) are the tails of arcs into {v}"),
                g.inn(v),
                d.in_neighbors(v).take(g.order() + 8).collect::<Vec<_>>()
            );
        }
    }
    Ok(())
}

/// short histories on every representation in which, for the bit matrix, bit
/// 63 of a 64-bit block is the ONLY set bit of that block (order 9: arc
/// (7, 0) alone; order 64: arc (0, 63) with no other arc out of 0)
fn bit63_histories() -> Vec<(usize, Vec<Op>)> {
    let mut out = Vec::new();
    for order in [9usize, 11, 64, 65] {
        let cells = bit63_arcs(order);
        for &(u, v) in cells.iter().take(3).chain(cells.iter().rev().take(2)) {
            out.push((order, vec![Op::Add(u, v, 1)]));
            out.push((order, vec![Op::Toggle(u, v)]));
            // the neighbouring bit is set and cleared again, bit 63 stays alone
            let (a, b) = if v >= 2 && v - 1 != u { (u, v - 1) } else { ((u + 1) % order, v) };
            if a != b {
                out.push((order, vec![Op::Add(a, b, 1), Op::Add(u, v, 1), Op::Remove(a, b)]));
            }
            out.push((order, vec![Op::Add(u, v, 1), Op::Remove(u, v), Op::Add(u, v, 1)]));
        }
        // bit 63 alone in EVERY block that has one
        out.push((order, cells.iter().map(|&(u, v)| Op::Add(u, v, 1)).collect()));
    }
    out
}

impl Case for C01 {
    fn prop(&self) -> &'static str {
        "C01"
    }

    fn run(&self) -> R {
        with_repr!(self.repr.as_str(), run_c01(self))
    }

    fn fields(&self) -> Vec<(String, J)> {
        let weighted = self.repr.starts_with("AdjacencyListWeighted");
        vec![
            ("repr".into(), J::s(&self.repr)),
            ("start".into(), J::s(&self.start)),
            ("order".into(), J::u(self.order)),
            (
                "ops".into(),
                J::Arr(self.ops.iter().map(|o| o.json(weighted)).collect()),
            ),
        ]
    }
}

fn pick_id(rng: &mut Rng, g: &G, grows: bool) -> usize {
    let vs = g.vlist();
    let m = g.max_id();
    if grows && rng.chance(1, 5) {
        // small ids with gaps: vertex sets such as {0, 2, 5} or {0, 1, 10}
        return rng.below(12);
    }
    match rng.below(20) {
        0..=13 => rng.pick(&vs),
        14 => m.wrapping_add(1),
        15 => m.wrapping_add(2),
        16 | 17 => FAR + rng.below(2),
        18 => usize::MAX,
        _ => rng.below(m.min(100) + 3),
    }
}

fn pick_weight(rng: &mut Rng, repr: &str) -> i64 {
    if repr.ends_with("<isize>") {
        rng.below(26) as i64 - 5
    } else if repr.ends_with("<usize>") {
        rng.below(21) as i64
    } else {
        1
    }
}

/// a random history; the model is tracked so that ids are mostly meaningful
pub fn random_history(
    rng: &mut Rng,
    repr: &str,
    start: &str,
    order: usize,
    len: usize,
    boundary_cells: bool,
) -> Vec<Op> {
    let grows = repr == "AdjacencyMap";
    let toggle = repr == "AdjacencyMatrix";
    let mut g = make_model(start, order);
    let mut ops = Vec::new();
    for _ in 0..len {
        let (mut u, mut v) = (pick_id(rng, &g, grows), pick_id(rng, &g, grows));
        if boundary_cells && rng.chance(2, 3) {
            // cells next to a 64-bit block boundary of the bit matrix
            let cells = order * order;
            let k = 1 + rng.below(cells.div_ceil(64).max(1));
            let i = (64 * k + rng.below(3)).saturating_sub(1).min(cells - 1);
            u = i / order;
            v = i % order;
        }
        if rng.chance(1, 12) {
            v = u;
        }
        if !grows && rng.chance(1, 8) {
            // tail in range, head just outside: has_arc(0, order),
            // remove_arc(0, order + 1), add_arc(1, order) ...
            u = rng.below(order);
            v = order + rng.below(3);
        }
        if rng.chance(1, 4) && !g.arcs.is_empty() {
            // aim at an existing arc (re-add / remove / toggle off)
            let a = g.arc_list();
            (u, v) = rng.pick(&a);
        }
        let op = match rng.below(if toggle { 10 } else { 8 }) {
            0..=4 => Op::Add(u, v, pick_weight(rng, repr)),
            5..=7 => Op::Remove(u, v),
            _ => Op::Toggle(u, v),
        };
        // keep the tracking model in step (what the library should do)
        match op {
            Op::Add(u, v, w) => {
                let reject = u == v
                    || (!grows && (!g.verts.contains(&u) || !g.verts.contains(&v)));
                if !reject {
                    g.add(u, v, w);
                }
            }
            Op::Remove(u, v) => {
                let _ = g.arcs.remove(&(u, v));
            }
            Op::Toggle(u, v) => {
                if u != v && g.verts.contains(&u) && g.verts.contains(&v) {
                    if g.arcs.remove(&(u, v)).is_none() {
                        let _ = g.arcs.insert((u, v), 1);
                    }
                }
            }
        }
        ops.push(op);
    }
    ops
}

pub fn search_c01(seed: u64, ctx: &mut Ctx) -> Option<J> {
    let mut rng = Rng::new(seed);
    for (order, ops) in bit63_histories() {
        for repr in ALL_REPRS {
            let toggles = ops.iter().any(|o| matches!(o, Op::Toggle(..)));
            if toggles && repr != "AdjacencyMatrix" {
                continue;
            }
            let c = C01 {
                repr: repr.to_string(),
                start: "empty".to_string(),
                order,
                ops: ops.clone(),
            };
            if let Some(f) = ctx.eval(&c) {
                return Some(f);
            }
        }
    }
    const ROUNDS: usize = 6000;
    for round in 0..ROUNDS {
        // tiny cases first: short histories on small orders
        let len_max = (1 + round * 15 / 300).min(15);
        let order_max = (1 + round / 20).min(6);
        for repr in ALL_REPRS {
            let order = 1 + rng.below(order_max);
            let len = 1 + rng.below(len_max);
            let start = if repr.starts_with("AdjacencyListWeighted") {
                "empty"
            } else {
                ["empty", "empty", "empty", "complete", "cycle"][rng.below(5)]
            };
            let ops = random_history(&mut rng, repr, start, order, len, false);
            let c = C01 {
                repr: repr.to_string(),
                start: start.to_string(),
                order,
                ops,
            };
            if let Some(f) = ctx.eval(&c) {
                return Some(f);
            }
        }
        if ctx.expired() {
            return None;
        }
    }
    // bit-block boundaries of the matrix
    for round in 0..500 {
        for order in [8usize, 9, 11, 63, 64, 65] {
            let len = 1 + rng.below((2 + round / 4).min(15));
            let ops =
                random_history(&mut rng, "AdjacencyMatrix", "empty", order, len, true);
            let c = C01 {
                repr: "AdjacencyMatrix".to_string(),
                start: "empty".to_string(),
                order,
                ops,
            };
            if let Some(f) = ctx.eval(&c) {
                return Some(f);
            }
        }
        if ctx.expired() {
            return None;
        }
    }
    None
}

pub fn replay_c01(j: &J) -> Result<Option<J>, String> {
    let repr = j.req("repr")?.str()?.to_string();
    known_repr(&repr)?;
    let start = j.req("start")?.str()?.to_string();
    if start != "empty"
        && (repr.starts_with("AdjacencyListWeighted")
            || !["complete", "cycle", "circuit"].contains(&start.as_str()))
    {
        return Err(format!("start {start:?} is not available for {repr}"));
    }
    let order = j.req("order")?.usize()?;
    if order == 0 || order > 4096 {
        return Err("order must be in 1..=4096".into());
    }
    let ops = j
        .req("ops")?
        .arr()?
        .iter()
        .map(Op::from_json)
        .collect::<Result<Vec<_>, _>>()?;
    if repr != "AdjacencyMatrix" && ops.iter().any(|o| matches!(o, Op::Toggle(..))) {
        return Err("toggle is AdjacencyMatrix only".into());
    }
    if repr.ends_with("<usize>") && ops.iter().any(|o| matches!(o, Op::Add(_, _, w) if *w < 0))
    {
        return Err("negative weight for a usize-weighted digraph".into());
    }
    Ok(crate::eval_case(&C01 {
        repr,
        start,
        order,
        ops,
    }))
}

// ------------------------------------------------------------------ C02 ----

pub struct C02 {
    pub repr: String,
    pub g: G,
    pub walks: Vec<Vec<usize>>,
}

fn run_c02<D: Dg>(c: &C02) -> R {
    let g = &c.g;
    at("constructor");
    let d = D::build(g);
    let before = d.clone();
    at("Order/Size/Vertices/Arcs/HasArc/ArcWeight");
    same_probed(&d, g, "query")?;
    let probes = g.probes();
    at("HasEdge::has_edge");
    for &u in &probes {
        for &v in &probes {
            ensure_eq!(
                format!("has_edge({u}, {v}) iff both u->v and v->u are arcs"),
                g.has(u, v) && g.has(v, u),
                d.has_edge(u, v)
            );
        }
    }
    at("HasWalk::has_walk");
    for w in &c.walks {
        let exp = w.len() >= 2 && w.windows(2).all(|p| g.has(p[0], p[1]));
        ensure_eq!(
            format!("has_walk({w:?}) iff at least two vertices and every consecutive pair is an arc"),
            exp,
            d.has_walk(w)
        );
    }
    let vs = g.vlist();
    let mut degs = Vec::new();
    let mut ins = Vec::new();
    let mut outs = Vec::new();
    for &v in &vs {
        let (o, i) = (g.out(v), g.inn(v));
        at("OutNeighbors::out_neighbors");
        ensure_eq!(
            format!("out_neighbors({v}) are exactly the heads of arcs from {v}, ascending, no repeats"),
            o.clone(),
            d.out_neighbors(v).take(vs.len() + 8).collect::<Vec<_>>()
        );
        if D::WEIGHTED {
            at("OutNeighborsWeighted::out_neighbors_weighted");
            ensure_eq!(
                format!("out_neighbors_weighted({v}) are the (head, weight) pairs, ascending"),
                o.iter().map(|&x| (x, g.w(v, x).unwrap())).collect::<Vec<_>>(),
                d.weighted_out(v)
            );
        }
        at("InNeighbors::in_neighbors");
        ensure_eq!(
            format!("in_neighbors({v}) are exactly the tails of arcs into {v}, ascending, no repeats"),
            i.clone(),
            d.in_neighbors(v).take(vs.len() + 8).collect::<Vec<_>>()
        );
        at("Indegree::indegree");
        ensure_eq!(format!("indegree({v})"), i.len(), d.indegree(v));
        at("Outdegree::outdegree");
        ensure_eq!(format!("outdegree({v})"), o.len(), d.outdegree(v));
        at("Degree::degree");
        ensure_eq!(format!("degree({v})"), i.len() + o.len(), d.degree(v));
        at("Outdegree::is_sink");
        ensure_eq!(format!("is_sink({v})"), o.is_empty(), d.is_sink(v));
        at("Indegree::is_source");
        ensure_eq!(format!("is_source({v})"), i.is_empty(), d.is_source(v));
        at("IsIsolated::is_isolated");
        ensure_eq!(
            format!("is_isolated({v})"),
            i.is_empty() && o.is_empty(),
            d.is_isolated(v)
        );
        at("IsPendant::is_pendant");
        ensure_eq!(
            format!("is_pendant({v}) iff degree is 1"),
            i.len() + o.len() == 1,
            d.is_pendant(v)
        );
        degs.push(i.len() + o.len());
        ins.push(i.len());
        outs.push(o.len());
    }
    let lim = vs.len() + 8;
    at("Sinks::sinks");
    ensure_eq!(
        "sinks() lists the vertices without out-arcs, ascending",
        vs.iter().copied().filter(|&v| g.out(v).is_empty()).collect::<Vec<_>>(),
        d.sinks().take(lim).collect::<Vec<_>>()
    );
    at("Sources::sources");
    ensure_eq!(
        "sources() lists the vertices without in-arcs, ascending",
        vs.iter().copied().filter(|&v| g.inn(v).is_empty()).collect::<Vec<_>>(),
        d.sources().take(lim).collect::<Vec<_>>()
    );
    at("DegreeSequence::degree_sequence");
    ensure_eq!(
        "degree_sequence() in vertex order",
        degs.clone(),
        d.degree_sequence().take(lim).collect::<Vec<_>>()
    );
    at("IndegreeSequence::indegree_sequence");
    ensure_eq!(
        "indegree_sequence() in vertex order",
        ins.clone(),
        d.indegree_sequence().take(lim).collect::<Vec<_>>()
    );
    at("OutdegreeSequence::outdegree_sequence");
    ensure_eq!(
        "outdegree_sequence() in vertex order",
        outs.clone(),
        d.outdegree_sequence().take(lim).collect::<Vec<_>>()
    );
    at("SemidegreeSequence::semidegree_sequence");
    ensure_eq!(
        "semidegree_sequence() is (indegree, outdegree) in vertex order",
        ins.iter().copied().zip(outs.iter().copied()).collect::<Vec<_>>(),
        d.semidegree_sequence().take(lim).collect::<Vec<_>>()
    );
    at("Degree::max_degree");
    ensure_eq!("max_degree()", *degs.iter().max().unwrap(), d.max_degree());
    at("Degree::min_degree");
    ensure_eq!("min_degree()", *degs.iter().min().unwrap(), d.min_degree());
    at("Indegree::max_indegree");
    ensure_eq!("max_indegree()", *ins.iter().max().unwrap(), d.max_indegree());
    at("Indegree::min_indegree");
    ensure_eq!("min_indegree()", *ins.iter().min().unwrap(), d.min_indegree());
    at("Outdegree::max_outdegree");
    ensure_eq!("max_outdegree()", *outs.iter().max().unwrap(), d.max_outdegree());
    at("Outdegree::min_outdegree");
    ensure_eq!("min_outdegree()", *outs.iter().min().unwrap(), d.min_outdegree());
    at("queries");
    ensure!(
        "queries never change the digraph (equal to the clone taken before)",
        d == before,
        format!("{d:?}")
    );
    same(&d, g, "after all queries")?;
    // remove_arc with an endpoint outside V answers 'absent' and changes nothing
    at("RemoveArc::remove_arc");
    let mut m = d.clone();
    for &u in &probes {
        for &v in &probes {
            if !g.verts.contains(&u) || !g.verts.contains(&v) {
                ensure_eq!(
                    format!("remove_arc({u}, {v}) with an id outside V returns false"),
                    false,
                    m.remove_arc(u, v)
                );
            }
        }
    }
    same(&m, g, "after remove_arc with ids outside V")?;
    Ok(())
}

impl Case for C02 {
    fn prop(&self) -> &'static str {
        "C02"
    }

    fn run(&self) -> R {
        with_repr!(self.repr.as_str(), run_c02(self))
    }

    fn fields(&self) -> Vec<(String, J)> {
        let mut f = vec![("repr".into(), J::s(&self.repr))];
        f.extend(self.g.fields(self.repr.starts_with("AdjacencyListWeighted")));
        f.push((
            "walks".into(),
            J::Arr(self.walks.iter().map(|w| J::us(w)).collect()),
        ));
        f
    }
}

fn random_walks(rng: &mut Rng, g: &G) -> Vec<Vec<usize>> {
    let probes = g.probes();
    let vs = g.vlist();
    let mut ws = vec![vec![], vec![vs[0]]];
    // arbitrary sequences (out-of-range ids included)
    for _ in 0..4 {
        let len = rng.below(6);
        ws.push((0..len).map(|_| rng.pick(&probes)).collect());
    }
    // genuine walks, and genuine walks with a broken last hop
    for k in 0..4 {
        let mut w = vec![rng.pick(&vs)];
        for _ in 0..1 + rng.below(5) {
            let o = g.out(*w.last().unwrap());
            if o.is_empty() {
                break;
            }
            w.push(rng.pick(&o));
        }
        if k == 3 {
            w.push(rng.pick(&probes));
        }
        ws.push(w);
    }
    ws
}

fn reweigh(rng: &mut Rng, g: &mut G, repr: &str) {
    if repr.starts_with("AdjacencyListWeighted") {
        for w in g.arcs.values_mut() {
            *w = pick_weight(rng, repr);
        }
    }
}

pub fn search_c02(seed: u64, ctx: &mut Ctx) -> Option<J> {
    let mut rng = Rng::new(seed);
    // exhaustive: every digraph of order <= 3 (and 4), every representation
    for order in 1..=4usize {
        let np = order * (order - 1);
        for mask in 0..(1u64 << np) {
            for repr in ALL_REPRS {
                // AdjacencyList::degree_sequence spawns a thread per vertex:
                // at order 4 that representation sees every fourth digraph
                if order == 4 && repr == "AdjacencyList" && mask % 4 != seed % 4 {
                    continue;
                }
                let mut g = g_from_mask(order, mask);
                reweigh(&mut rng, &mut g, repr);
                let walks = random_walks(&mut rng, &g);
                let c = C02 {
                    repr: repr.to_string(),
                    g,
                    walks,
                };
                if let Some(f) = ctx.eval(&c) {
                    return Some(f);
                }
            }
            if order == 4 && ctx.expired() {
                return None;
            }
        }
    }
    // AdjacencyMap with small gapped vertex sets: every arc subset
    for ids in [[0usize, 2, 5], [0, 1, 10], [0, 63, 64]] {
        for mask in 0..64u64 {
            let mut g = G {
                verts: ids.iter().copied().collect(),
                arcs: Default::default(),
            };
            let mut i = 0;
            for &u in &ids {
                for &v in &ids {
                    if u != v {
                        if mask >> i & 1 == 1 {
                            let _ = g.arcs.insert((u, v), 1);
                        }
                        i += 1;
                    }
                }
            }
            let walks = random_walks(&mut rng, &g);
            let c = C02 {
                repr: "AdjacencyMap".to_string(),
                g,
                walks,
            };
            if let Some(f) = ctx.eval(&c) {
                return Some(f);
            }
        }
    }
    // bit 63 of a 64-bit block of the bit matrix is the ONLY set bit of that
    // block (order 9: arc (7, 0) alone; order 64: arc (0, 63) alone): arcs(),
    // size(), in_neighbors and every other query, every representation
    for order in [9usize, 11, 64, 65] {
        let cells = bit63_arcs(order);
        let mut inputs: Vec<Vec<(usize, usize)>> = cells.iter().map(|&a| vec![a]).collect();
        inputs.truncate(4);
        inputs.push(vec![*cells.last().unwrap()]);
        inputs.push(cells.clone());
        for arcs in inputs {
            for repr in ALL_REPRS {
                let mut g = G::new(order);
                for &(u, v) in &arcs {
                    let _ = g.arcs.insert((u, v), 1);
                }
                reweigh(&mut rng, &mut g, repr);
                let walks = random_walks(&mut rng, &g);
                let c = C02 {
                    repr: repr.to_string(),
                    g,
                    walks,
                };
                if let Some(f) = ctx.eval(&c) {
                    return Some(f);
                }
            }
        }
    }
    // orders around the 64-bit blocks of the bit matrix, every representation
    // (has_arc / has_edge / remove_arc are probed with the tail in range and
    // the head at order, order + 1, a far-out id and usize::MAX)
    for round in 0..4 {
        for order in [8usize, 9, 11, 63, 64, 65] {
            for repr in ALL_REPRS {
                let mut g = match round {
                    0 => structured("circuit", order, &[]),
                    1 => make_model("complete", order),
                    _ => random_g(&mut rng, order, &[]),
                };
                reweigh(&mut rng, &mut g, repr);
                let walks = random_walks(&mut rng, &g);
                let c = C02 {
                    repr: repr.to_string(),
                    g,
                    walks,
                };
                if let Some(f) = ctx.eval(&c) {
                    return Some(f);
                }
            }
        }
        if ctx.expired() {
            return None;
        }
    }
    // orders above the worker-thread count (AdjacencyList::degree_sequence
    // chunks its rows by available_parallelism()): the degree / indegree /
    // outdegree / semidegree sequences and every other query, every
    // representation
    for order in THREAD_ORDERS {
        for shape in ["path", "cycle", "star", "random", "complete"] {
            for repr in ALL_REPRS {
                let mut g = match shape {
                    "random" => random_g(&mut rng, order, &[]),
                    "complete" => make_model("complete", order),
                    k => structured(k, order, &[]),
                };
                reweigh(&mut rng, &mut g, repr);
                let walks = random_walks(&mut rng, &g);
                let c = C02 {
                    repr: repr.to_string(),
                    g,
                    walks,
                };
                if let Some(f) = ctx.eval(&c) {
                    return Some(f);
                }
            }
        }
        if ctx.expired() {
            return None;
        }
    }
    // seeded random up to order 6, and non-contiguous AdjacencyMap digraphs
    for i in 0..6000 {
        for repr in ALL_REPRS {
            if repr == "AdjacencyList" && i % 4 != 0 {
                continue;
            }
            let order = 4 + rng.below(3);
            let mut g = random_g(&mut rng, order, &[]);
            reweigh(&mut rng, &mut g, repr);
            let walks = random_walks(&mut rng, &g);
            let c = C02 {
                repr: repr.to_string(),
                g,
                walks,
            };
            if let Some(f) = ctx.eval(&c) {
                return Some(f);
            }
        }
        let g = random_noncontiguous_g(&mut rng, &[]);
        let walks = random_walks(&mut rng, &g);
        let c = C02 {
            repr: "AdjacencyMap".to_string(),
            g,
            walks,
        };
        if let Some(f) = ctx.eval(&c) {
            return Some(f);
        }
        if i % 64 == 0 && ctx.expired() {
            return None;
        }
    }
    None
}

/// shared by every replay that takes one representation and one digraph
pub fn repr_and_g(j: &J) -> Result<(String, G), String> {
    let repr = j.req("repr")?.str()?.to_string();
    known_repr(&repr)?;
    let g = G::from_json(j)?;
    if g.order() == 0 || !g.verts.contains(&0) {
        return Err("the vertex set must contain 0".into());
    }
    if !g.contiguous() && repr != "AdjacencyMap" {
        return Err("only AdjacencyMap can hold a non-contiguous vertex set".into());
    }
    if repr.ends_with("<usize>") {
        // checked on the json text: the model stores usize weights above
        // i64::MAX as their bit pattern
        for a in j.req("arcs")?.arr()? {
            if let Some(w) = a.arr()?.get(2) {
                if w.i128()? < 0 {
                    return Err("negative weight for a usize-weighted digraph".into());
                }
            }
        }
    }
    Ok((repr, g))
}

pub fn replay_c02(j: &J) -> Result<Option<J>, String> {
    let (repr, g) = repr_and_g(j)?;
    let walks = match j.get("walks") {
        Some(w) => w
            .arr()?
            .iter()
            .map(J::usizes)
            .collect::<Result<Vec<_>, _>>()?,
        None => vec![],
    };
    Ok(crate::eval_case(&C02 { repr, g, walks }))
}
