//! C17: the operations that split their work over worker threads, against
//! their single-threaded (set) definitions, at input sizes that straddle
//! every thread count 1..16 and its multiples; and the seeded AdjacencyMap
//! generators (valid, and equal when called twice in one process). The driver
//! runs this mode under several CPU affinities, so available_parallelism()
//! takes different values; the detected value is part of every report.

use {
    crate::{
        c_gen::C15,
        c_ops::{
            m_complement,
            m_union,
        },
        json::J,
        model::*,
        Case,
        Ctx,
    },
    graaf::*,
};

pub fn threads() -> usize {
    std::thread::available_parallelism().map_or(1, std::num::NonZero::get)
}

pub enum C17 {
    /// AdjacencyList::{complement, degree_sequence, is_semicomplete}
    ListOp { op: &'static str, g: G },
    /// AdjacencyList::complete(order)
    Complete { order: usize },
    /// AdjacencyList::union / AdjacencyMap::union
    Union { repr: &'static str, g: G, h: G },
    /// AdjacencyMap::{random_tournament, erdos_renyi, random_recursive_tree}
    Gen {
        gen: &'static str,
        order: usize,
        seed: u64,
        p: String,
    },
}

fn compare<D: Dg>(d: &D, g: &G, what: &str) -> R {
    if g.order() <= 70 {
        same_probed(d, g, what)
    } else if g.order() <= 400 {
        same_sampled(d, g, what)
    } else {
        same(d, g, what)
    }
}

fn run_union<D: Dgu>(g: &G, h: &G) -> R {
    let (d, e) = (D::build(g), D::build(h));
    let (d0, e0) = (d.clone(), e.clone());
    at("Union::union");
    let mu = m_union(g, h);
    let u = d.union(&e);
    compare(&u, &mu, &format!("{}::union ({} worker threads available): vertex set V(D) U V(E), arc set A(D) U A(E)", D::NAME, threads()))?;
    let u2 = e.union(&d);
    compare(&u2, &mu, &format!("{}::union with the operands swapped", D::NAME))?;
    ensure!("D.union(E) == E.union(D)", u == u2, format!("{u:?} != {u2:?}"));
    ensure!("union leaves both operands unchanged", d == d0 && e == e0, format!("{d:?} / {e:?}"));
    Ok(())
}

impl Case for C17 {
    fn prop(&self) -> &'static str {
        "C17"
    }

    fn run(&self) -> R {
        let t = threads();
        match self {
            C17::ListOp { op, g } => {
                let d = AdjacencyList::build(g);
                let before = d.clone();
                let n = g.order();
                match *op {
                    "complement" => {
                        at("AdjacencyList::complement");
                        let c = d.complement();
                        compare(&c, &m_complement(g), &format!("AdjacencyList::complement ({t} worker threads available): u->v exactly when u != v and u->v is not in A"))?;
                    }
                    "degree_sequence" => {
                        at("AdjacencyList::degree_sequence");
                        let exp: Vec<usize> = (0..n).map(|v| g.inn(v).len() + g.out(v).len()).collect();
                        ensure_eq!(
                            format!("AdjacencyList::degree_sequence ({t} worker threads available) is indegree + outdegree in vertex order"),
                            exp,
                            d.degree_sequence().take(n + 8).collect::<Vec<_>>()
                        );
                    }
                    _ => {
                        at("AdjacencyList::is_semicomplete");
                        let exp = (0..n).all(|u| (u + 1..n).all(|v| g.has(u, v) || g.has(v, u)));
                        ensure_eq!(
                            format!("AdjacencyList::is_semicomplete ({t} worker threads available) iff every unordered pair is joined by at least one arc"),
                            exp,
                            d.is_semicomplete()
                        );
                    }
                }
                ensure!("the operand is unchanged", d == before, format!("{d:?}"));
                Ok(())
            }
            C17::Complete { order } => {
                at("AdjacencyList::complete");
                let d = AdjacencyList::complete(*order);
                compare(
                    &d,
                    &make_model("complete", *order),
                    &format!("AdjacencyList::complete({order}) ({t} worker threads available) has all n(n-1) arcs"),
                )
            }
            C17::Union { repr, g, h } => {
                if *repr == "AdjacencyList" {
                    run_union::<AdjacencyList>(g, h)
                } else {
                    run_union::<AdjacencyMap>(g, h)
                }
            }
            C17::Gen { gen, order, seed, p } => C15 {
                gen: (*gen).to_string(),
                repr: "AdjacencyMap".to_string(),
                order: *order,
                seed: *seed,
                p: p.clone(),
            }
            .run(),
        }
    }

    fn fields(&self) -> Vec<(String, J)> {
        let mut f = vec![("threads".to_string(), J::u(threads()))];
        match self {
            C17::ListOp { op, g } => {
                f.push(("kind".into(), J::s("list_op")));
                f.push(("repr".into(), J::s("AdjacencyList")));
                f.push(("operation".into(), J::s(op)));
                f.extend(g.fields(false));
            }
            C17::Complete { order } => {
                f.push(("kind".into(), J::s("complete")));
                f.push(("repr".into(), J::s("AdjacencyList")));
                f.push(("order".into(), J::u(*order)));
            }
            C17::Union { repr, g, h } => {
                f.push(("kind".into(), J::s("union")));
                f.push(("repr".into(), J::s(repr)));
                f.extend(g.fields(false));
                f.push(("other".into(), h.json(false)));
            }
            C17::Gen { gen, order, seed, p } => {
                f.push(("kind".into(), J::s("generator")));
                f.push(("repr".into(), J::s("AdjacencyMap")));
                f.push(("generator".into(), J::s(gen)));
                f.push(("order".into(), J::u(*order)));
                f.push(("seed".into(), J::n(*seed)));
                if *gen == "erdos_renyi" {
                    f.push(("p".into(), J::s(p)));
                }
            }
        }
        f
    }
}

/// below, equal to, just above and far above every thread count 1, 2, 3, 5,
/// 8, 11, 16 and their multiples
pub const C17_ORDERS: [usize; 31] = [
    1, 2, 3, 4, 5, 6, 7, 8, 9, 10, 11, 12, 15, 16, 17, 18, 19, 23, 31, 32, 33, 35, 47, 48, 49, 50, 64, 65,
    67, 100, 130,
];

fn shapes(rng: &mut Rng, n: usize) -> Vec<(&'static str, G)> {
    let complete = make_model("complete", n);
    let mut out = vec![("empty", G::new(n)), ("complete", complete.clone())];
    if n >= 2 {
        let mut pairs_to_drop = vec![(0, 1), (n - 2, n - 1)];
        if n >= 4 {
            pairs_to_drop.push((n / 2 - 1, n / 2));
        }
        for (u, v) in pairs_to_drop {
            let mut g = complete.clone();
            let _ = g.arcs.remove(&(u, v));
            let _ = g.arcs.remove(&(v, u));
            out.push(("complete minus one pair", g));
        }
    }
    out.push(("tournament", tournament(n, 3)));
    if n >= 2 {
        // a tournament minus the arc between the last two vertices
        let mut g = tournament(n, 0);
        let _ = g.arcs.remove(&(n - 2, n - 1));
        out.push(("tournament minus the last pair", g));
    }
    out.push(("path", structured("path", n, &[])));
    out.push(("cycle", structured("cycle", n, &[])));
    out.push(("star", structured("star", n, &[])));
    out.push(("random", random_g(rng, n, &[])));
    out
}

pub fn search_c17(seed: u64, ctx: &mut Ctx) -> Option<J> {
    let mut rng = Rng::new(seed);
    for (i, &n) in C17_ORDERS.iter().enumerate() {
        if let Some(f) = ctx.eval(&C17::Complete { order: n }) {
            return Some(f);
        }
        let sh = shapes(&mut rng, n);
        for (_, g) in &sh {
            for op in ["complement", "degree_sequence", "is_semicomplete"] {
                if let Some(f) = ctx.eval(&C17::ListOp { op, g: g.clone() }) {
                    return Some(f);
                }
            }
        }
        // union: equal orders, a neighbouring order, a far order
        let near = C17_ORDERS[(i + 1) % C17_ORDERS.len()];
        let far = C17_ORDERS[(i + 11) % C17_ORDERS.len()];
        let pick = |k: usize| sh[k % sh.len()].1.clone();
        let pairs_: Vec<(G, G)> = vec![
            (pick(sh.len() - 1), pick(sh.len() - 2)),
            (pick(sh.len() - 4), pick(sh.len() - 1)),
            (pick(0), pick(1)),
            (pick(sh.len() - 1), random_g(&mut rng, near, &[])),
            (random_g(&mut rng, far, &[]), pick(sh.len() - 3)),
            (pick(sh.len() - 1), structured("path", far, &[])),
        ];
        for (g, h) in pairs_ {
            for repr in ["AdjacencyList", "AdjacencyMap"] {
                if let Some(f) = ctx.eval(&C17::Union {
                    repr,
                    g: g.clone(),
                    h: h.clone(),
                }) {
                    return Some(f);
                }
            }
        }
        // the seeded AdjacencyMap generators
        for s in [seed, seed.wrapping_mul(0x9E37_79B9).wrapping_add(n as u64)] {
            for (gen, p) in [
                ("random_tournament", ""),
                ("random_recursive_tree", ""),
                ("erdos_renyi", "0"),
                ("erdos_renyi", "0.25"),
                ("erdos_renyi", "0.5"),
                ("erdos_renyi", "0.9"),
                ("erdos_renyi", "1"),
            ] {
                if let Some(f) = ctx.eval(&C17::Gen {
                    gen,
                    order: n,
                    seed: s,
                    p: p.to_string(),
                }) {
                    return Some(f);
                }
            }
        }
        if ctx.expired() {
            return None;
        }
    }
    // one operand much larger than the other
    for big in [1000usize, 4096] {
        for small in [1usize, 2, 3, 5, 16, 17, 33] {
            let s = random_g(&mut rng, small, &[]);
            let variants: Vec<(G, G)> = vec![
                (s.clone(), G::new(big)),
                (G::new(big), s.clone()),
                (s.clone(), structured("path", big, &[])),
            ];
            for (g, h) in variants {
                for repr in ["AdjacencyList", "AdjacencyMap"] {
                    if let Some(f) = ctx.eval(&C17::Union {
                        repr,
                        g: g.clone(),
                        h: h.clone(),
                    }) {
                        return Some(f);
                    }
                }
            }
        }
        if ctx.expired() {
            return None;
        }
    }
    None
}

fn contiguous_g(j: &J) -> Result<G, String> {
    let mut g = G::from_json(j)?;
    if g.order() == 0 || !g.contiguous() || g.order() > 10_000 {
        return Err("C17 digraphs have vertex set 0..order, 1 <= order <= 10000".into());
    }
    for w in g.arcs.values_mut() {
        *w = 1;
    }
    Ok(g)
}

pub fn replay_c17(j: &J) -> Result<Option<J>, String> {
    let c = match j.req("kind")?.str()? {
        "list_op" => {
            let op: &'static str = match j.req("operation")?.str()? {
                "complement" => "complement",
                "degree_sequence" => "degree_sequence",
                "is_semicomplete" => "is_semicomplete",
                o => return Err(format!("unknown operation {o}")),
            };
            C17::ListOp {
                op,
                g: contiguous_g(j)?,
            }
        }
        "complete" => {
            let order = j.req("order")?.usize()?;
            if order == 0 || order > 2000 {
                return Err("order must be in 1..=2000".into());
            }
            C17::Complete { order }
        }
        "union" => {
            let repr: &'static str = match j.req("repr")?.str()? {
                "AdjacencyList" => "AdjacencyList",
                "AdjacencyMap" => "AdjacencyMap",
                o => return Err(format!("C17 union is about AdjacencyList / AdjacencyMap, not {o}")),
            };
            C17::Union {
                repr,
                g: contiguous_g(j)?,
                h: contiguous_g(j.req("other")?)?,
            }
        }
        "generator" => {
            let gen: &'static str = match j.req("generator")?.str()? {
                "random_tournament" => "random_tournament",
                "random_recursive_tree" => "random_recursive_tree",
                "erdos_renyi" => "erdos_renyi",
                o => return Err(format!("unknown generator {o}")),
            };
            let order = j.req("order")?.usize()?;
            if order == 0 || order > 2000 {
                return Err("order must be in 1..=2000".into());
            }
            let seed = j.req("seed")?.i128()?;
            if !(0..=u64::MAX as i128).contains(&seed) {
                return Err("seed must be a u64".into());
            }
            let p = match j.get("p") {
                Some(p) => p.str()?.to_string(),
                None => String::new(),
            };
            if gen == "erdos_renyi" && p.parse::<f64>().is_err() {
                return Err("p must be a string holding a float".into());
            }
            C17::Gen {
                gen,
                order,
                seed: seed as u64,
                p,
            }
        }
        o => return Err(format!("unknown kind {o}")),
    };
    Ok(crate::eval_case(&c))
}
