//! Minimal JSON value, writer and parser (no external crates available offline).

#[derive(Clone, Debug, PartialEq)]
pub enum J {
    Null,
    Bool(bool),
    Num(i128),
    Str(String),
    Arr(Vec<J>),
    Obj(Vec<(String, J)>),
}

impl J {
    pub fn get(&self, k: &str) -> Option<&J> {
        match self {
            J::Obj(m) => m.iter().find(|(n, _)| n == k).map(|(_, v)| v),
            _ => None,
        }
    }

    pub fn req(&self, k: &str) -> Result<&J, String> {
        self.get(k).ok_or_else(|| format!("missing field {k:?}"))
    }

    pub fn usize(&self) -> Result<usize, String> {
        match self {
            J::Num(n) if *n >= 0 && *n <= usize::MAX as i128 => Ok(*n as usize),
            _ => Err(format!("expected unsigned number, got {self}")),
        }
    }

    pub fn i64(&self) -> Result<i64, String> {
        match self {
            J::Num(n) if *n >= i64::MIN as i128 && *n <= i64::MAX as i128 => {
                Ok(*n as i64)
            }
            _ => Err(format!("expected number, got {self}")),
        }
    }

    pub fn i128(&self) -> Result<i128, String> {
        match self {
            J::Num(n) => Ok(*n),
            _ => Err(format!("expected number, got {self}")),
        }
    }

    pub fn str(&self) -> Result<&str, String> {
        match self {
            J::Str(s) => Ok(s),
            _ => Err(format!("expected string, got {self}")),
        }
    }

    pub fn arr(&self) -> Result<&[J], String> {
        match self {
            J::Arr(a) => Ok(a),
            _ => Err(format!("expected array, got {self}")),
        }
    }

    pub fn usizes(&self) -> Result<Vec<usize>, String> {
        self.arr()?.iter().map(J::usize).collect()
    }

    pub fn s(x: &str) -> J {
        J::Str(x.to_string())
    }

    pub fn n<T: Into<i128>>(x: T) -> J {
        J::Num(x.into())
    }

    pub fn u(x: usize) -> J {
        J::Num(x as i128)
    }

    pub fn us(x: &[usize]) -> J {
        J::Arr(x.iter().map(|&v| J::u(v)).collect())
    }
}

impl std::fmt::Display for J {
    fn fmt(&self, f: &mut std::fmt::Formatter<'_>) -> std::fmt::Result {
        match self {
            J::Null => write!(f, "null"),
            J::Bool(b) => write!(f, "{b}"),
            J::Num(n) => write!(f, "{n}"),
            J::Str(s) => {
                write!(f, "\"")?;
                for c in s.chars() {
                    match c {
                        '"' => write!(f, "\\\"")?,
                        '\\' => write!(f, "\\\\")?,
                        '\n' => write!(f, "\\n")?,
                        '\r' => write!(f, "\\r")?,
                        '\t' => write!(f, "\\t")?,
                        c if (c as u32) < 0x20 => write!(f, "\\u{:04x}", c as u32)?,
                        c => write!(f, "{c}")?,
                    }
                }
                write!(f, "\"")
            }
            J::Arr(a) => {
                write!(f, "[")?;
                for (i, v) in a.iter().enumerate() {
                    if i > 0 {
                        write!(f, ",")?;
                    }
                    write!(f, "{v}")?;
                }
                write!(f, "]")
            }
            J::Obj(m) => {
                write!(f, "{{")?;
                for (i, (k, v)) in m.iter().enumerate() {
                    if i > 0 {
                        write!(f, ",")?;
                    }
                    write!(f, "{}:{}", J::Str(k.clone()), v)?;
                }
                write!(f, "}}")
            }
        }
    }
}

struct P<'a> {
    s: &'a [u8],
    i: usize,
}

impl P<'_> {
    fn ws(&mut self) {
        while self.i < self.s.len() && (self.s[self.i] as char).is_ascii_whitespace() {
            self.i += 1;
        }
    }

    fn eat(&mut self, c: u8) -> Result<(), String> {
        self.ws();
        if self.i < self.s.len() && self.s[self.i] == c {
            self.i += 1;
            Ok(())
        } else {
            Err(format!("expected {:?} at byte {}", c as char, self.i))
        }
    }

    fn peek(&mut self) -> Option<u8> {
        self.ws();
        self.s.get(self.i).copied()
    }

    fn lit(&mut self, w: &str, v: J) -> Result<J, String> {
        if self.s[self.i..].starts_with(w.as_bytes()) {
            self.i += w.len();
            Ok(v)
        } else {
            Err(format!("bad literal at byte {}", self.i))
        }
    }

    fn value(&mut self) -> Result<J, String> {
        match self.peek().ok_or("unexpected end")? {
            b'n' => self.lit("null", J::Null),
            b't' => self.lit("true", J::Bool(true)),
            b'f' => self.lit("false", J::Bool(false)),
            b'"' => Ok(J::Str(self.string()?)),
            b'[' => {
                self.i += 1;
                let mut a = Vec::new();
                if self.peek() == Some(b']') {
                    self.i += 1;
                    return Ok(J::Arr(a));
                }
                loop {
                    a.push(self.value()?);
                    match self.peek() {
                        Some(b',') => self.i += 1,
                        Some(b']') => {
                            self.i += 1;
                            return Ok(J::Arr(a));
                        }
                        _ => return Err(format!("bad array at byte {}", self.i)),
                    }
                }
            }
            b'{' => {
                self.i += 1;
                let mut m = Vec::new();
                if self.peek() == Some(b'}') {
                    self.i += 1;
                    return Ok(J::Obj(m));
                }
                loop {
                    self.ws();
                    let k = self.string()?;
                    self.eat(b':')?;
                    let v = self.value()?;
                    m.push((k, v));
                    match self.peek() {
                        Some(b',') => self.i += 1,
                        Some(b'}') => {
                            self.i += 1;
                            return Ok(J::Obj(m));
                        }
                        _ => return Err(format!("bad object at byte {}", self.i)),
                    }
                }
            }
            _ => {
                let st = self.i;
                while self.i < self.s.len()
                    && (self.s[self.i] == b'-'
                        || self.s[self.i] == b'+'
                        || self.s[self.i].is_ascii_digit())
                {
                    self.i += 1;
                }
                let t = std::str::from_utf8(&self.s[st..self.i]).unwrap();
                t.parse::<i128>()
                    .map(J::Num)
                    .map_err(|_| format!("bad number {t:?} at byte {st}"))
            }
        }
    }

    fn string(&mut self) -> Result<String, String> {
        self.eat(b'"')?;
        let mut out = Vec::new();
        loop {
            let c = *self.s.get(self.i).ok_or("unterminated string")?;
            self.i += 1;
            match c {
                b'"' => break,
                b'\\' => {
                    let e = *self.s.get(self.i).ok_or("unterminated escape")?;
                    self.i += 1;
                    match e {
                        b'n' => out.push(b'\n'),
                        b'r' => out.push(b'\r'),
                        b't' => out.push(b'\t'),
                        b'u' => {
                            let h = std::str::from_utf8(
                                self.s.get(self.i..self.i + 4).ok_or("bad \\u")?,
                            )
                            .map_err(|e| e.to_string())?;
                            let cp = u32::from_str_radix(h, 16).map_err(|e| e.to_string())?;
                            self.i += 4;
                            let ch = char::from_u32(cp).unwrap_or('?');
                            let mut b = [0u8; 4];
                            out.extend_from_slice(ch.encode_utf8(&mut b).as_bytes());
                        }
                        other => out.push(other),
                    }
                }
                c => out.push(c),
            }
        }
        String::from_utf8(out).map_err(|e| e.to_string())
    }
}

pub fn parse(s: &str) -> Result<J, String> {
    let mut p = P {
        s: s.as_bytes(),
        i: 0,
    };
    let v = p.value()?;
    p.ws();
    if p.i != p.s.len() {
        return Err(format!("trailing characters at byte {}", p.i));
    }
    Ok(v)
}
