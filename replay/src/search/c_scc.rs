//! C09 (Tarjan: strongly connected components against brute-force mutual
//! reachability) and C10 (Johnson75: every elementary circuit exactly once,
//! against a brute-force enumeration).

use {
    crate::{
        json::J,
        model::*,
        Case,
        Ctx,
    },
    graaf::*,
    std::collections::{
        BTreeMap,
        BTreeSet,
    },
};

// ------------------------------------------------------------------ C09 ----

pub struct C09 {
    pub repr: String,
    pub g: G,
}

/// the partition of V into classes of mutual reachability, by brute force:
/// reach(u) is computed with a plain worklist over the arc set for every u
fn mutual_reachability_classes(g: &G) -> BTreeSet<BTreeSet<usize>> {
    let vs = g.vlist();
    let idx: BTreeMap<usize, usize> = vs.iter().enumerate().map(|(i, &v)| (v, i)).collect();
    let n = vs.len();
    let succ: Vec<Vec<usize>> = vs
        .iter()
        .map(|&u| g.out(u).iter().map(|x| idx[x]).collect())
        .collect();
    let mut reach = vec![vec![false; n]; n];
    for s in 0..n {
        let mut work = vec![s];
        reach[s][s] = true;
        while let Some(u) = work.pop() {
            for &x in &succ[u] {
                if !reach[s][x] {
                    reach[s][x] = true;
                    work.push(x);
                }
            }
        }
    }
    let mut classes = BTreeSet::new();
    for u in 0..n {
        let c: BTreeSet<usize> = (0..n)
            .filter(|&v| reach[u][v] && reach[v][u])
            .map(|v| vs[v])
            .collect();
        let _ = classes.insert(c);
    }
    classes
}

fn check_components(g: &G, comps: &[BTreeSet<usize>]) -> R {
    ensure!(
        "every returned component is non-empty",
        comps.iter().all(|c| !c.is_empty()),
        format!("{comps:?}")
    );
    let mut seen = BTreeSet::new();
    for c in comps {
        for &v in c {
            ensure!(
                "the returned components are pairwise disjoint",
                seen.insert(v),
                format!("{v} occurs twice in {comps:?}")
            );
        }
    }
    ensure_eq!(
        format!("the returned components cover exactly the vertex set; components {comps:?}"),
        g.verts.clone(),
        seen
    );
    let got: BTreeSet<BTreeSet<usize>> = comps.iter().cloned().collect();
    ensure_eq!(
        "two vertices share a component exactly when each is reachable from the other (expected = classes of mutual reachability)",
        mutual_reachability_classes(g),
        got
    );
    Ok(())
}

fn run_c09<D: Dg>(c: &C09) -> R {
    let d = D::build(&c.g);
    let before = d.clone();
    at("Tarjan::components");
    let comps = Tarjan::new(&d).components().clone();
    check_components(&c.g, &comps)?;
    ensure!("components() leaves the digraph unchanged", d == before, format!("{d:?}"));
    Ok(())
}

/// An AdjacencyMap whose vertex set does not contain 0 (e.g. {1, 7, 64}):
/// built with an extra isolated vertex 0 that filter_vertices removes again.
fn run_c09_map_without_zero(c: &C09) -> R {
    let mut g0 = c.g.clone();
    let _ = g0.verts.insert(0);
    at("constructor");
    let d = AdjacencyMap::build(&g0).filter_vertices(|v| v != 0);
    same(&d, &c.g, "AdjacencyMap built through filter_vertices")?;
    at("Tarjan::components");
    let comps = Tarjan::new(&d).components().clone();
    check_components(&c.g, &comps)
}

impl Case for C09 {
    fn prop(&self) -> &'static str {
        "C09"
    }

    fn run(&self) -> R {
        if self.repr == "AdjacencyMap" && !self.g.verts.contains(&0) {
            run_c09_map_without_zero(self)
        } else {
            with_repr!(self.repr.as_str(), run_c09(self))
        }
    }

    fn fields(&self) -> Vec<(String, J)> {
        let mut f = vec![("repr".into(), J::s(&self.repr))];
        f.extend(self.g.fields(false));
        f
    }
}

/// two circuits 0..a-1 and a..n-1 joined by the single arc a-1 -> a
fn two_cycles_joined(n: usize) -> G {
    let a = n / 2;
    let mut g = G::new(n);
    for i in 0..a {
        let _ = g.arcs.insert((i, (i + 1) % a), 1);
    }
    for i in a..n {
        let _ = g.arcs.insert((i, if i + 1 == n { a } else { i + 1 }), 1);
    }
    let _ = g.arcs.insert((a - 1, a), 1);
    g.arcs.retain(|&(u, v), _| u != v);
    g
}

/// a circuit on 0..n/2-1 with a tail leading into it and a tail leading out
fn cycle_with_tail(n: usize) -> G {
    let a = (n / 2).max(2);
    let mut g = G::new(n);
    for i in 0..a {
        let _ = g.arcs.insert((i, (i + 1) % a), 1);
    }
    // tail out of the cycle: a-1 -> a -> a+1 ...; last tail vertex leads nowhere
    for i in a..n {
        let _ = g.arcs.insert((i - 1, i), 1);
    }
    g.arcs.retain(|&(u, v), _| u != v);
    g
}

fn relabel(g: &G, ids: &[usize]) -> G {
    G {
        verts: ids.iter().copied().collect(),
        arcs: g
            .arcs
            .iter()
            .map(|(&(u, v), &w)| ((ids[u], ids[v]), w))
            .collect(),
    }
}

pub fn search_c09(seed: u64, ctx: &mut Ctx) -> Option<J> {
    let mut rng = Rng::new(seed);
    let mk = |repr: &str, g: G| C09 {
        repr: repr.to_string(),
        g,
    };
    // every digraph of order <= 4, every representation
    for order in 1..=4usize {
        for mask in 0..(1u64 << (order * (order - 1))) {
            let g = g_from_mask(order, mask);
            for repr in ALL_REPRS {
                if let Some(f) = ctx.eval(&mk(repr, g.clone())) {
                    return Some(f);
                }
            }
            // AdjacencyMap with non-contiguous ids: the same digraphs relabelled
            if order == 3 {
                for ids in [[0usize, 2, 5], [1, 7, 64], [0, 63, 64], [3, 4, 1_000_003]] {
                    if let Some(f) = ctx.eval(&mk("AdjacencyMap", relabel(&g, &ids))) {
                        return Some(f);
                    }
                }
            }
            if order == 4 && mask % 8 == seed % 8 {
                for ids in [[0usize, 2, 5, 9], [1, 7, 64, 65], [2, 31, 32, 33]] {
                    if let Some(f) = ctx.eval(&mk("AdjacencyMap", relabel(&g, &ids))) {
                        return Some(f);
                    }
                }
            }
        }
        if ctx.expired() {
            return None;
        }
    }
    // structured, deep recursion: long paths / circuits / cycles, two cycles
    // joined by one arc, a cycle with a tail, the complete digraph
    for n in [5usize, 33, 64, 65, 130] {
        let shapes: Vec<G> = vec![
            structured("path", n, &[]),
            structured("revpath", n, &[]),
            structured("circuit", n, &[]),
            structured("cycle", n, &[]),
            two_cycles_joined(n),
            cycle_with_tail(n),
            make_model("complete", n),
            structured("star", n, &[]),
            structured("bintree", n, &[]),
        ];
        for g in shapes {
            for repr in ALL_REPRS {
                if let Some(f) = ctx.eval(&mk(repr, g.clone())) {
                    return Some(f);
                }
            }
            // the same shape on spread-out ids (AdjacencyMap only)
            let ids: Vec<usize> = (0..n).map(|i| 1 + 3 * i + (i / 7) * 50).collect();
            if let Some(f) = ctx.eval(&mk("AdjacencyMap", relabel(&g, &ids))) {
                return Some(f);
            }
        }
        if ctx.expired() {
            return None;
        }
    }
    // seeded random up to order 8, and random non-contiguous AdjacencyMaps
    for i in 0..12_000usize {
        let order = 5 + rng.below(4);
        // sparse digraphs have the interesting component structure
        let m = rng.below(2 * order + 1);
        let g = random_g_m(&mut rng, order, m.min(order * (order - 1)), &[1]);
        for repr in ALL_REPRS {
            if let Some(f) = ctx.eval(&mk(repr, g.clone())) {
                return Some(f);
            }
        }
        let mut ids: Vec<usize> = Vec::new();
        while ids.len() < order {
            let x = match rng.below(3) {
                0 => rng.below(12),
                1 => 60 + rng.below(10),
                _ => rng.below(200),
            };
            if !ids.contains(&x) {
                ids.push(x);
            }
        }
        if let Some(f) = ctx.eval(&mk("AdjacencyMap", relabel(&g, &ids))) {
            return Some(f);
        }
        if i % 128 == 0 && ctx.expired() {
            return None;
        }
    }
    None
}

pub fn replay_c09(j: &J) -> Result<Option<J>, String> {
    let repr = j.req("repr")?.str()?.to_string();
    known_repr(&repr)?;
    let mut g = G::from_json(j)?;
    if g.order() == 0 || g.order() > 1000 {
        return Err("order must be in 1..=1000 (Tarjan recurses once per vertex)".into());
    }
    if !g.contiguous() && repr != "AdjacencyMap" {
        return Err("only AdjacencyMap can hold a non-contiguous vertex set".into());
    }
    // weights play no role
    for w in g.arcs.values_mut() {
        *w = 1;
    }
    Ok(crate::eval_case(&C09 { repr, g }))
}

// ------------------------------------------------------------------ C10 ----

pub struct C10 {
    pub g: G,
}

/// Every elementary circuit, written from its smallest vertex: depth-first
/// over simple paths that start at s and only use vertices larger than s;
/// an arc back to s closes a circuit. None when more than `budget` steps are
/// needed.
fn brute_force_circuits(g: &G, mut budget: u64) -> Option<Vec<Vec<usize>>> {
    fn go(
        g: &G,
        s: usize,
        path: &mut Vec<usize>,
        on: &mut Vec<bool>,
        out: &mut Vec<Vec<usize>>,
        budget: &mut u64,
    ) -> bool {
        let v = *path.last().unwrap();
        for x in g.out(v) {
            if *budget == 0 {
                return false;
            }
            *budget -= 1;
            if x == s {
                if path.len() >= 2 {
                    out.push(path.clone());
                }
            } else if x > s && !on[x] {
                on[x] = true;
                path.push(x);
                let ok = go(g, s, path, on, out, budget);
                let _ = path.pop();
                on[x] = false;
                if !ok {
                    return false;
                }
            }
        }
        true
    }
    let n = g.order();
    let mut out = Vec::new();
    for s in 0..n {
        let mut on = vec![false; n];
        on[s] = true;
        if !go(g, s, &mut vec![s], &mut on, &mut out, &mut budget) {
            return None;
        }
    }
    Some(out)
}

const C10_BUDGET: u64 = 5_000_000;

fn is_elementary_circuit(g: &G, c: &[usize]) -> bool {
    let distinct: BTreeSet<usize> = c.iter().copied().collect();
    c.len() >= 2
        && distinct.len() == c.len()
        && c.iter().all(|&v| v < g.order())
        && c.windows(2).all(|w| g.has(w[0], w[1]))
        && g.has(c[c.len() - 1], c[0])
}

impl Case for C10 {
    fn prop(&self) -> &'static str {
        "C10"
    }

    fn run(&self) -> R {
        let g = &self.g;
        let d = AdjacencyMap::build(g);
        let before = d.clone();
        at("Johnson75::circuits");
        let got = Johnson75::new(&d).circuits();
        let mut expected = brute_force_circuits(g, C10_BUDGET).expect("budget checked by the caller");
        for c in &got {
            ensure!(
                "every returned sequence is an elementary circuit (length >= 2, distinct vertices, consecutive arcs, closing arc)",
                is_elementary_circuit(g, c),
                format!("{c:?}")
            );
            ensure!(
                "every circuit is written starting at its smallest vertex",
                c[0] == *c.iter().min().unwrap(),
                format!("{c:?}")
            );
        }
        let mut sorted = got.clone();
        sorted.sort();
        for w in sorted.windows(2) {
            ensure!(
                "no elementary circuit is returned twice",
                w[0] != w[1],
                format!("{:?} twice in {got:?}", w[0])
            );
        }
        expected.sort();
        ensure_eq!(
            "circuits() returns each elementary circuit exactly once and nothing else (sorted)",
            expected,
            sorted
        );
        ensure!("circuits() leaves the digraph unchanged", d == before, format!("{d:?}"));
        Ok(())
    }

    fn fields(&self) -> Vec<(String, J)> {
        let mut f = vec![("repr".into(), J::s("AdjacencyMap"))];
        f.extend(self.g.fields(false));
        f
    }
}

pub fn search_c10(seed: u64, ctx: &mut Ctx) -> Option<J> {
    let mut rng = Rng::new(seed);
    // every digraph of order <= 4
    for order in 1..=4usize {
        for mask in 0..(1u64 << (order * (order - 1))) {
            if let Some(f) = ctx.eval(&C10 {
                g: g_from_mask(order, mask),
            }) {
                return Some(f);
            }
        }
        if ctx.expired() {
            return None;
        }
    }
    // structured
    let mut shapes: Vec<G> = Vec::new();
    // two triangles sharing vertex 2, sharing vertex 0, and sharing an arc
    for arcs in [
        vec![(0, 1), (1, 2), (2, 0), (2, 3), (3, 4), (4, 2)],
        vec![(0, 1), (1, 2), (2, 0), (0, 3), (3, 4), (4, 0)],
        vec![(0, 1), (1, 2), (2, 0), (1, 3), (3, 0)],
        // a circuit that is only reachable through a smaller, already finished vertex
        vec![(0, 1), (1, 0), (1, 2), (2, 3), (3, 2), (3, 1)],
    ] {
        let n = arcs.iter().map(|a| a.0.max(a.1) + 1).max().unwrap();
        let mut g = G::new(n);
        for (u, v) in arcs {
            let _ = g.arcs.insert((u, v), 1);
        }
        shapes.push(g);
    }
    for n in 2..=12usize {
        shapes.push(structured("cycle", n, &[]));
        shapes.push(structured("circuit", n, &[]));
        // bidirectional path: n-1 two-cycles
        let mut p = structured("path", n, &[]);
        for (u, v) in p.arc_list() {
            let _ = p.arcs.insert((v, u), 1);
        }
        shapes.push(p);
        shapes.push(two_cycles_joined(n.max(4)));
        shapes.push(cycle_with_tail(n.max(3)));
    }
    for n in 4..=6usize {
        shapes.push(make_model("complete", n));
        shapes.push(tournament(n, 2));
    }
    for n in [33usize, 64, 65, 130] {
        shapes.push(structured("circuit", n, &[]));
        shapes.push(structured("cycle", n, &[]));
        let mut p = structured("path", n, &[]);
        for (u, v) in p.arc_list() {
            let _ = p.arcs.insert((v, u), 1);
        }
        shapes.push(p);
        shapes.push(two_cycles_joined(n));
        shapes.push(structured("star", n, &[]));
    }
    for g in shapes {
        if let Some(f) = ctx.eval(&C10 { g }) {
            return Some(f);
        }
        if ctx.expired() {
            return None;
        }
    }
    // seeded random, orders 5 and 6 (sometimes 7..8, sparse)
    for i in 0..40_000usize {
        let g = if i % 10 == 9 {
            let order = 7 + rng.below(2);
            let m = rng.below(2 * order);
            random_g_m(&mut rng, order, m, &[1])
        } else {
            let order = 5 + rng.below(2);
            random_g(&mut rng, order, &[])
        };
        if let Some(f) = ctx.eval(&C10 { g }) {
            return Some(f);
        }
        if i % 256 == 0 && ctx.expired() {
            return None;
        }
    }
    None
}

pub fn replay_c10(j: &J) -> Result<Option<J>, String> {
    if let Some(r) = j.get("repr") {
        if r.str()? != "AdjacencyMap" {
            return Err("C10 is about AdjacencyMap".into());
        }
    }
    let mut g = G::from_json(j)?;
    if g.order() == 0 || !g.contiguous() || g.order() > 1000 {
        return Err("C10 needs vertex set 0..order with 1 <= order <= 1000".into());
    }
    for w in g.arcs.values_mut() {
        *w = 1;
    }
    if brute_force_circuits(&g, C10_BUDGET).is_none() {
        return Err("too many elementary circuits for the brute-force oracle".into());
    }
    Ok(crate::eval_case(&C10 { g }))
}
