//! C13 (bounded stand-in, safety half): vertex arguments that are NOT vertices
//! of the digraph, for every query that takes a vertex: in-range ids next to
//! the vertex set (order, order + 1), a far-out id and usize::MAX, and ids in
//! the gaps of a non-contiguous AdjacencyMap.
//!
//! The property says such a call "results in the documented panic or the
//! documented neutral answer, never in undefined behaviour". Undefined
//! behaviour cannot be observed directly; what CAN be observed on a concrete
//! input is
//!   * a value that is neither a panic nor the neutral answer (no neighbours,
//!     degree 0, arc absent): the call read something that is not part of the
//!     digraph (for the bit matrix: another cell's bit);
//!   * a changed digraph after read-only calls;
//!   * the process dying (the driver reports the case that was running; the
//!     `c13` profile of this crate compiles graaf with debug assertions, so
//!     std's `unsafe precondition(s) violated` checks abort on an
//!     out-of-bounds `get_unchecked`).

use {
    crate::{
        c_repr::repr_and_g,
        json::J,
        model::*,
        Case,
        Ctx,
    },
    graaf::*,
    std::panic::{
        catch_unwind,
        AssertUnwindSafe,
    },
};

pub struct C13Q {
    pub repr: String,
    pub g: G,
    /// the hostile vertex argument (not in g.verts)
    pub id: usize,
}

/// Ok(v) if the call returned v, None if it panicked (an allowed outcome)
fn outcome<T, F: FnOnce() -> T>(f: F) -> Option<T> {
    catch_unwind(AssertUnwindSafe(f)).ok()
}

fn run_c13q<D: Dg>(c: &C13Q) -> R {
    let g = &c.g;
    let h = c.id;
    at("constructor");
    let d = D::build(g);
    let before = d.clone();
    let lim = g.order() + 8;
    at("OutNeighbors::out_neighbors");
    if let Some(v) = outcome(|| d.out_neighbors(h).take(lim).collect::<Vec<_>>()) {
        ensure_eq!(
            format!("out_neighbors({h}) of an id outside V panics or yields nothing"),
            Vec::<usize>::new(),
            v
        );
    }
    if D::WEIGHTED {
        at("OutNeighborsWeighted::out_neighbors_weighted");
        if let Some(v) = outcome(|| d.weighted_out(h)) {
            ensure_eq!(
                format!("out_neighbors_weighted({h}) of an id outside V panics or yields nothing"),
                Vec::<(usize, i64)>::new(),
                v
            );
        }
    }
    at("InNeighbors::in_neighbors");
    if let Some(v) = outcome(|| d.in_neighbors(h).take(lim).collect::<Vec<_>>()) {
        ensure_eq!(
            format!("in_neighbors({h}) of an id outside V panics or yields nothing"),
            Vec::<usize>::new(),
            v
        );
    }
    at("Indegree::indegree");
    if let Some(v) = outcome(|| d.indegree(h)) {
        ensure_eq!(format!("indegree({h}) of an id outside V panics or is 0"), 0, v);
    }
    at("Outdegree::outdegree");
    if let Some(v) = outcome(|| d.outdegree(h)) {
        ensure_eq!(format!("outdegree({h}) of an id outside V panics or is 0"), 0, v);
    }
    at("Degree::degree");
    if let Some(v) = outcome(|| d.degree(h)) {
        ensure_eq!(format!("degree({h}) of an id outside V panics or is 0"), 0, v);
    }
    // predicates: any answer or a panic is accepted, the call only has to be safe
    at("Outdegree::is_sink");
    let _ = outcome(|| d.is_sink(h));
    at("Indegree::is_source");
    let _ = outcome(|| d.is_source(h));
    at("IsIsolated::is_isolated");
    let _ = outcome(|| d.is_isolated(h));
    at("IsPendant::is_pendant");
    let _ = outcome(|| d.is_pendant(h));
    // total queries (C02: "answer 'absent'"): no panic allowed
    for &v in &g.probes() {
        at("HasArc::has_arc");
        ensure_eq!(format!("has_arc({h}, {v}) with an id outside V is false"), false, d.has_arc(h, v));
        ensure_eq!(format!("has_arc({v}, {h}) with an id outside V is false"), false, d.has_arc(v, h));
        at("HasEdge::has_edge");
        ensure_eq!(format!("has_edge({h}, {v}) with an id outside V is false"), false, d.has_edge(h, v));
        at("ArcWeight::arc_weight");
        ensure_eq!(format!("arc_weight({h}, {v}) with an id outside V is None"), None, d.weight(h, v));
        ensure_eq!(format!("arc_weight({v}, {h}) with an id outside V is None"), None, d.weight(v, h));
        at("HasWalk::has_walk");
        ensure_eq!(format!("has_walk([{h}, {v}]) with an id outside V is false"), false, d.has_walk(&[h, v]));
        ensure_eq!(format!("has_walk([{v}, {h}]) with an id outside V is false"), false, d.has_walk(&[v, h]));
    }
    // entry points that take a vertex: they must panic or return (any value); under the `c13` profile an out-of-bounds
    // unchecked access aborts the process, which the driver reports with this input
    // F3, successor half (known finding, C13): a traversal over a NON-contiguous AdjacencyMap indexes `visited` with
    // successor ids >= order (undefined behaviour, silent heap corruption), and a source id in a gap below `order` passes the
    // constructors' `u < order` check. While SKIP_KNOWN_F3 is true the traversal entry points only see contiguous vertex sets.
    if g.contiguous() || !crate::SKIP_KNOWN_F3 {
    let src = [h];
    let both = [g.vlist()[0], h];
    at("Bfs::new / next");
    let _ = outcome(|| Bfs::new(&d, src.iter().copied()).take(lim).count());
    let _ = outcome(|| Bfs::new(&d, both.iter().copied()).take(lim).count());
    at("BfsDist::new / next");
    let _ = outcome(|| BfsDist::new(&d, src.iter().copied()).take(lim).count());
    at("BfsPred::new / next / shortest_path");
    let _ = outcome(|| BfsPred::new(&d, src.iter().copied()).take(lim).count());
    let _ = outcome(|| BfsPred::new(&d, [g.vlist()[0]].into_iter()).shortest_path(|v| v == h));
    at("Dfs::new / next");
    let _ = outcome(|| Dfs::new(&d, src.iter().copied()).take(lim).count());
    let _ = outcome(|| Dfs::new(&d, both.iter().copied()).take(lim).count());
    at("DfsDist::new / next");
    let _ = outcome(|| DfsDist::new(&d, src.iter().copied()).take(lim).count());
    at("DfsPred::new / next");
    let _ = outcome(|| DfsPred::new(&d, src.iter().copied()).take(lim).count());
    at("PredecessorTree::search");
    let _ = outcome(|| {
        let t = BfsPred::new(&d, [g.vlist()[0]].into_iter()).predecessors();
        let a = t.search(h, g.vlist()[0]);
        let b = t.search(g.vlist()[0], h);
        let _ = outcome(|| t[h]);
        (a, b)
    }).is_some();
    }
    at("queries");
    ensure!(
        "queries with an id outside V never change the digraph",
        d == before,
        format!("{d:?}")
    );
    same(&d, g, "after the queries with an id outside V")?;
    at("RemoveArc::remove_arc");
    let mut m = d.clone();
    for &v in &g.probes() {
        ensure_eq!(format!("remove_arc({h}, {v}) with an id outside V returns false"), false, m.remove_arc(h, v));
        ensure_eq!(format!("remove_arc({v}, {h}) with an id outside V returns false"), false, m.remove_arc(v, h));
    }
    same(&m, g, "after remove_arc with an id outside V")?;
    Ok(())
}

/// the weighted algorithms' entry points with a hostile source
fn run_weighted_entry_points(c: &C13Q) -> R {
    let g = &c.g;
    let h = c.id;
    let lim = g.order() + 8;
    if c.repr == "AdjacencyListWeighted<usize>" {
        let d = graaf::AdjacencyListWeighted::<usize>::build(g);
        at("Dijkstra::new / next");
        let _ = outcome(|| Dijkstra::new(&d, [h].into_iter()).take(lim).count());
        let _ = outcome(|| Dijkstra::new(&d, [g.vlist()[0], h].into_iter()).take(lim).count());
        at("DijkstraDist::new / distances");
        let _ = outcome(|| DijkstraDist::new(&d, [h].into_iter()).distances());
        at("DijkstraPred::new / predecessors / shortest_path");
        let _ = outcome(|| DijkstraPred::new(&d, [h].into_iter()).predecessors());
        let _ = outcome(|| DijkstraPred::new(&d, [g.vlist()[0]].into_iter()).shortest_path(|v| v == h));
    }
    if c.repr == "AdjacencyListWeighted<isize>" {
        let d = graaf::AdjacencyListWeighted::<isize>::build(g);
        at("BellmanFordMoore::new / distances");
        let _ = outcome(|| {
            let mut b = BellmanFordMoore::new(&d, h);
            b.distances().map(<[isize]>::to_vec)
        });
        at("DistanceMatrix indexing");
        let _ = outcome(|| {
            let mut fw = FloydWarshall::new(&d);
            let dm = fw.distances();
            dm[(h, 0)]
        });
        let _ = outcome(|| {
            let mut fw = FloydWarshall::new(&d);
            let dm = fw.distances();
            dm[h]
        });
        // a column outside the matrix: in the last row the cell lies past the end of the buffer
        let last = g.order() - 1;
        for (u, v) in [(0usize, h), (last, h), (last, g.order()), (h, h)] {
            let _ = outcome(|| {
                let mut fw = FloydWarshall::new(&d);
                let dm = fw.distances();
                dm[(u, v)]
            });
            let _ = outcome(|| {
                let mut dm = graaf::DistanceMatrix::<isize>::new(g.order(), isize::MAX);
                dm[(u, v)] = 0;
            });
        }
        let _ = outcome(|| {
            let mut fw = FloydWarshall::new(&d);
            let dm = fw.distances();
            dm[0..h.min(g.order() * g.order() + 2)].len()
        });
    }
    Ok(())
}

impl Case for C13Q {
    fn prop(&self) -> &'static str {
        "C13"
    }

    fn run(&self) -> R {
        with_repr!(self.repr.as_str(), run_c13q(self))?;
        run_weighted_entry_points(self)
    }

    fn fields(&self) -> Vec<(String, J)> {
        let mut f = vec![("repr".into(), J::s(&self.repr))];
        f.extend(self.g.fields(self.repr.starts_with("AdjacencyListWeighted")));
        f.push(("hostile_id".into(), J::u(self.id)));
        f
    }
}

fn hostile_ids(g: &G) -> Vec<usize> {
    let m = g.max_id();
    let mut ids = vec![];
    // gaps of a non-contiguous vertex set
    for x in 0..m {
        if !g.verts.contains(&x) {
            ids.push(x);
            if ids.len() >= 3 {
                break;
            }
        }
    }
    for x in [m + 1, m + 2, FAR, usize::MAX / 2 + 1, usize::MAX] {
        if !g.verts.contains(&x) {
            ids.push(x);
        }
    }
    ids
}

pub fn search_c13(seed: u64, ctx: &mut Ctx) -> Option<J> {
    let mut rng = Rng::new(seed);
    // every digraph of order <= 3, every representation, every hostile id
    for order in 1..=3usize {
        let np = order * (order - 1);
        for mask in 0..(1u64 << np) {
            for repr in ALL_REPRS {
                let mut g = g_from_mask(order, mask);
                if repr.starts_with("AdjacencyListWeighted") {
                    for (_, w) in g.arcs.iter_mut() {
                        *w = 1 + (rng.below(5) as i64);
                    }
                }
                for id in hostile_ids(&g) {
                    let c = C13Q {
                        repr: repr.to_string(),
                        g: g.clone(),
                        id,
                    };
                    if let Some(f) = ctx.eval(&c) {
                        return Some(f);
                    }
                }
            }
        }
    }
    // orders around the 64-bit block boundary of the bit matrix, a few arc sets
    for order in [8usize, 9, 11, 64, 65] {
        for k in 0..3 {
            for repr in ALL_REPRS {
                let mut g = G::new(order);
                let mut arcs = bit63_arcs(order);
                if k == 1 {
                    arcs.truncate(1);
                }
                if k == 2 {
                    arcs = (1..order).map(|u| (u, 0)).collect();
                }
                for (u, v) in arcs {
                    if u != v {
                        let _ = g.arcs.insert((u, v), 1);
                    }
                }
                for id in hostile_ids(&g) {
                    let c = C13Q {
                        repr: repr.to_string(),
                        g: g.clone(),
                        id,
                    };
                    if let Some(f) = ctx.eval(&c) {
                        return Some(f);
                    }
                }
            }
        }
        if ctx.expired() {
            return None;
        }
    }
    // AdjacencyMap with gapped vertex sets: ids in the gaps and beyond
    for ids in [[0usize, 2, 5], [0, 1, 10], [0, 63, 64]] {
        for mask in 0..64u64 {
            let mut g = G {
                verts: ids.iter().copied().collect(),
                arcs: Default::default(),
            };
            let mut i = 0;
            for &u in &ids {
                for &v in &ids {
                    if u != v {
                        if mask >> i & 1 == 1 {
                            let _ = g.arcs.insert((u, v), 1);
                        }
                        i += 1;
                    }
                }
            }
            for id in hostile_ids(&g) {
                let c = C13Q {
                    repr: "AdjacencyMap".to_string(),
                    g: g.clone(),
                    id,
                };
                if let Some(f) = ctx.eval(&c) {
                    return Some(f);
                }
            }
        }
        if ctx.expired() {
            return None;
        }
    }
    None
}

pub fn replay_c13(j: &J) -> Result<Option<J>, String> {
    let (repr, g) = repr_and_g(j)?;
    let id = j.req("hostile_id")?.usize()?;
    if g.verts.contains(&id) {
        return Err("hostile_id must not be a vertex".into());
    }
    Ok(crate::eval_case(&C13Q { repr, g, id }))
}
