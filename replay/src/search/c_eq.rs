//! C20, second half: the SAME abstract digraph built by different routes
//! (generators, empty + add_arc in any order, toggles, From<iterator of arcs
//! / rows>, conversion chains, weight replacement) must compare ==,
//! Ordering::Equal and hash equally; different abstract digraphs must not.

use {
    crate::{
        c_gen::gen_model,
        c_misc::{
            hash_of,
            model_after,
            ops_from,
            rebuild_history,
            History,
        },
        c_repr::Op,
        json::J,
        model::*,
        Case,
        Ctx,
    },
    std::cmp::Ordering,
};

#[derive(Clone, Debug)]
pub enum Route {
    /// a deterministic generator (unweighted representations)
    Gen { gen: String, a: usize, b: usize },
    /// `empty(order)` followed by valid add / remove / toggle calls
    Ops { order: usize, ops: Vec<Op> },
    /// From<iterator of arcs> (AdjacencyMatrix, EdgeList); duplicates allowed
    Arcs(Vec<(usize, usize)>),
    /// From<iterator of rows> (AdjacencyList, AdjacencyMap, weighted)
    Rows(Vec<Vec<(usize, i64)>>),
    /// Self::from(Via::from(base)) for another unweighted representation
    Chain { via: String, base: Box<Route> },
}

impl Route {
    fn model(&self, repr: &str) -> G {
        match self {
            Route::Gen { gen, a, b } => gen_model(gen, *a, *b).expect("admissible generator parameters"),
            Route::Ops { order, ops } => model_after(
                repr,
                &History {
                    start: "empty".into(),
                    order: *order,
                    ops: ops.clone(),
                },
            ),
            Route::Arcs(arcs) => {
                let n = arcs.iter().map(|&(u, v)| u.max(v) + 1).max().unwrap();
                let mut g = G::new(n);
                for &(u, v) in arcs {
                    let _ = g.arcs.insert((u, v), 1);
                }
                g
            }
            Route::Rows(rows) => {
                let mut g = G::new(rows.len());
                for (u, r) in rows.iter().enumerate() {
                    for &(v, w) in r {
                        let _ = g.arcs.insert((u, v), w);
                    }
                }
                g
            }
            Route::Chain { base, .. } => base.model(repr),
        }
    }

    fn build<D: Dg>(&self) -> D {
        match self {
            Route::Gen { gen, a, b } => D::from_gen(gen, *a, *b),
            Route::Ops { order, ops } => {
                let mut d = D::new_empty(*order);
                for op in ops {
                    match *op {
                        Op::Add(u, v, w) => d.add(u, v, w),
                        Op::Remove(u, v) => {
                            let _ = d.remove_arc(u, v);
                        }
                        Op::Toggle(u, v) => d.toggle_arc(u, v),
                    }
                }
                d
            }
            Route::Arcs(arcs) => D::from_arc_iter(arcs),
            Route::Rows(rows) => D::from_row_iter(rows),
            Route::Chain { via, base } => base.build::<D>().round_trip(via),
        }
    }

    fn describe(&self) -> String {
        match self {
            Route::Gen { gen, a, b } if gen == "biclique" => format!("biclique({a}, {b})"),
            Route::Gen { gen, a, .. } => format!("{gen}({a})"),
            Route::Ops { order, ops } => format!("empty({order}) + {} calls", ops.len()),
            Route::Arcs(a) => format!("From<{} arcs>", a.len()),
            Route::Rows(r) => format!("From<{} rows>", r.len()),
            Route::Chain { via, base } => format!("{} -> {via} -> back", base.describe()),
        }
    }

    fn json(&self, weighted: bool) -> J {
        match self {
            Route::Gen { gen, a, b } => {
                let mut f = vec![("route".into(), J::s("generator")), ("generator".into(), J::s(gen))];
                if gen == "biclique" {
                    f.push(("m".into(), J::u(*a)));
                    f.push(("n".into(), J::u(*b)));
                } else {
                    f.push(("order".into(), J::u(*a)));
                }
                J::Obj(f)
            }
            Route::Ops { order, ops } => J::Obj(vec![
                ("route".into(), J::s("ops")),
                ("order".into(), J::u(*order)),
                ("ops".into(), J::Arr(ops.iter().map(|o| o.json(weighted)).collect())),
            ]),
            Route::Arcs(arcs) => J::Obj(vec![
                ("route".into(), J::s("from_arcs")),
                (
                    "arcs".into(),
                    J::Arr(arcs.iter().map(|&(u, v)| J::Arr(vec![J::u(u), J::u(v)])).collect()),
                ),
            ]),
            Route::Rows(rows) => J::Obj(vec![
                ("route".into(), J::s("from_rows")),
                (
                    "rows".into(),
                    J::Arr(
                        rows.iter()
                            .map(|r| {
                                J::Arr(
                                    r.iter()
                                        .map(|&(v, w)| {
                                            if weighted {
                                                J::Arr(vec![J::u(v), J::n(w)])
                                            } else {
                                                J::u(v)
                                            }
                                        })
                                        .collect(),
                                )
                            })
                            .collect(),
                    ),
                ),
            ]),
            Route::Chain { via, base } => J::Obj(vec![
                ("route".into(), J::s("chain")),
                ("via".into(), J::s(via)),
                ("base".into(), base.json(weighted)),
            ]),
        }
    }

    fn from_json(j: &J, repr: &str) -> Result<Route, String> {
        let unweighted = UNWEIGHTED.contains(&repr);
        let grows = repr == "AdjacencyMap";
        match j.req("route")?.str()? {
            "generator" => {
                if !unweighted {
                    return Err(format!("{repr} has no generators"));
                }
                let gen = j.req("generator")?.str()?.to_string();
                if !["empty", "complete", "circuit", "cycle", "path", "star", "wheel", "biclique"].contains(&gen.as_str()) {
                    return Err(format!("unknown generator {gen}"));
                }
                let (a, b) = if gen == "biclique" {
                    (j.req("m")?.usize()?, j.req("n")?.usize()?)
                } else {
                    (j.req("order")?.usize()?, 0)
                };
                if a.saturating_add(b) > 1000 || gen_model(&gen, a, b).is_none() {
                    return Err("inadmissible or too large generator parameters".into());
                }
                Ok(Route::Gen { gen, a, b })
            }
            "ops" => {
                let order = j.req("order")?.usize()?;
                if order == 0 || order > 1000 {
                    return Err("order must be in 1..=1000".into());
                }
                let ops = ops_from(j.req("ops")?, repr)?;
                // only calls that the library must accept
                let mut seen: std::collections::BTreeSet<usize> = (0..order).collect();
                for op in &ops {
                    let (u, v) = match *op {
                        Op::Add(u, v, _) | Op::Remove(u, v) | Op::Toggle(u, v) => (u, v),
                    };
                    let rejected = match op {
                        Op::Remove(..) => false,
                        Op::Add(..) if grows => u == v,
                        _ => u == v || !seen.contains(&u) || !seen.contains(&v),
                    };
                    if rejected {
                        return Err(format!("{op:?} would be rejected by the library"));
                    }
                    if grows && matches!(op, Op::Add(..)) {
                        let _ = seen.insert(u);
                        let _ = seen.insert(v);
                    }
                }
                Ok(Route::Ops { order, ops })
            }
            "from_arcs" => {
                if repr != "AdjacencyMatrix" && repr != "EdgeList" {
                    return Err(format!("{repr} is not built from arcs"));
                }
                let mut arcs = Vec::new();
                for a in j.req("arcs")?.arr()? {
                    let a = a.usizes()?;
                    if a.len() != 2 || a[0] == a[1] || a[0] > 2000 || a[1] > 2000 {
                        return Err("arcs must be [u, v] with u != v and ids <= 2000".into());
                    }
                    arcs.push((a[0], a[1]));
                }
                if arcs.is_empty() {
                    return Err("from_arcs needs at least one arc".into());
                }
                Ok(Route::Arcs(arcs))
            }
            "from_rows" => {
                if repr == "AdjacencyMatrix" || repr == "EdgeList" {
                    return Err(format!("{repr} is not built from rows"));
                }
                let mut rows: Vec<Vec<(usize, i64)>> = Vec::new();
                for r in j.req("rows")?.arr()? {
                    let mut row = Vec::new();
                    for x in r.arr()? {
                        match x {
                            J::Arr(p) if p.len() == 2 => row.push((p[0].usize()?, p[1].i64()?)),
                            other => row.push((other.usize()?, 1)),
                        }
                    }
                    rows.push(row);
                }
                let n = rows.len();
                let bad = n == 0
                    || rows.iter().enumerate().any(|(u, r)| {
                        r.iter().any(|&(v, w)| v == u || v >= n || (repr.ends_with("<usize>") && w < 0))
                    });
                if bad {
                    return Err("rows must be valid (no self-loop, heads in range, at least one row)".into());
                }
                Ok(Route::Rows(rows))
            }
            "chain" => {
                let via = j.req("via")?.str()?.to_string();
                if !unweighted || !UNWEIGHTED.contains(&via.as_str()) || via == repr {
                    return Err(format!("no conversion chain {repr} -> {via} -> {repr}"));
                }
                let base = Route::from_json(j.req("base")?, repr)?;
                if !base.model(repr).contiguous() {
                    return Err("conversions need vertex set 0..order".into());
                }
                Ok(Route::Chain {
                    via,
                    base: Box::new(base),
                })
            }
            o => Err(format!("unknown route {o}")),
        }
    }
}

pub struct Routes {
    pub repr: String,
    pub routes: Vec<Route>,
}

fn run_routes<D: Dg>(c: &Routes) -> R {
    let mut built: Vec<(D, G, String, u64)> = Vec::new();
    for (i, r) in c.routes.iter().enumerate() {
        at("constructor");
        let d: D = r.build();
        let g = r.model(&c.repr);
        same(&d, &g, &format!("route {i} ({})", r.describe()))?;
        let h = hash_of(&d);
        built.push((d, g, r.describe(), h));
    }
    for i in 0..built.len() {
        for k in i + 1..built.len() {
            let (a, ga, na, ha) = &built[i];
            let (b, gb, nb, hb) = &built[k];
            let equal = ga == gb;
            let what = format!(
                "routes {i} ({na}) and {k} ({nb}) lead to {} abstract digraph",
                if equal { "the same" } else { "a different" }
            );
            at("PartialEq::eq");
            ensure_eq!(format!("{what}: =="), equal, a == b);
            ensure_eq!(format!("{what}: == (swapped)"), equal, b == a);
            ensure_eq!(format!("{what}: !="), !equal, a != b);
            at("Ord::cmp");
            let (x, y) = (a.cmp(b), b.cmp(a));
            ensure_eq!(format!("{what}: cmp == Ordering::Equal"), equal, x == Ordering::Equal);
            ensure_eq!(format!("{what}: cmp is antisymmetric"), x, y.reverse());
            at("PartialOrd::partial_cmp");
            ensure_eq!(format!("{what}: partial_cmp agrees with cmp"), Some(x), a.partial_cmp(b));
            if equal {
                at("Hash::hash");
                ensure_eq!(format!("{what}: equal hashes"), ha, hb);
            }
        }
    }
    Ok(())
}

impl Case for Routes {
    fn prop(&self) -> &'static str {
        "C20"
    }

    fn run(&self) -> R {
        with_repr!(self.repr.as_str(), run_routes(self))
    }

    fn fields(&self) -> Vec<(String, J)> {
        let w = self.repr.starts_with("AdjacencyListWeighted");
        vec![
            ("repr".into(), J::s(&self.repr)),
            (
                "routes".into(),
                J::Arr(self.routes.iter().map(|r| r.json(w)).collect()),
            ),
        ]
    }
}

fn adds(g: &G) -> Vec<Op> {
    g.warc_list().into_iter().map(|(u, v, w)| Op::Add(u, v, w)).collect()
}

/// the routes that must all agree on `g` (vertex set 0..order), plus routes
/// that must differ from them: the same arcs at order + 1, and one arc more
/// or less
fn ops_routes(rng: &mut Rng, repr: &str, g: &G) -> Vec<Route> {
    let n = g.order();
    let asc = adds(g);
    let mut shuffled = asc.clone();
    rng.shuffle(&mut shuffled);
    let mut routes = vec![
        Route::Ops { order: n, ops: asc.clone() },
        Route::Ops { order: n, ops: shuffled.clone() },
    ];
    if repr == "AdjacencyMatrix" {
        // toggle twice, then add
        let mut ops = Vec::new();
        for op in &shuffled {
            if let Op::Add(u, v, w) = *op {
                ops.push(Op::Toggle(u, v));
                ops.push(Op::Toggle(u, v));
                ops.push(Op::Add(u, v, w));
            }
        }
        routes.push(Route::Ops { order: n, ops });
        // a single toggle switches the arc on as well
        routes.push(Route::Ops {
            order: n,
            ops: asc.iter().map(|o| if let Op::Add(u, v, _) = *o { Op::Toggle(u, v) } else { o.clone() }).collect(),
        });
    }
    // adds, removes and re-adds with cancelling noise (AdjacencyMap: from a smaller start order)
    let h = rebuild_history(rng, repr, g);
    routes.push(Route::Ops { order: h.order, ops: h.ops });
    // different abstract digraphs
    routes.push(Route::Ops { order: n + 1, ops: asc.clone() });
    if let Some((u, v)) = pairs(n).into_iter().find(|&(u, v)| !g.has(u, v)) {
        let mut ops = asc.clone();
        ops.push(Op::Add(u, v, 1));
        routes.push(Route::Ops { order: n, ops });
    }
    if !asc.is_empty() {
        let mut ops = asc.clone();
        let k = rng.below(ops.len());
        if let Op::Add(u, v, _) = ops[k] {
            ops.push(Op::Remove(u, v));
        }
        routes.push(Route::Ops { order: n, ops });
    }
    routes
}

fn rows_of(g: &G) -> Vec<Vec<(usize, i64)>> {
    (0..g.order())
        .map(|u| g.out(u).into_iter().map(|v| (v, g.w(u, v).unwrap())).collect())
        .collect()
}

fn weights_for(rng: &mut Rng, repr: &str, g: &mut G) {
    if repr.starts_with("AdjacencyListWeighted") {
        let lo = if repr.ends_with("<isize>") { -4 } else { 0 };
        for w in g.arcs.values_mut() {
            *w = lo + rng.below(12) as i64;
        }
    }
}

pub fn search_routes(seed: u64, ctx: &mut Ctx) -> Option<J> {
    let mut rng = Rng::new(seed);
    let mut orders: Vec<usize> = (1..=70).collect();
    orders.extend([128usize, 130]);
    // (d) weighted (tiny cases, so they run first): re-adding with a new weight, remove-then-add, adding once
    for i in 0..3000usize {
        for repr in ["AdjacencyListWeighted<usize>", "AdjacencyListWeighted<isize>"] {
            let n = 2 + rng.below(5);
            let mut g = random_g(&mut rng, n, &[]);
            weights_for(&mut rng, repr, &mut g);
            let (u, v) = rng.pick(&pairs(n));
            let _ = g.arcs.remove(&(u, v));
            let base = adds(&g);
            let lo = if repr.ends_with("<isize>") { -4 } else { 0 };
            let w1 = lo + rng.below(12) as i64;
            let w2 = lo + rng.below(12) as i64;
            let with = |tail: Vec<Op>, at_front: bool| {
                let mut ops = if at_front { tail.clone() } else { base.clone() };
                ops.extend(if at_front { base.clone() } else { tail });
                Route::Ops { order: n, ops }
            };
            let routes = vec![
                with(vec![Op::Add(u, v, w1), Op::Add(u, v, w2)], false),
                with(vec![Op::Add(u, v, w1), Op::Remove(u, v), Op::Add(u, v, w2)], false),
                with(vec![Op::Add(u, v, w2)], false),
                with(vec![Op::Add(u, v, w2)], true),
                with(vec![Op::Add(u, v, w1), Op::Add(u, v, w2)], true),
                // the first weight only: differs from the others unless w1 == w2
                with(vec![Op::Add(u, v, w1)], false),
                // the arc removed again: always different
                with(vec![Op::Add(u, v, w2), Op::Remove(u, v)], false),
            ];
            let c = Routes {
                repr: repr.to_string(),
                routes,
            };
            if let Some(f) = ctx.eval(&c) {
                return Some(f);
            }
        }
        if i % 128 == 0 && ctx.expired() {
            return None;
        }
    }
    // (a) every generator versus empty + add_arc (ascending, shuffled, with
    // toggles for the matrix, with cancelling noise), per representation
    for &n in &orders {
        for gen in ["empty", "complete", "circuit", "cycle", "path", "star", "wheel", "biclique"] {
            let (a, b) = if gen == "biclique" { (n / 2, n - n / 2) } else { (n, 0) };
            let Some(g) = gen_model(gen, a, b) else { continue };
            for repr in UNWEIGHTED {
                let mut routes = vec![Route::Gen {
                    gen: gen.to_string(),
                    a,
                    b,
                }];
                routes.extend(ops_routes(&mut rng, repr, &g));
                if n <= 12 || n % 16 <= 1 {
                    // (c) the generator's result through a conversion chain
                    for via in UNWEIGHTED {
                        if via != repr {
                            routes.push(Route::Chain {
                                via: via.to_string(),
                                base: Box::new(routes[0].clone()),
                            });
                        }
                    }
                }
                let c = Routes {
                    repr: repr.to_string(),
                    routes,
                };
                if let Some(f) = ctx.eval(&c) {
                    return Some(f);
                }
            }
        }
        if ctx.expired() {
            return None;
        }
    }
    // (b) From<iterator of arcs> / From<iterator of rows> versus empty + add_arc
    let explicit: Vec<Vec<(usize, usize)>> = vec![
        vec![(0, 1)],
        vec![(1, 0)],
        // the greatest id is a sink and not the head of the lexicographically last arc
        vec![(0, 3), (1, 2)],
        vec![(0, 5), (4, 1), (4, 2)],
        // the greatest id is only a tail
        vec![(3, 0), (1, 2)],
        // duplicates
        vec![(0, 1), (0, 1), (2, 1), (0, 1)],
        vec![(2, 0), (0, 2), (2, 0)],
        vec![(0, 64), (63, 1)],
        vec![(65, 0), (0, 64), (0, 64)],
    ];
    let mut arc_inputs = explicit;
    for i in 0..1500usize {
        let top = 2 + rng.below(if i % 10 == 0 { 70 } else { 7 });
        let k = 1 + rng.below(9);
        let mut arcs: Vec<(usize, usize)> = Vec::new();
        while arcs.len() < k {
            let (u, v) = (rng.below(top), rng.below(top));
            if u != v {
                arcs.push((u, v));
            }
        }
        if rng.chance(1, 2) {
            let d = arcs[rng.below(arcs.len())];
            arcs.push(d);
        }
        arc_inputs.push(arcs);
    }
    for (i, arcs) in arc_inputs.into_iter().enumerate() {
        for repr in ["AdjacencyMatrix", "EdgeList"] {
            let base = Route::Arcs(arcs.clone());
            let g = base.model(repr);
            let mut shuffled = arcs.clone();
            rng.shuffle(&mut shuffled);
            let mut routes = vec![base, Route::Arcs(shuffled)];
            routes.extend(ops_routes(&mut rng, repr, &g));
            for via in UNWEIGHTED {
                if via != repr {
                    routes.push(Route::Chain {
                        via: via.to_string(),
                        base: Box::new(routes[0].clone()),
                    });
                }
            }
            let c = Routes {
                repr: repr.to_string(),
                routes,
            };
            if let Some(f) = ctx.eval(&c) {
                return Some(f);
            }
        }
        if i % 64 == 0 && ctx.expired() {
            return None;
        }
    }
    for i in 0..1500usize {
        let n = 1 + rng.below(if i % 10 == 0 { 40 } else { 7 });
        for repr in ["AdjacencyList", "AdjacencyMap", "AdjacencyListWeighted<usize>", "AdjacencyListWeighted<isize>"] {
            let mut g = match i % 4 {
                // the greatest vertex is isolated
                0 if n > 1 => {
                    let mut g = random_g(&mut rng, n - 1, &[]);
                    let _ = g.verts.insert(n - 1);
                    g
                }
                // the greatest vertex is a sink
                1 => {
                    let mut g = random_g(&mut rng, n, &[]);
                    g.arcs.retain(|&(u, _), _| u != n - 1);
                    g
                }
                _ => random_g(&mut rng, n, &[]),
            };
            weights_for(&mut rng, repr, &mut g);
            let mut routes = vec![Route::Rows(rows_of(&g))];
            // rows listed with their entries reversed: a set / map does not care
            routes.push(Route::Rows(
                rows_of(&g).into_iter().map(|mut r| { r.reverse(); r }).collect(),
            ));
            routes.extend(ops_routes(&mut rng, repr, &g));
            // one more (empty) row: a different order with the same arcs
            let mut more = rows_of(&g);
            more.push(vec![]);
            routes.push(Route::Rows(more));
            if UNWEIGHTED.contains(&repr) {
                for via in UNWEIGHTED {
                    if via != repr {
                        routes.push(Route::Chain {
                            via: via.to_string(),
                            base: Box::new(routes[0].clone()),
                        });
                    }
                }
            }
            let c = Routes {
                repr: repr.to_string(),
                routes,
            };
            if let Some(f) = ctx.eval(&c) {
                return Some(f);
            }
        }
        if i % 64 == 0 && ctx.expired() {
            return None;
        }
    }
    None
}

pub fn replay_routes(j: &J) -> Result<Option<J>, String> {
    let repr = j.req("repr")?.str()?.to_string();
    known_repr(&repr)?;
    let routes = j
        .req("routes")?
        .arr()?
        .iter()
        .map(|r| Route::from_json(r, &repr))
        .collect::<Result<Vec<_>, _>>()?;
    if routes.is_empty() {
        return Err("at least one route".into());
    }
    Ok(crate::eval_case(&Routes { repr, routes }))
}
