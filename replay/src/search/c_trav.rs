//! C03 (Dijkstra), C04 (BFS), C05 (predecessor trees / shortest paths of BFS
//! and Dijkstra), C06 (DFS). All digraphs have vertex set 0..order and all
//! sources are distinct and in range (anything else is undefined behaviour or
//! a documented panic on the current tree).

use {
    crate::{
        c_repr::repr_and_g,
        json::J,
        model::*,
        Case,
        Ctx,
        SKIP_KNOWN_F2,
    },
    graaf::*,
};

pub struct Trav {
    pub prop: &'static str,
    /// "bfs" | "dijkstra" | "dfs" (C05 has a BFS half and a Dijkstra half)
    pub algo: &'static str,
    pub repr: String,
    pub g: G,
    pub sources: Vec<usize>,
}

const INF: usize = usize::MAX;

/// a yielded order is valid: in range, no repeats, only reachable vertices,
/// non-decreasing distance, and (if `full`) every reachable vertex
fn check_sequence(what: &str, seq: &[usize], dist: &[usize], full: bool) -> R {
    let n = dist.len();
    let mut seen = vec![false; n];
    let mut last = 0;
    for (i, &v) in seq.iter().enumerate() {
        ensure!(
            format!("{what}: item {i} is a vertex of the digraph"),
            v < n,
            format!("yielded {v}; sequence {seq:?}")
        );
        ensure!(
            format!("{what}: no vertex is yielded twice"),
            !seen[v],
            format!("{v} repeated; sequence {seq:?}")
        );
        seen[v] = true;
        ensure!(
            format!("{what}: only vertices reachable from a source are yielded"),
            dist[v] != INF,
            format!("{v} is unreachable; sequence {seq:?}")
        );
        ensure!(
            format!("{what}: vertices are yielded in non-decreasing distance order"),
            dist[v] >= last,
            format!("sequence {seq:?} has distances {:?}", seq.iter().map(|&x| dist[x]).collect::<Vec<_>>())
        );
        last = dist[v];
    }
    if full {
        let exp: Vec<usize> = (0..n).filter(|&v| dist[v] != INF).collect();
        let mut got = seq.to_vec();
        got.sort_unstable();
        ensure_eq!(
            format!("{what}: every vertex reachable from a source is yielded (sorted)"),
            exp,
            got
        );
    }
    Ok(())
}

/// predecessor vector: sources and unreachable vertices have none, every
/// other vertex has a tight in-neighbour
fn check_pred_tree(what: &str, g: &G, src: &[usize], dist: &[usize], pred: &[Option<usize>]) -> R {
    ensure_eq!(format!("{what}: one entry per vertex"), g.order(), pred.len());
    for v in 0..g.order() {
        if src.contains(&v) || dist[v] == INF {
            ensure_eq!(
                format!("{what}: source / unreachable vertex {v} has no predecessor"),
                None::<usize>,
                pred[v]
            );
        } else {
            let ok = pred[v].is_some_and(|u| {
                g.has(u, v)
                    && dist[u] != INF
                    && dist[u] as u128 + g.w(u, v).unwrap() as u64 as u128 == dist[v] as u128
            });
            ensure!(
                format!("{what}: reachable vertex {v} has a predecessor u with an arc u->{v} and dist(u) + w(u,{v}) = dist({v})"),
                ok,
                format!("pred[{v}] = {:?}; predecessors {pred:?}; distances {dist:?}", pred[v])
            );
        }
    }
    Ok(())
}

fn check_shortest_path(
    what: &str,
    g: &G,
    src: &[usize],
    dist: &[usize],
    targets: &[usize],
    got: &Option<Vec<usize>>,
) -> R {
    let best = targets
        .iter()
        .filter(|&&v| v < g.order() && dist[v] != INF)
        .map(|&v| dist[v])
        .min();
    match (best, got) {
        (None, None) => Ok(()),
        (None, Some(p)) => Err(mk_fail(
            &format!("{what}: None when no reachable vertex satisfies the predicate (targets {targets:?})"),
            "None".into(),
            format!("Some({p:?})"),
        )),
        (Some(b), None) => Err(mk_fail(
            &format!("{what}: Some when a reachable vertex satisfies the predicate (targets {targets:?})"),
            format!("a path of length/weight {b}"),
            "None".into(),
        )),
        (Some(b), Some(p)) => {
            let what = format!("{what} (targets {targets:?})");
            ensure!(format!("{what}: the path is not empty"), !p.is_empty(), format!("{p:?}"));
            ensure!(
                format!("{what}: every path element is a vertex"),
                p.iter().all(|&v| v < g.order()),
                format!("{p:?}")
            );
            ensure!(
                format!("{what}: the path starts at a source"),
                src.contains(&p[0]),
                format!("{p:?}")
            );
            ensure!(
                format!("{what}: the path ends at a vertex satisfying the predicate"),
                targets.contains(&p[p.len() - 1]),
                format!("{p:?}")
            );
            ensure!(
                format!("{what}: consecutive path vertices are joined by arcs"),
                p.windows(2).all(|w| g.has(w[0], w[1])),
                format!("{p:?}")
            );
            let wt: u128 = p.windows(2).map(|w| g.w(w[0], w[1]).unwrap() as u64 as u128).sum();
            ensure_eq!(
                format!("{what}: the path length/weight is the minimum over all targets; path {p:?}"),
                b as u128,
                wt
            );
            Ok(())
        }
    }
}

/// target predicates as sorted vertex lists: every subset for order <= 4,
/// otherwise single targets (all of them up to order 8, ids next to word
/// boundaries beyond), the empty set, all vertices and a few random sets
fn target_sets(order: usize, rng_salt: u64) -> Vec<Vec<usize>> {
    if order <= 4 {
        return (0..1u64 << order)
            .map(|m| (0..order).filter(|&v| m >> v & 1 == 1).collect())
            .collect();
    }
    let singles = if order <= 8 { (0..order).collect() } else { boundary_ids(order) };
    let mut t: Vec<Vec<usize>> = singles.into_iter().map(|v| vec![v]).collect();
    t.push(vec![]);
    t.push((0..order).collect());
    let mut r = Rng::new(rng_salt);
    for _ in 0..4 {
        let den = 2 + r.below(order.min(12));
        t.push((0..order).filter(|_| r.chance(1, den)).collect());
    }
    t
}

fn salt(g: &G, src: &[usize]) -> u64 {
    let mut h = 0xcbf2_9ce4_8422_2325u64;
    for (&(u, v), &w) in &g.arcs {
        for x in [u as u64, v as u64, w as u64] {
            h = (h ^ x).wrapping_mul(0x100_0000_01b3);
        }
    }
    for &s in src {
        h = (h ^ s as u64).wrapping_mul(0x100_0000_01b3);
    }
    h
}

// ------------------------------------------------------------------ BFS ----

fn run_bfs<D: Dg>(c: &Trav) -> R {
    let src = &c.sources;
    let d = D::build(&c.g);
    // BFS counts hops: every arc has weight 1 in the reference
    let mut unit = c.g.clone();
    for w in unit.arcs.values_mut() {
        *w = 1;
    }
    let g = &unit;
    let n = g.order();
    let lim = 4 * n + 8;
    let dist = hop_dist(g, src);
    if c.prop == "C04" {
        at("Bfs::next");
        let seq: Vec<usize> = Bfs::new(&d, src.iter().copied()).take(lim).collect();
        check_sequence("Bfs", &seq, &dist, true)?;
        at("BfsDist::next");
        let items: Vec<(usize, usize)> =
            BfsDist::new(&d, src.iter().copied()).take(lim).collect();
        let seq: Vec<usize> = items.iter().map(|x| x.0).collect();
        check_sequence("BfsDist", &seq, &dist, true)?;
        for &(v, w) in &items {
            ensure_eq!(
                format!("BfsDist pairs vertex {v} with its exact hop distance; items {items:?}"),
                dist[v],
                w
            );
        }
        at("BfsDist::distances");
        ensure_eq!(
            "BfsDist::distances() is the hop-distance vector, usize::MAX exactly at unreachable vertices",
            dist.clone(),
            BfsDist::new(&d, src.iter().copied()).distances()
        );
    } else {
        at("BfsPred::next");
        let items: Vec<(Option<usize>, usize)> =
            BfsPred::new(&d, src.iter().copied()).take(lim).collect();
        let seq: Vec<usize> = items.iter().map(|x| x.1).collect();
        check_sequence("BfsPred", &seq, &dist, true)?;
        at("BfsPred::predecessors");
        let p = BfsPred::new(&d, src.iter().copied()).predecessors();
        check_pred_tree("BfsPred::predecessors()", g, src, &dist, &p.pred)?;
        at("BfsPred::shortest_path");
        for t in target_sets(n, salt(g, src)) {
            let got = BfsPred::new(&d, src.iter().copied())
                .shortest_path(|v| t.binary_search(&v).is_ok());
            check_shortest_path("BfsPred::shortest_path", g, src, &dist, &t, &got)?;
        }
        at("BfsPred::cycles");
        let cycles = BfsPred::new(&d, src.iter().copied()).cycles();
        for cy in &cycles {
            let mut sorted = cy.clone();
            sorted.sort_unstable();
            sorted.dedup();
            let ok = cy.len() >= 2
                && sorted.len() == cy.len()
                && cy.iter().all(|&v| v < n)
                && cy.windows(2).all(|w| g.has(w[0], w[1]))
                && g.has(cy[cy.len() - 1], cy[0]);
            ensure!(
                "every sequence returned by BfsPred::cycles() is an elementary cycle (distinct vertices, consecutive arcs, closing arc)",
                ok,
                format!("{cy:?} among {cycles:?}")
            );
        }
    }
    Ok(())
}

// ------------------------------------------------------------- Dijkstra ----

fn run_dijkstra(c: &Trav) -> R {
    let (g, src) = (&c.g, &c.sources);
    let n = g.order();
    let lim = 4 * n + 8;
    let d = AdjacencyListWeighted::<usize>::build(g);
    let dist: Vec<usize> = relax_dist(g, src)
        .into_iter()
        .map(|x| x.map_or(INF, |v| v as usize))
        .collect();
    if c.prop == "C03" {
        at("DijkstraDist::distances");
        ensure_eq!(
            "DijkstraDist::distances()[v] is the minimum walk weight from a source, usize::MAX exactly when unreachable",
            dist.clone(),
            DijkstraDist::new(&d, src.iter().copied()).distances()
        );
        at("Dijkstra::next");
        let seq: Vec<usize> = Dijkstra::new(&d, src.iter().copied()).take(lim).collect();
        check_sequence("Dijkstra", &seq, &dist, true)?;
        at("DijkstraDist::next");
        let items: Vec<(usize, usize)> =
            DijkstraDist::new(&d, src.iter().copied()).take(lim).collect();
        let seq: Vec<usize> = items.iter().map(|x| x.0).collect();
        check_sequence("DijkstraDist", &seq, &dist, true)?;
        for &(v, w) in &items {
            ensure_eq!(
                format!("DijkstraDist pairs vertex {v} with its exact distance; items {items:?}"),
                dist[v],
                w
            );
        }
    } else {
        at("DijkstraPred::next");
        let items: Vec<(Option<usize>, usize)> =
            DijkstraPred::new(&d, src.iter().copied()).take(lim).collect();
        let seq: Vec<usize> = items.iter().map(|x| x.1).collect();
        check_sequence("DijkstraPred", &seq, &dist, true)?;
        at("DijkstraPred::predecessors");
        let p = DijkstraPred::new(&d, src.iter().copied()).predecessors();
        check_pred_tree("DijkstraPred::predecessors()", g, src, &dist, &p.pred)?;
        at("DijkstraPred::shortest_path");
        for t in target_sets(n, salt(g, src)) {
            let got = DijkstraPred::new(&d, src.iter().copied())
                .shortest_path(|v| t.binary_search(&v).is_ok());
            check_shortest_path("DijkstraPred::shortest_path", g, src, &dist, &t, &got)?;
        }
    }
    Ok(())
}

// ------------------------------------------------------------------ DFS ----

/// (vertex, reported predecessor if the iterator reports one, reported depth
/// if the iterator reports one)
type DfsItem = (usize, Option<Option<usize>>, Option<usize>);

/// The depth-first preorder rule of C06, checked on the yielded sequence.
fn check_dfs(what: &str, g: &G, src: &[usize], reach: &[usize], items: &[DfsItem]) -> R {
    let n = g.order();
    let seq: Vec<usize> = items.iter().map(|x| x.0).collect();
    let mut yielded = vec![false; n];
    let mut depth = vec![0usize; n];
    // the current search path, root first
    let mut path: Vec<usize> = Vec::new();
    for (i, &(v, pred, dep)) in items.iter().enumerate() {
        ensure!(
            format!("{what}: item {i} is a vertex of the digraph"),
            v < n,
            format!("yielded {v}; sequence {seq:?}")
        );
        ensure!(
            format!("{what}: no vertex is yielded twice"),
            !yielded[v],
            format!("{v} repeated; sequence {seq:?}")
        );
        ensure!(
            format!("{what}: only vertices reachable from a source are yielded"),
            reach[v] != INF,
            format!("{v} is unreachable; sequence {seq:?}")
        );
        // the deepest vertex on the search path that still has an unyielded out-neighbour
        while let Some(&top) = path.last() {
            if g.out(top).iter().any(|&x| !yielded[x]) {
                break;
            }
            let _ = path.pop();
        }
        match path.last() {
            None => {
                ensure!(
                    format!("{what}: when no yielded vertex has an unyielded out-neighbour the next vertex is a new root, i.e. a source"),
                    src.contains(&v),
                    format!("{v} is not a source; sequence {seq:?}")
                );
                if let Some(p) = pred {
                    ensure_eq!(
                        format!("{what}: a root ({v}) is reported without predecessor; sequence {seq:?}"),
                        None::<usize>,
                        p
                    );
                }
                if let Some(dp) = dep {
                    ensure_eq!(
                        format!("{what}: a root ({v}) has depth 0; sequence {seq:?}"),
                        0,
                        dp
                    );
                }
                depth[v] = 0;
            }
            Some(&top) => {
                ensure!(
                    format!("{what}: the next vertex is an out-neighbour of the deepest vertex on the search path with an unyielded out-neighbour ({top})"),
                    g.has(top, v),
                    format!("{v} is not an out-neighbour of {top}; sequence {seq:?}")
                );
                if let Some(p) = pred {
                    ensure_eq!(
                        format!("{what}: the predecessor reported for {v} is that deepest vertex; sequence {seq:?}"),
                        Some(top),
                        p
                    );
                }
                if let Some(dp) = dep {
                    ensure_eq!(
                        format!("{what}: the depth reported for {v} is depth({top}) + 1; sequence {seq:?}"),
                        depth[top] + 1,
                        dp
                    );
                }
                depth[v] = depth[top] + 1;
            }
        }
        yielded[v] = true;
        path.push(v);
    }
    // KNOWN DEFECT F2: the iteration may end early, see SKIP_KNOWN_F2
    if !SKIP_KNOWN_F2 {
        let exp: Vec<usize> = (0..n).filter(|&v| reach[v] != INF).collect();
        let mut got = seq.clone();
        got.sort_unstable();
        ensure_eq!(
            format!("{what}: every vertex reachable from a source is yielded (sorted)"),
            exp,
            got
        );
    }
    Ok(())
}

fn run_dfs<D: Dg>(c: &Trav) -> R {
    let (g, src) = (&c.g, &c.sources);
    let n = g.order();
    let lim = 4 * n + 8;
    let d = D::build(g);
    let reach = hop_dist(g, src);
    at("Dfs::next");
    let items: Vec<DfsItem> = Dfs::new(&d, src.iter().copied())
        .take(lim)
        .map(|v| (v, None, None))
        .collect();
    check_dfs("Dfs", g, src, &reach, &items)?;
    at("DfsDist::next");
    let items: Vec<DfsItem> = DfsDist::new(&d, src.iter().copied())
        .take(lim)
        .map(|(v, w)| (v, None, Some(w)))
        .collect();
    check_dfs("DfsDist", g, src, &reach, &items)?;
    at("DfsPred::next");
    let items: Vec<DfsItem> = DfsPred::new(&d, src.iter().copied())
        .take(lim)
        .map(|(p, v)| (v, Some(p), None))
        .collect();
    check_dfs("DfsPred", g, src, &reach, &items)?;
    at("DfsPred::predecessors");
    let p = DfsPred::new(&d, src.iter().copied()).predecessors();
    let mut exp = vec![None; n];
    for &(v, pr, _) in &items {
        exp[v] = pr.unwrap();
    }
    ensure_eq!(
        "DfsPred::predecessors() is the forest reported by the iteration (None for roots and vertices not yielded)",
        exp,
        p.pred
    );
    Ok(())
}

impl Case for Trav {
    fn prop(&self) -> &'static str {
        self.prop
    }

    fn run(&self) -> R {
        match self.algo {
            "bfs" => with_repr!(self.repr.as_str(), run_bfs(self)),
            "dfs" => with_repr!(self.repr.as_str(), run_dfs(self)),
            _ => run_dijkstra(self),
        }
    }

    fn fields(&self) -> Vec<(String, J)> {
        let mut f = vec![
            ("algorithm".into(), J::s(self.algo)),
            ("repr".into(), J::s(&self.repr)),
        ];
        if self.repr == WUSIZE {
            f.extend(self.g.fields_unsigned());
        } else {
            f.extend(self.g.fields(self.repr.starts_with("AdjacencyListWeighted")));
        }
        f.push(("sources".into(), J::us(&self.sources)));
        f
    }
}

/// every subset of 0..order as an ascending source list; for order <= 3
/// also every other ordering of each subset (a later source may be an
/// out-neighbour of an earlier one, and vice versa)
fn source_sets(order: usize) -> Vec<Vec<usize>> {
    fn perms(v: &[usize]) -> Vec<Vec<usize>> {
        if v.len() <= 1 {
            return vec![v.to_vec()];
        }
        let mut out = Vec::new();
        for i in 0..v.len() {
            let mut rest = v.to_vec();
            let x = rest.remove(i);
            for mut p in perms(&rest) {
                p.insert(0, x);
                out.push(p);
            }
        }
        out
    }
    let mut all = Vec::new();
    for m in 0..1u64 << order {
        let sub: Vec<usize> = (0..order).filter(|&v| m >> v & 1 == 1).collect();
        if order <= 3 {
            all.extend(perms(&sub));
        } else {
            all.push(sub);
        }
    }
    all
}

/// source lists for the large structured digraphs
fn structured_sources(n: usize) -> Vec<Vec<usize>> {
    let mut s = vec![
        vec![0],
        vec![n - 1],
        vec![n / 2],
        // a later source is an out-neighbour of an earlier one, and the reverse
        vec![0, 1],
        vec![1, 0],
        vec![0, 1, 2],
        vec![2, 1, 0],
        vec![0, n - 1],
        vec![n - 1, 0],
        vec![n / 2, 0, n - 1],
        vec![],
    ];
    let b = boundary_ids(n);
    s.push(b.clone());
    s.push(b.iter().rev().copied().collect());
    for w in b.windows(2) {
        if w[1] == w[0] + 1 {
            s.push(vec![w[0], w[1]]);
            s.push(vec![w[1], w[0]]);
        }
    }
    // distinct sources only
    s.retain(|v| {
        let mut t = v.clone();
        t.sort_unstable();
        t.dedup();
        t.len() == v.len()
    });
    s
}

fn random_sources(rng: &mut Rng, order: usize) -> Vec<usize> {
    let mut s: Vec<usize> = match rng.below(6) {
        0 => vec![],
        1..=3 => vec![rng.below(order)],
        _ => (0..order).filter(|_| rng.chance(1, 2)).collect(),
    };
    rng.shuffle(&mut s);
    s
}

const DIJKSTRA_WEIGHTS: [i64; 4] = [0, 1, 2, 7];
const WUSIZE: &str = "AdjacencyListWeighted<usize>";

/// Large structured inputs: paths, circuits, cycles, stars and a binary tree
/// for orders around the word sizes (33, 64, 65, 70, 128, 130), in every
/// representation (Dijkstra: AdjacencyListWeighted<usize> with a weight
/// pattern over {0, 1, 2, 7}), with single and multiple sources.
fn search_structured(prop: &'static str, algo: &'static str, ctx: &mut Ctx) -> Option<J> {
    // tiny versions of the multi-source shapes first: arcs 0->1->2
    let mut shapes: Vec<(&str, usize)> = vec![("path", 3), ("circuit", 3), ("cycle", 4), ("star", 5)];
    for kind in STRUCTURED_KINDS {
        for n in BOUNDARY_ORDERS {
            shapes.push((kind, n));
        }
    }
    for (kind, n) in shapes {
        let weights: &[i64] = if algo == "dijkstra" { &DIJKSTRA_WEIGHTS } else { &[] };
        let g = structured(kind, n, weights);
        for sources in structured_sources(n) {
            let reprs: &[&str] = if algo == "dijkstra" { &[WUSIZE] } else { &ALL_REPRS };
            for repr in reprs {
                let c = Trav {
                    prop,
                    algo,
                    repr: repr.to_string(),
                    g: g.clone(),
                    sources: sources.clone(),
                };
                if let Some(f) = ctx.eval(&c) {
                    return Some(f);
                }
            }
        }
        if ctx.expired() {
            return None;
        }
    }
    None
}

fn search_unweighted(
    prop: &'static str,
    algo: &'static str,
    exhaustive_to: usize,
    random_n: usize,
    rng: &mut Rng,
    ctx: &mut Ctx,
) -> Option<J> {
    for order in 1..=exhaustive_to {
        let np = order * (order - 1);
        for mask in 0..(1u64 << np) {
            let g = g_from_mask(order, mask);
            for sources in source_sets(order) {
                for repr in ALL_REPRS {
                    let c = Trav {
                        prop,
                        algo,
                        repr: repr.to_string(),
                        g: g.clone(),
                        sources: sources.clone(),
                    };
                    if let Some(f) = ctx.eval(&c) {
                        return Some(f);
                    }
                }
            }
            if order >= 4 && ctx.expired() {
                return None;
            }
        }
    }
    if random_n > 0 {
        if let Some(f) = search_structured(prop, algo, ctx) {
            return Some(f);
        }
    }
    for i in 0..random_n {
        let order = 4 + rng.below(3);
        let g = random_g(rng, order, &[]);
        let sources = random_sources(rng, order);
        for repr in ALL_REPRS {
            let c = Trav {
                prop,
                algo,
                repr: repr.to_string(),
                g: g.clone(),
                sources: sources.clone(),
            };
            if let Some(f) = ctx.eval(&c) {
                return Some(f);
            }
        }
        if i % 64 == 0 && ctx.expired() {
            return None;
        }
    }
    None
}

/// HUGE usize weights whose simple-path sums from the sources still fit, but
/// where a non-improving arc leading back onto the path would overflow if it
/// were added unchecked, and the vertex behind the overflow-prone arc has a
/// further out-neighbour that must still be reached. Weights are kept as bit
/// patterns in the model's i64 (see `G::fields_unsigned`); the oracle sums
/// in u128.
fn huge_dijkstra_cases() -> Vec<(G, Vec<Vec<usize>>)> {
    const M: u64 = u64::MAX;
    assert_eq!(usize::MAX as u64, M, "64-bit usize expected");
    let mk = |n: usize, arcs: &[(usize, usize, u64)]| {
        let mut g = G::new(n);
        for &(u, v, w) in arcs {
            let _ = g.arcs.insert((u, v), w as i64);
        }
        g
    };
    let h = M / 2 - 100;
    vec![
        // the coordinator's example: distances [0, 10, MAX-2, MAX-1], order 0,1,2,3
        (
            mk(4, &[(0, 1, 10), (1, 2, M - 12), (2, 1, 3), (2, 3, 1)]),
            vec![vec![0], vec![0, 3], vec![3, 0]],
        ),
        // same gadget, the forward arc (head 1) listed before the back arc (head 3)
        (
            mk(4, &[(0, 3, 10), (3, 2, M - 12), (2, 3, 3), (2, 1, 1)]),
            vec![vec![0], vec![0, 1], vec![1, 0]],
        ),
        // the back arc returns to the source itself
        (mk(3, &[(0, 1, M - 5), (1, 0, 7), (1, 2, 2)]), vec![vec![0], vec![0, 2]]),
        // zero-weight arcs around the heavy one
        (
            mk(4, &[(0, 1, 0), (1, 2, M - 1), (2, 0, 5), (2, 3, 0)]),
            vec![vec![0], vec![0, 3], vec![3, 0]],
        ),
        // a direct heavy arc competes with the heavy two-step route
        (
            mk(4, &[(0, 1, 10), (0, 2, M - 3), (1, 2, M - 12), (2, 0, 9), (2, 3, 1)]),
            vec![vec![0], vec![0, 1]],
        ),
        // two gadgets chained: 10 + h + 1 + h + 1 = MAX - 188
        (
            mk(6, &[(0, 1, 10), (1, 2, h), (2, 1, M - h), (2, 3, 1), (3, 4, h), (4, 3, 1000), (4, 5, 1)]),
            vec![vec![0], vec![0, 5], vec![5, 0]],
        ),
        // chained, ids chosen so that the forward arcs are listed first
        (
            mk(6, &[(0, 5, 10), (5, 4, h), (4, 5, M - h), (4, 3, 1), (3, 2, h), (2, 3, 1000), (2, 1, 1)]),
            vec![vec![0], vec![0, 1]],
        ),
        // two sources, each in front of its own gadget (sums stay separate)
        (
            mk(7, &[(0, 1, 10), (1, 2, M - 12), (2, 1, 3), (2, 3, 1), (4, 5, M - 40), (5, 4, 50), (5, 6, 30)]),
            vec![vec![0, 4], vec![4, 0], vec![4]],
        ),
    ]
}

fn search_dijkstra(prop: &'static str, random_n: usize, rng: &mut Rng, ctx: &mut Ctx) -> Option<J> {
    for order in 1..=3usize {
        let np = order * (order - 1);
        for code in 0..5u64.pow(np as u32) {
            let g = g_from_code(order, code, &DIJKSTRA_WEIGHTS);
            for sources in source_sets(order) {
                let c = Trav {
                    prop,
                    algo: "dijkstra",
                    repr: WUSIZE.to_string(),
                    g: g.clone(),
                    sources,
                };
                if let Some(f) = ctx.eval(&c) {
                    return Some(f);
                }
            }
        }
        if ctx.expired() {
            return None;
        }
    }
    for (g, source_lists) in huge_dijkstra_cases() {
        for sources in source_lists {
            // the same precondition test that --replay applies
            if largest_simple_path_sum_unsigned(&g, &sources) >= usize::MAX as u128 {
                continue;
            }
            let c = Trav {
                prop,
                algo: "dijkstra",
                repr: WUSIZE.to_string(),
                g: g.clone(),
                sources,
            };
            if let Some(f) = ctx.eval(&c) {
                return Some(f);
            }
        }
    }
    if let Some(f) = search_structured(prop, "dijkstra", ctx) {
        return Some(f);
    }
    for i in 0..random_n {
        let order = 4 + rng.below(3);
        let g = random_g(rng, order, &DIJKSTRA_WEIGHTS);
        let sources = random_sources(rng, order);
        let c = Trav {
            prop,
            algo: "dijkstra",
            repr: WUSIZE.to_string(),
            g,
            sources,
        };
        if let Some(f) = ctx.eval(&c) {
            return Some(f);
        }
        if i % 256 == 0 && ctx.expired() {
            return None;
        }
    }
    None
}

pub fn search(prop: &str, seed: u64, ctx: &mut Ctx) -> Option<J> {
    let mut rng = Rng::new(seed);
    match prop {
        "C03" => search_dijkstra("C03", 150_000, &mut rng, ctx),
        "C04" => search_unweighted("C04", "bfs", 4, 20_000, &mut rng, ctx),
        "C05" => {
            // tiny cases of both halves first
            if let Some(f) = search_unweighted("C05", "bfs", 3, 0, &mut rng, ctx) {
                return Some(f);
            }
            if let Some(f) = search_dijkstra("C05", 40_000, &mut rng, ctx) {
                return Some(f);
            }
            // BFS half: large structured inputs, order 4 exhaustive, then
            // seeded random up to order 6
            if let Some(f) = search_structured("C05", "bfs", ctx) {
                return Some(f);
            }
            for mask in 0..(1u64 << 12) {
                let g = g_from_mask(4, mask);
                for sources in source_sets(4) {
                    for repr in ALL_REPRS {
                        let c = Trav {
                            prop: "C05",
                            algo: "bfs",
                            repr: repr.to_string(),
                            g: g.clone(),
                            sources: sources.clone(),
                        };
                        if let Some(f) = ctx.eval(&c) {
                            return Some(f);
                        }
                    }
                }
                if ctx.expired() {
                    return None;
                }
            }
            for i in 0..8_000 {
                let order = 5 + rng.below(2);
                let g = random_g(&mut rng, order, &[]);
                let sources = random_sources(&mut rng, order);
                for repr in ALL_REPRS {
                    let c = Trav {
                        prop: "C05",
                        algo: "bfs",
                        repr: repr.to_string(),
                        g: g.clone(),
                        sources: sources.clone(),
                    };
                    if let Some(f) = ctx.eval(&c) {
                        return Some(f);
                    }
                }
                if i % 64 == 0 && ctx.expired() {
                    return None;
                }
            }
            None
        }
        "C06" => search_unweighted("C06", "dfs", 4, 20_000, &mut rng, ctx),
        _ => unreachable!(),
    }
}

pub fn replay(prop: &str, j: &J) -> Result<Option<J>, String> {
    let (repr, g) = repr_and_g(j)?;
    if !g.contiguous() {
        return Err("traversals need vertex set 0..order".into());
    }
    let sources = j.req("sources")?.usizes()?;
    let mut s = sources.clone();
    s.sort_unstable();
    s.dedup();
    if s.len() != sources.len() || sources.iter().any(|&x| x >= g.order()) {
        return Err("sources must be distinct and in range".into());
    }
    let (prop, algo): (&'static str, &'static str) = match prop {
        "C03" => ("C03", "dijkstra"),
        "C04" => ("C04", "bfs"),
        "C06" => ("C06", "dfs"),
        _ => (
            "C05",
            match j.get("algorithm").map(J::str).transpose()? {
                Some("dijkstra") => "dijkstra",
                Some("bfs") => "bfs",
                None if repr == WUSIZE => "dijkstra",
                None => "bfs",
                Some(o) => return Err(format!("unknown algorithm {o}")),
            },
        ),
    };
    if algo == "dijkstra" {
        if repr != WUSIZE {
            return Err(format!("Dijkstra needs {WUSIZE}"));
        }
        // precondition of C03 / C05: every simple-path sum from a source fits
        // in usize (and stays below the "unreachable" sentinel usize::MAX).
        // Cheap sufficient test first, exact enumeration for small orders.
        let total: u128 = g.arcs.values().map(|&w| w as u64 as u128).sum();
        if total >= usize::MAX as u128 {
            if g.order() > 10 {
                return Err("huge weights are only replayed up to order 10 (exact path-sum check)".into());
            }
            if largest_simple_path_sum_unsigned(&g, &sources) >= usize::MAX as u128 {
                return Err("simple-path sums from the sources must stay below usize::MAX".into());
            }
        }
    }
    Ok(crate::eval_case(&Trav {
        prop,
        algo,
        repr,
        g,
        sources,
    }))
}
