//! Plain-data model of a digraph (V, A, w), the representation abstraction
//! used by the generic checks, brute-force reference algorithms and a seeded
//! PRNG. Nothing in the reference half calls into graaf.

use {
    crate::json::J,
    graaf::*,
    std::{
        cell::Cell,
        collections::{
            BTreeMap,
            BTreeSet,
        },
        fmt::Debug,
        hash::Hash,
        panic::{
            catch_unwind,
            AssertUnwindSafe,
        },
    },
};

/// A far-out vertex id, never inside any fixed-order digraph we build.
pub const FAR: usize = 1_000_003;

// ---------------------------------------------------------------- PRNG ----

/// splitmix64
#[derive(Clone, Debug)]
pub struct Rng(pub u64);

impl Rng {
    pub fn new(seed: u64) -> Self {
        Rng(seed ^ 0x5DEE_CE66_D1CE_4E5B)
    }

    pub fn next(&mut self) -> u64 {
        self.0 = self.0.wrapping_add(0x9E37_79B9_7F4A_7C15);
        let mut z = self.0;
        z = (z ^ (z >> 30)).wrapping_mul(0xBF58_476D_1CE4_E5B9);
        z = (z ^ (z >> 27)).wrapping_mul(0x94D0_49BB_1331_11EB);
        z ^ (z >> 31)
    }

    pub fn below(&mut self, n: usize) -> usize {
        if n == 0 {
            0
        } else {
            (self.next() % n as u64) as usize
        }
    }

    /// true with probability num/den
    pub fn chance(&mut self, num: usize, den: usize) -> bool {
        self.below(den) < num
    }

    pub fn pick<T: Copy>(&mut self, s: &[T]) -> T {
        s[self.below(s.len())]
    }

    pub fn shuffle<T>(&mut self, v: &mut [T]) {
        for i in (1..v.len()).rev() {
            let j = self.below(i + 1);
            v.swap(i, j);
        }
    }
}

// ------------------------------------------------------------- failures ----

#[derive(Clone, Debug)]
pub struct Fail {
    pub func: String,
    pub check: String,
    pub expected: String,
    pub actual: String,
}

pub type R = Result<(), Fail>;

thread_local! {
    static CUR: Cell<&'static str> = const { Cell::new("") };
}

/// the label most recently set by any thread, readable by the watchdog
static CUR_GLOBAL: std::sync::Mutex<&'static str> = std::sync::Mutex::new("");

/// Record which library function is being exercised (used for the report).
pub fn at(f: &'static str) {
    CUR.with(|c| c.set(f));
    *CUR_GLOBAL.lock().unwrap_or_else(|e| e.into_inner()) = f;
}

/// which observation of `same` / `same_probed` is running (for the watchdog)
static PHASE: std::sync::Mutex<&'static str> = std::sync::Mutex::new("");

pub fn phase(p: &'static str) {
    *PHASE.lock().unwrap_or_else(|e| e.into_inner()) = p;
}

pub fn phase_global() -> &'static str {
    *PHASE.lock().unwrap_or_else(|e| e.into_inner())
}

pub fn cur_global() -> &'static str {
    *CUR_GLOBAL.lock().unwrap_or_else(|e| e.into_inner())
}

pub fn cur() -> &'static str {
    CUR.with(Cell::get)
}

pub fn mk_fail(check: &str, expected: String, actual: String) -> Fail {
    Fail {
        func: cur().to_string(),
        check: check.to_string(),
        expected,
        actual,
    }
}

fn panic_msg(p: &(dyn std::any::Any + Send)) -> String {
    if let Some(s) = p.downcast_ref::<&str>() {
        (*s).to_string()
    } else if let Some(s) = p.downcast_ref::<String>() {
        s.clone()
    } else {
        "<non-string panic payload>".to_string()
    }
}

/// Run a whole case; a library panic on valid input is a violation.
pub fn guarded<F: FnOnce() -> R>(f: F) -> R {
    match catch_unwind(AssertUnwindSafe(f)) {
        Ok(r) => r,
        Err(p) => Err(mk_fail(
            "the call returns without panicking on this valid input",
            "no panic".to_string(),
            format!("panicked: {}", panic_msg(&*p)),
        )),
    }
}

/// Does the call panic?
pub fn panics<T, F: FnOnce() -> T>(f: F) -> bool {
    catch_unwind(AssertUnwindSafe(|| {
        let _ = f();
    }))
    .is_err()
}

// ---------------------------------------------------------------- model ----

#[derive(Clone, Debug, PartialEq, Eq, PartialOrd, Ord)]
pub struct G {
    pub verts: BTreeSet<usize>,
    pub arcs: BTreeMap<(usize, usize), i64>,
}

impl G {
    pub fn new(order: usize) -> G {
        G {
            verts: (0..order).collect(),
            arcs: BTreeMap::new(),
        }
    }

    pub fn order(&self) -> usize {
        self.verts.len()
    }

    pub fn size(&self) -> usize {
        self.arcs.len()
    }

    pub fn contiguous(&self) -> bool {
        self.verts.iter().copied().eq(0..self.verts.len())
    }

    pub fn has(&self, u: usize, v: usize) -> bool {
        self.arcs.contains_key(&(u, v))
    }

    pub fn w(&self, u: usize, v: usize) -> Option<i64> {
        self.arcs.get(&(u, v)).copied()
    }

    pub fn add(&mut self, u: usize, v: usize, w: i64) {
        let _ = self.verts.insert(u);
        let _ = self.verts.insert(v);
        let _ = self.arcs.insert((u, v), w);
    }

    pub fn out(&self, u: usize) -> Vec<usize> {
        self.arcs
            .range((u, 0)..=(u, usize::MAX))
            .map(|(&(_, v), _)| v)
            .collect()
    }

    pub fn inn(&self, v: usize) -> Vec<usize> {
        self.arcs
            .keys()
            .filter(|&&(_, y)| y == v)
            .map(|&(x, _)| x)
            .collect()
    }

    pub fn arc_list(&self) -> Vec<(usize, usize)> {
        self.arcs.keys().copied().collect()
    }

    pub fn warc_list(&self) -> Vec<(usize, usize, i64)> {
        self.arcs.iter().map(|(&(u, v), &w)| (u, v, w)).collect()
    }

    pub fn vlist(&self) -> Vec<usize> {
        self.verts.iter().copied().collect()
    }

    pub fn max_id(&self) -> usize {
        self.verts.iter().next_back().copied().unwrap_or(0)
    }

    /// ids used to probe total queries: every vertex plus ids outside V
    pub fn probes(&self) -> Vec<usize> {
        let mut p = self.vlist();
        let m = self.max_id();
        for x in [m.wrapping_add(1), m.wrapping_add(2), FAR, usize::MAX] {
            if !self.verts.contains(&x) && !p.contains(&x) {
                p.push(x);
            }
        }
        p
    }

    pub fn fields(&self, weighted: bool) -> Vec<(String, J)> {
        let mut f = vec![("order".to_string(), J::u(self.order()))];
        if !self.contiguous() {
            f.push(("vertices".to_string(), J::us(&self.vlist())));
        }
        f.push((
            "arcs".to_string(),
            J::Arr(
                self.arcs
                    .iter()
                    .map(|(&(u, v), &w)| {
                        if weighted {
                            J::Arr(vec![J::u(u), J::u(v), J::n(w)])
                        } else {
                            J::Arr(vec![J::u(u), J::u(v)])
                        }
                    })
                    .collect(),
            ),
        ));
        f
    }

    /// like `fields(true)` for AdjacencyListWeighted<usize>: the model keeps
    /// weights in an i64, a usize weight above i64::MAX is stored as its
    /// two's complement bit pattern (`w as i64`) and printed here as unsigned
    pub fn fields_unsigned(&self) -> Vec<(String, J)> {
        let mut f = self.fields(true);
        if let Some((_, J::Arr(arcs))) = f.iter_mut().find(|(k, _)| k == "arcs") {
            for a in arcs {
                if let J::Arr(t) = a {
                    if let Some(J::Num(w)) = t.get_mut(2) {
                        *w = (*w as i64) as u64 as i128;
                    }
                }
            }
        }
        f
    }

    pub fn json(&self, weighted: bool) -> J {
        J::Obj(self.fields(weighted))
    }

    pub fn from_json(j: &J) -> Result<G, String> {
        let order = j.req("order")?.usize()?;
        let mut g = match j.get("vertices") {
            Some(v) => G {
                verts: v.usizes()?.into_iter().collect(),
                arcs: BTreeMap::new(),
            },
            None => G::new(order),
        };
        for a in j.req("arcs")?.arr()? {
            let a = a.arr()?;
            if a.len() < 2 {
                return Err("arc needs [u, v] or [u, v, w]".into());
            }
            // weights above i64::MAX (usize weights) keep their bit pattern
            let w = if a.len() > 2 {
                let n = a[2].i128()?;
                if n >= i64::MIN as i128 && n <= i64::MAX as i128 {
                    n as i64
                } else if n > 0 && n <= u64::MAX as i128 {
                    n as u64 as i64
                } else {
                    return Err(format!("weight {n} does not fit in 64 bits"));
                }
            } else {
                1
            };
            let (u, v) = (a[0].usize()?, a[1].usize()?);
            if u == v || !g.verts.contains(&u) || !g.verts.contains(&v) {
                return Err(format!("arc {u}->{v} is not valid for the vertex set"));
            }
            let _ = g.arcs.insert((u, v), w);
        }
        Ok(g)
    }
}

/// the defining arc set of a start digraph (see `Dg::make`)
pub fn make_model(kind: &str, order: usize) -> G {
    let mut g = G::new(order);
    for (u, v) in pairs(order) {
        let yes = match kind {
            "empty" => false,
            "complete" => true,
            "circuit" => v == (u + 1) % order,
            "cycle" => v == (u + 1) % order || u == (v + 1) % order,
            other => panic!("unknown constructor {other}"),
        };
        if yes {
            let _ = g.arcs.insert((u, v), 1);
        }
    }
    g
}

/// all ordered pairs u != v over 0..order, lexicographic
pub fn pairs(order: usize) -> Vec<(usize, usize)> {
    let mut p = Vec::new();
    for u in 0..order {
        for v in 0..order {
            if u != v {
                p.push((u, v));
            }
        }
    }
    p
}

/// digraph of `order` whose arc set is selected by `mask` over `pairs(order)`
pub fn g_from_mask(order: usize, mask: u64) -> G {
    let mut g = G::new(order);
    for (i, &(u, v)) in pairs(order).iter().enumerate() {
        if mask >> i & 1 == 1 {
            let _ = g.arcs.insert((u, v), 1);
        }
    }
    g
}

/// digraph of `order`, digit i of `code` in base (weights.len() + 1) selects
/// "absent" (0) or a weight for pair i
pub fn g_from_code(order: usize, mut code: u64, weights: &[i64]) -> G {
    let b = weights.len() as u64 + 1;
    let mut g = G::new(order);
    for &(u, v) in &pairs(order) {
        let d = (code % b) as usize;
        code /= b;
        if d > 0 {
            let _ = g.arcs.insert((u, v), weights[d - 1]);
        }
    }
    g
}

pub fn random_g(rng: &mut Rng, order: usize, weights: &[i64]) -> G {
    let mut g = G::new(order);
    // density from sparse to dense
    let den = 1 + rng.below(4);
    for (u, v) in pairs(order) {
        if rng.chance(den, 5) {
            let w = if weights.is_empty() {
                1
            } else {
                rng.pick(weights)
            };
            let _ = g.arcs.insert((u, v), w);
        }
    }
    g
}

/// random digraph with exactly `m` arcs (m <= order * (order - 1))
pub fn random_g_m(rng: &mut Rng, order: usize, m: usize, weights: &[i64]) -> G {
    let mut p = pairs(order);
    rng.shuffle(&mut p);
    let mut g = G::new(order);
    for &(u, v) in p.iter().take(m) {
        let _ = g.arcs.insert((u, v), rng.pick(weights));
    }
    g
}

/// a digraph whose vertex set contains 0 but is not 0..order (only
/// AdjacencyMap can hold it)
pub fn random_noncontiguous_g(rng: &mut Rng, weights: &[i64]) -> G {
    let k = 2 + rng.below(4);
    let mut ids = vec![0usize];
    while ids.len() < k {
        let x = match rng.below(4) {
            0 => 1 + rng.below(3),
            1 => 5 + rng.below(6),
            2 => 60 + rng.below(10),
            _ => FAR + rng.below(3),
        };
        if !ids.contains(&x) {
            ids.push(x);
        }
    }
    ids.sort_unstable();
    if ids.iter().copied().eq(0..ids.len()) {
        let last = ids.len() - 1;
        ids[last] += 7;
    }
    let mut g = G {
        verts: ids.iter().copied().collect(),
        arcs: BTreeMap::new(),
    };
    let den = 1 + rng.below(4);
    for &u in &ids {
        for &v in &ids {
            if u != v && rng.chance(den, 5) {
                let w = if weights.is_empty() {
                    1
                } else {
                    rng.pick(weights)
                };
                let _ = g.arcs.insert((u, v), w);
            }
        }
    }
    g
}

// ------------------------------------------------ reference algorithms ----

/// hop distance from the nearest source, by repeated relaxation over the arc
/// set; usize::MAX = unreachable. Requires vertex set 0..order.
pub fn hop_dist(g: &G, src: &[usize]) -> Vec<usize> {
    let n = g.order();
    let mut d = vec![usize::MAX; n];
    for &s in src {
        d[s] = 0;
    }
    loop {
        let mut ch = false;
        for &(u, v) in g.arcs.keys() {
            if d[u] != usize::MAX && d[u] + 1 < d[v] {
                d[v] = d[u] + 1;
                ch = true;
            }
        }
        if !ch {
            return d;
        }
    }
}

/// weighted distance from the nearest source for non-negative weights, by
/// repeated relaxation; None = unreachable.
pub fn relax_dist(g: &G, src: &[usize]) -> Vec<Option<u128>> {
    let n = g.order();
    let mut d: Vec<Option<u128>> = vec![None; n];
    for &s in src {
        d[s] = Some(0);
    }
    loop {
        let mut ch = false;
        for (&(u, v), &w) in &g.arcs {
            if let Some(du) = d[u] {
                // usize weights: the i64 holds the bit pattern
                let c = du + w as u64 as u128;
                if d[v].is_none_or(|dv| c < dv) {
                    d[v] = Some(c);
                    ch = true;
                }
            }
        }
        if !ch {
            return d;
        }
    }
}

/// the largest weight of a simple path starting at one of `src` (usize
/// weights, summed in u128): the "path sums fit in usize" precondition of
/// C03 / C05
pub fn largest_simple_path_sum_unsigned(g: &G, src: &[usize]) -> u128 {
    fn go(g: &G, v: usize, acc: u128, on: &mut Vec<bool>, m: &mut u128) {
        *m = (*m).max(acc);
        for x in g.out(v) {
            if !on[x] {
                on[x] = true;
                go(g, x, acc + g.w(v, x).unwrap() as u64 as u128, on, m);
                on[x] = false;
            }
        }
    }
    let mut m = 0;
    for &s in src {
        let mut on = vec![false; g.order()];
        on[s] = true;
        go(g, s, 0, &mut on, &mut m);
    }
    m
}

/// Brute force over all simple paths from `s`: (a negative circuit is
/// reachable from s, minimum simple-path weight to every vertex).
/// When no negative circuit is reachable the minimum walk weight equals the
/// minimum simple-path weight.
pub fn simple_path_oracle(g: &G, s: usize) -> (bool, Vec<Option<i128>>) {
    fn go(
        g: &G,
        v: usize,
        acc: i128,
        path: &mut Vec<(usize, i128)>,
        on: &mut Vec<bool>,
        best: &mut Vec<Option<i128>>,
        neg: &mut bool,
        extreme: &mut i128,
    ) {
        if best[v].is_none_or(|b| acc < b) {
            best[v] = Some(acc);
        }
        for x in g.out(v) {
            let w = g.w(v, x).unwrap() as i128;
            *extreme = (*extreme).max((acc + w).abs());
            if on[x] {
                // circuit x .. v -> x ; prefix weight at x is stored in path
                let at_x = path.iter().find(|p| p.0 == x).unwrap().1;
                if acc + w - at_x < 0 {
                    *neg = true;
                }
            } else {
                on[x] = true;
                path.push((x, acc + w));
                go(g, x, acc + w, path, on, best, neg, extreme);
                let _ = path.pop();
                on[x] = false;
            }
        }
    }
    let n = g.order();
    let mut best = vec![None; n];
    let mut on = vec![false; n];
    let mut neg = false;
    on[s] = true;
    let mut path = vec![(s, 0)];
    let mut extreme = 0;
    go(g, s, 0, &mut path, &mut on, &mut best, &mut neg, &mut extreme);
    EXTREME.with(|e| e.set(extreme));
    (neg, best)
}

thread_local! {
    static EXTREME: Cell<i128> = const { Cell::new(0) };
}

/// the largest |sum| along any simple path or circuit from any source: the
/// "path sums fit in isize" precondition of C07 / C08
pub fn largest_path_sum(g: &G) -> i128 {
    let mut m = 0;
    for s in 0..g.order() {
        let _ = simple_path_oracle(g, s);
        m = m.max(EXTREME.with(Cell::get));
    }
    m
}

/// Large structured digraphs (word-size boundaries hide behind ids 31/32/33,
/// 63/64/65, 127/128). `weights` empty = unweighted (weight 1), otherwise a
/// deterministic pattern over the given weights.
///   path: i -> i+1        revpath: i+1 -> i      circuit: i -> (i+1) mod n
///   cycle: circuit + reverses     star: 0 <-> i     outstar: 0 -> i
///   bintree: i -> 2i+1, 2i+2
pub fn structured(kind: &str, n: usize, weights: &[i64]) -> G {
    let mut g = G::new(n);
    let mut put = |u: usize, v: usize| {
        if u != v && u < n && v < n {
            let w = if weights.is_empty() {
                1
            } else {
                weights[(u * 7 + v * 3 + u / 5) % weights.len()]
            };
            let _ = g.arcs.insert((u, v), w);
        }
    };
    for i in 0..n {
        match kind {
            "path" => put(i, i + 1),
            "revpath" => put(i + 1, i),
            "circuit" => put(i, (i + 1) % n),
            "cycle" => {
                put(i, (i + 1) % n);
                put((i + 1) % n, i);
            }
            "star" => {
                put(0, i);
                put(i, 0);
            }
            "outstar" => put(0, i),
            "bintree" => {
                put(i, 2 * i + 1);
                put(i, 2 * i + 2);
            }
            other => panic!("unknown structured digraph {other}"),
        }
    }
    g
}

pub const STRUCTURED_KINDS: [&str; 7] =
    ["path", "revpath", "circuit", "cycle", "star", "outstar", "bintree"];
pub const BOUNDARY_ORDERS: [usize; 6] = [33, 64, 65, 70, 128, 130];

/// Orders above the worker-thread count and not a multiple of the chunk size:
/// AdjacencyList::{is_semicomplete, complement, union, degree_sequence,
/// complete} and AdjacencyMap::union chunk their rows by
/// available_parallelism().
pub const THREAD_ORDERS: [usize; 9] = [17, 18, 19, 31, 33, 35, 50, 67, 130];

/// the transitive tournament u -> v for u < v, with every `flip`-th arc
/// (in lexicographic order) reversed
pub fn tournament(n: usize, flip: usize) -> G {
    let mut g = G::new(n);
    let mut i = 0usize;
    for u in 0..n {
        for v in u + 1..n {
            i += 1;
            if flip > 0 && i % flip == 0 {
                let _ = g.arcs.insert((v, u), 1);
            } else {
                let _ = g.arcs.insert((u, v), 1);
            }
        }
    }
    g
}

/// the arcs (u, v) of a bit matrix of this order whose cell u * order + v is
/// bit 63 of its 64-bit block (order 9: (7, 0); order 64: (k, 63) for every k)
pub fn bit63_arcs(order: usize) -> Vec<(usize, usize)> {
    (0..)
        .map(|k| 64 * k + 63)
        .take_while(|&i| i < order * order)
        .map(|i| (i / order, i % order))
        .filter(|&(u, v)| u != v)
        .collect()
}

/// ids next to word-size boundaries that exist in 0..n, plus both ends
pub fn boundary_ids(n: usize) -> Vec<usize> {
    let mut v: Vec<usize> = [0, 1, 2, 31, 32, 33, 63, 64, 65, 127, 128, 129]
        .into_iter()
        .filter(|&x| x < n)
        .collect();
    for x in [n / 2, n.saturating_sub(2), n.saturating_sub(1)] {
        if x < n && !v.contains(&x) {
            v.push(x);
        }
    }
    v.sort_unstable();
    v
}

// ------------------------------------------- representation abstraction ----

/// Everything the five representations have in common. The traits with
/// blanket impls in graaf (Degree, IsBalanced, IsSymmetric, Sinks, ...)
/// follow from these bounds.
pub trait Dg:
    Clone
    + Eq
    + Ord
    + Hash
    + Debug
    + Order
    + Size
    + Arcs
    + Vertices
    + HasArc
    + HasEdge
    + HasWalk
    + OutNeighbors
    + InNeighbors
    + Indegree
    + Outdegree
    + RemoveArc
    + DegreeSequence
    + IndegreeSequence
    + IsComplete
    + IsRegular
    + IsSemicomplete
    + IsSimple
    + IsTournament
    + Converse
{
    const NAME: &'static str;
    const WEIGHTED: bool;
    /// add_arc admits new vertices (AdjacencyMap)
    const GROWS: bool;
    fn new_empty(order: usize) -> Self;
    /// a start digraph from a public constructor: "empty" for every
    /// representation, "complete" / "cycle" / "circuit" for the unweighted
    fn make(kind: &str, order: usize) -> Self {
        assert_eq!(kind, "empty", "{} has no constructor {kind}", Self::NAME);
        Self::new_empty(order)
    }
    /// add_arc / add_arc_weighted
    fn add(&mut self, u: usize, v: usize, w: i64);
    /// arc_weight (weighted) / has_arc (unweighted, weight 1)
    fn weight(&self, u: usize, v: usize) -> Option<i64>;
    fn weighted_arcs(&self) -> Vec<(usize, usize, i64)>;
    fn weighted_out(&self, u: usize) -> Vec<(usize, i64)>;
    fn toggle_arc(&mut self, _u: usize, _v: usize) {
        unreachable!("toggle is AdjacencyMatrix only")
    }
    /// a deterministic generator (unweighted representations)
    fn from_gen(_gen: &str, _a: usize, _b: usize) -> Self {
        unreachable!("{} has no generators", Self::NAME)
    }
    /// From<iterator of arcs> (AdjacencyMatrix, EdgeList)
    fn from_arc_iter(_arcs: &[(usize, usize)]) -> Self {
        unreachable!("{} is not built from arcs", Self::NAME)
    }
    /// From<iterator of rows> (AdjacencyList, AdjacencyMap, weighted)
    fn from_row_iter(_rows: &[Vec<(usize, i64)>]) -> Self {
        unreachable!("{} is not built from rows", Self::NAME)
    }
    /// Self::from(Via::from(self)) for another unweighted representation
    fn round_trip(self, _via: &str) -> Self {
        unreachable!("{} has no conversions back", Self::NAME)
    }

    /// Build the digraph through the public API: empty(k) for the largest
    /// prefix 0..k of V, then add_arc; isolated vertices outside the prefix
    /// (AdjacencyMap only) are admitted by adding and removing an arc 0 -> v.
    fn build(g: &G) -> Self {
        let mut k = 0;
        while g.verts.contains(&k) {
            k += 1;
        }
        assert!(k >= 1, "model digraphs always contain vertex 0");
        assert!(Self::GROWS || k == g.order(), "non-contiguous needs AdjacencyMap");
        let mut d = Self::new_empty(k);
        for (&(u, v), &w) in &g.arcs {
            d.add(u, v, w);
        }
        if Self::GROWS {
            for &v in &g.verts {
                if v >= k && g.out(v).is_empty() && g.inn(v).is_empty() {
                    d.add(0, v, 1);
                    let _ = d.remove_arc(0, v);
                }
            }
        }
        d
    }
}

macro_rules! impl_dg_unweighted {
    ($t:ty, $name:expr, $grows:expr, { $($extra:tt)* }) => {
        impl Dg for $t {
            const NAME: &'static str = $name;
            const WEIGHTED: bool = false;
            const GROWS: bool = $grows;
            $($extra)*
            fn new_empty(order: usize) -> Self {
                <$t as Empty>::empty(order)
            }
            fn make(kind: &str, order: usize) -> Self {
                match kind {
                    "empty" => <$t as Empty>::empty(order),
                    "complete" => <$t as Complete>::complete(order),
                    "cycle" => <$t as Cycle>::cycle(order),
                    "circuit" => <$t as Circuit>::circuit(order),
                    other => panic!("unknown constructor {other}"),
                }
            }
            fn add(&mut self, u: usize, v: usize, _w: i64) {
                self.add_arc(u, v);
            }
            fn from_gen(gen: &str, a: usize, b: usize) -> Self {
                match gen {
                    "empty" => <$t as Empty>::empty(a),
                    "trivial" => <$t as Empty>::trivial(),
                    "complete" => <$t as Complete>::complete(a),
                    "circuit" => <$t as Circuit>::circuit(a),
                    "cycle" => <$t as Cycle>::cycle(a),
                    "path" => <$t as Path>::path(a),
                    "star" => <$t as Star>::star(a),
                    "wheel" => <$t as Wheel>::wheel(a),
                    "biclique" => <$t as Biclique>::biclique(a, b),
                    "claw" => <$t as Biclique>::claw(),
                    "utility" => <$t as Biclique>::utility(),
                    other => panic!("unknown generator {other}"),
                }
            }
            fn weight(&self, u: usize, v: usize) -> Option<i64> {
                if self.has_arc(u, v) { Some(1) } else { None }
            }
            fn weighted_arcs(&self) -> Vec<(usize, usize, i64)> {
                self.arcs().map(|(u, v)| (u, v, 1)).collect()
            }
            fn weighted_out(&self, u: usize) -> Vec<(usize, i64)> {
                self.out_neighbors(u).map(|v| (v, 1)).collect()
            }
        }
    };
}

macro_rules! round_trip_via {
    ($($name:expr => $via:ty),*) => {
        fn round_trip(self, via: &str) -> Self {
            match via {
                $($name => Self::from(<$via>::from(self)),)*
                other => panic!("no conversion through {other}"),
            }
        }
    };
}

macro_rules! from_set_rows {
    () => {
        fn from_row_iter(rows: &[Vec<(usize, i64)>]) -> Self {
            Self::from(
                rows.iter()
                    .map(|r| r.iter().map(|x| x.0).collect::<BTreeSet<usize>>())
                    .collect::<Vec<_>>(),
            )
        }
    };
}

macro_rules! from_arc_list {
    () => {
        fn from_arc_iter(arcs: &[(usize, usize)]) -> Self {
            Self::from(arcs.iter().copied())
        }
    };
}

impl_dg_unweighted!(AdjacencyList, "AdjacencyList", false, {
    from_set_rows!();
    round_trip_via!("AdjacencyMap" => AdjacencyMap, "AdjacencyMatrix" => AdjacencyMatrix, "EdgeList" => EdgeList);
});
impl_dg_unweighted!(AdjacencyMap, "AdjacencyMap", true, {
    from_set_rows!();
    round_trip_via!("AdjacencyList" => AdjacencyList, "AdjacencyMatrix" => AdjacencyMatrix, "EdgeList" => EdgeList);
});
impl_dg_unweighted!(EdgeList, "EdgeList", false, {
    from_arc_list!();
    round_trip_via!("AdjacencyList" => AdjacencyList, "AdjacencyMap" => AdjacencyMap, "AdjacencyMatrix" => AdjacencyMatrix);
});
impl_dg_unweighted!(AdjacencyMatrix, "AdjacencyMatrix", false, {
    fn toggle_arc(&mut self, u: usize, v: usize) {
        self.toggle(u, v);
    }
    from_arc_list!();
    round_trip_via!("AdjacencyList" => AdjacencyList, "AdjacencyMap" => AdjacencyMap, "EdgeList" => EdgeList);
});

macro_rules! impl_dg_weighted {
    ($w:ty, $name:expr) => {
        impl Dg for AdjacencyListWeighted<$w> {
            const NAME: &'static str = $name;
            const WEIGHTED: bool = true;
            const GROWS: bool = false;
            fn new_empty(order: usize) -> Self {
                <Self as Empty>::empty(order)
            }
            fn add(&mut self, u: usize, v: usize, w: i64) {
                self.add_arc_weighted(u, v, w as $w);
            }
            fn from_row_iter(rows: &[Vec<(usize, i64)>]) -> Self {
                Self::from(
                    rows.iter()
                        .map(|r| r.iter().map(|&(v, w)| (v, w as $w)).collect::<BTreeMap<usize, $w>>())
                        .collect::<Vec<_>>(),
                )
            }
            fn weight(&self, u: usize, v: usize) -> Option<i64> {
                self.arc_weight(u, v).map(|&w| w as i64)
            }
            fn weighted_arcs(&self) -> Vec<(usize, usize, i64)> {
                self.arcs_weighted().map(|(u, v, &w)| (u, v, w as i64)).collect()
            }
            fn weighted_out(&self, u: usize) -> Vec<(usize, i64)> {
                self.out_neighbors_weighted(u).map(|(v, &w)| (v, w as i64)).collect()
            }
        }
    };
}

impl_dg_weighted!(usize, "AdjacencyListWeighted<usize>");
impl_dg_weighted!(isize, "AdjacencyListWeighted<isize>");

/// The four unweighted representations: generators and set operations.
pub trait Dgu:
    Dg
    + AddArc
    + Complement
    + Union
    + Biclique
    + Circuit
    + Complete
    + Cycle
    + Empty
    + ErdosRenyi
    + Path
    + RandomRecursiveTree
    + RandomTournament
    + Star
    + Wheel
{
}

impl Dgu for AdjacencyList {}
impl Dgu for AdjacencyMap {}
impl Dgu for AdjacencyMatrix {}
impl Dgu for EdgeList {}

pub const UNWEIGHTED: [&str; 4] =
    ["AdjacencyList", "AdjacencyMap", "AdjacencyMatrix", "EdgeList"];
pub const ALL_REPRS: [&str; 6] = [
    "AdjacencyList",
    "AdjacencyMap",
    "AdjacencyMatrix",
    "EdgeList",
    "AdjacencyListWeighted<usize>",
    "AdjacencyListWeighted<isize>",
];

/// call a generic function `f::<D>(args)` for the representation named `$name`
#[macro_export]
macro_rules! with_repr {
    ($name:expr, $f:ident ( $($a:expr),* )) => {
        match $name {
            "AdjacencyList" => $f::<graaf::AdjacencyList>($($a),*),
            "AdjacencyMap" => $f::<graaf::AdjacencyMap>($($a),*),
            "AdjacencyMatrix" => $f::<graaf::AdjacencyMatrix>($($a),*),
            "EdgeList" => $f::<graaf::EdgeList>($($a),*),
            "AdjacencyListWeighted<usize>" => $f::<graaf::AdjacencyListWeighted<usize>>($($a),*),
            "AdjacencyListWeighted<isize>" => $f::<graaf::AdjacencyListWeighted<isize>>($($a),*),
            other => panic!("unknown representation {other}"),
        }
    };
}

#[macro_export]
macro_rules! with_urepr {
    ($name:expr, $f:ident ( $($a:expr),* )) => {
        match $name {
            "AdjacencyList" => $f::<graaf::AdjacencyList>($($a),*),
            "AdjacencyMap" => $f::<graaf::AdjacencyMap>($($a),*),
            "AdjacencyMatrix" => $f::<graaf::AdjacencyMatrix>($($a),*),
            "EdgeList" => $f::<graaf::EdgeList>($($a),*),
            other => panic!("unknown unweighted representation {other}"),
        }
    };
}

pub fn known_repr(name: &str) -> Result<(), String> {
    if ALL_REPRS.contains(&name) {
        Ok(())
    } else {
        Err(format!("unknown representation {name:?}"))
    }
}

/// The observable digraph equals the model: order, vertices() and arcs()
/// each exactly once in ascending order, and the arc weights.
pub fn same<D: Dg>(d: &D, g: &G, what: &str) -> R {
    let r = same_inner(d, g, what);
    phase("");
    r
}

fn same_inner<D: Dg>(d: &D, g: &G, what: &str) -> R {
    phase("Order::order");
    let order = d.order();
    if order != g.order() {
        return Err(mk_fail(
            &format!("{what}: order() equals |V|"),
            format!("{}", g.order()),
            format!("{order}"),
        ));
    }
    phase("Vertices::vertices");
    let vs: Vec<usize> = d.vertices().take(g.order() + 8).collect();
    if vs != g.vlist() {
        return Err(mk_fail(
            &format!("{what}: vertices() lists V once each, ascending"),
            format!("{:?}", g.vlist()),
            format!("{vs:?}"),
        ));
    }
    phase("Arcs::arcs");
    let arcs: Vec<(usize, usize)> = d.arcs().take(g.size() + 8).collect();
    if arcs != g.arc_list() {
        return Err(mk_fail(
            &format!("{what}: arcs() lists A once each, ascending lexicographic"),
            format!("{:?}", g.arc_list()),
            format!("{arcs:?}"),
        ));
    }
    phase("Size::size");
    let size = d.size();
    if size != g.size() {
        return Err(mk_fail(
            &format!("{what}: size() equals |A|"),
            format!("{}", g.size()),
            format!("{size}"),
        ));
    }
    if D::WEIGHTED {
        phase("ArcsWeighted::arcs_weighted");
        let wa = d.weighted_arcs();
        if wa != g.warc_list() {
            return Err(mk_fail(
                &format!("{what}: arcs_weighted() lists (u, v, w(u,v)) ascending"),
                format!("{:?}", g.warc_list()),
                format!("{wa:?}"),
            ));
        }
    }
    Ok(())
}

/// `same` plus has_arc on pairs of ids next to word-size boundaries and just
/// outside V (for large orders, where probing every pair is too slow)
pub fn same_sampled<D: Dg>(d: &D, g: &G, what: &str) -> R {
    same(d, g, what)?;
    let n = g.order();
    let mut ids = boundary_ids(n);
    ids.extend([n, n + 1, FAR]);
    for &u in &ids {
        for &v in &ids {
            let e = g.has(u, v);
            let a = d.has_arc(u, v);
            if e != a {
                return Err(mk_fail(
                    &format!("{what}: has_arc({u}, {v}) iff the arc is in A"),
                    format!("{e}"),
                    format!("{a}"),
                ));
            }
        }
    }
    Ok(())
}

/// `same` plus has_arc / arc_weight on every probe pair (ids outside V too)
pub fn same_probed<D: Dg>(d: &D, g: &G, what: &str) -> R {
    same(d, g, what)?;
    let probes = g.probes();
    for &u in &probes {
        for &v in &probes {
            let e = g.has(u, v);
            let a = d.has_arc(u, v);
            if e != a {
                return Err(mk_fail(
                    &format!("{what}: has_arc({u}, {v}) iff the arc is in A"),
                    format!("{e}"),
                    format!("{a}"),
                ));
            }
            if D::WEIGHTED {
                let e = g.w(u, v);
                let a = d.weight(u, v);
                if e != a {
                    return Err(mk_fail(
                        &format!("{what}: arc_weight({u}, {v}) is w(u,v)"),
                        format!("{e:?}"),
                        format!("{a:?}"),
                    ));
                }
            }
        }
    }
    Ok(())
}
