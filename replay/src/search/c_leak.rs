//! C13 (bounded stand-in, leak half): "Every operation releases all memory it
//! allocated except what its return value owns, so repeating a call does not
//! grow the heap."
//!
//! The searcher binary runs under a counting global allocator (LIVE = bytes
//! allocated and not yet freed, all threads). For one operation on one input:
//! call it once (warm-up: lazily initialised statics), then record LIVE, call
//! it `REPEAT` more times dropping each result, and compare LIVE again. The
//! operand digraphs are built before the first reading and dropped after the
//! second. The only other thread of the process (the hang watchdog) does not
//! allocate in its loop; worker threads an operation spawns are joined by the
//! operation itself, so their allocations are settled when it returns.

use {
    crate::{
        c_repr::repr_and_g,
        json::J,
        model::*,
        Case,
        Ctx,
    },
    graaf::*,
    std::{
        alloc::{
            GlobalAlloc,
            Layout,
            System,
        },
        sync::atomic::{
            AtomicIsize,
            Ordering,
        },
    },
};

pub struct Counting;

pub static LIVE: AtomicIsize = AtomicIsize::new(0);

unsafe impl GlobalAlloc for Counting {
    unsafe fn alloc(&self, l: Layout) -> *mut u8 {
        let p = unsafe { System.alloc(l) };
        if !p.is_null() {
            let _ = LIVE.fetch_add(l.size() as isize, Ordering::Relaxed);
        }
        p
    }

    unsafe fn dealloc(&self, p: *mut u8, l: Layout) {
        unsafe { System.dealloc(p, l) };
        let _ = LIVE.fetch_sub(l.size() as isize, Ordering::Relaxed);
    }

    unsafe fn alloc_zeroed(&self, l: Layout) -> *mut u8 {
        let p = unsafe { System.alloc_zeroed(l) };
        if !p.is_null() {
            let _ = LIVE.fetch_add(l.size() as isize, Ordering::Relaxed);
        }
        p
    }

    unsafe fn realloc(&self, p: *mut u8, l: Layout, new: usize) -> *mut u8 {
        let q = unsafe { System.realloc(p, l, new) };
        if !q.is_null() {
            let _ = LIVE.fetch_add(new as isize - l.size() as isize, Ordering::Relaxed);
        }
        q
    }
}

const REPEAT: usize = 3;

pub const UOPS: [&str; 18] = [
    "clone", "complement", "converse", "union", "arcs", "degree_sequence", "indegree_sequence",
    "is_semicomplete", "is_tournament", "is_regular", "is_complete", "in_neighbors", "bfs", "dfs", "tarjan", "from_arcs",
    "round_trip", "from_rows",
];
pub const GENS: [&str; 12] = [
    "empty", "complete", "cycle", "circuit", "path", "star", "wheel", "biclique", "erdos_renyi",
    "random_tournament", "random_recursive_tree", "filter_vertices",
];

pub struct C13L {
    pub repr: String,
    pub g: G,
    pub op: String,
}

/// LIVE once it has stopped changing (an operation may return while worker threads it spawned are still winding down:
/// AdjacencyList::is_semicomplete does not join its workers on the early-exit path)
fn settled() -> isize {
    let mut last = LIVE.load(Ordering::SeqCst);
    let mut same = 0;
    for _ in 0..200 {
        std::thread::sleep(std::time::Duration::from_millis(1));
        let now = LIVE.load(Ordering::SeqCst);
        if now == last {
            same += 1;
            if same >= 3 {
                break;
            }
        } else {
            same = 0;
            last = now;
        }
    }
    last
}

/// heap growth caused by REPEAT further calls after one warm-up call; a positive value is reported only if a second
/// round of REPEAT calls grows the heap again (a leak accumulates, a one-off cache does not)
fn grows<F: FnMut()>(mut f: F) -> isize {
    f();
    let before = LIVE.load(Ordering::SeqCst);
    for _ in 0..REPEAT {
        f();
    }
    let quick = LIVE.load(Ordering::SeqCst) - before;
    if quick == 0 {
        return 0;
    }
    // something changed: measure again between quiescent points
    let before = settled();
    for _ in 0..REPEAT {
        f();
    }
    let mid = settled();
    for _ in 0..REPEAT {
        f();
    }
    let after = settled();
    if mid - before > 0 && after - mid > 0 {
        mid - before
    } else {
        0
    }
}

fn run_uop<D: Dgu + FromArcsHelper>(c: &C13L) -> R {
    let g = &c.g;
    at("constructor");
    let d = D::build(g);
    let e = D::build(g);
    let n = g.order();
    let lim = n * n + 8;
    let arcs = g.arc_list();
    let growth = match c.op.as_str() {
        "clone" => { at("Clone::clone"); grows(|| { let _ = d.clone(); }) }
        "complement" => { at("Complement::complement"); grows(|| { let _ = d.complement(); }) }
        "converse" => { at("Converse::converse"); grows(|| { let _ = d.converse(); }) }
        "union" => { at("Union::union"); grows(|| { let _ = d.union(&e); }) }
        "arcs" => { at("Arcs::arcs"); grows(|| { let _ = d.arcs().take(lim).count(); }) }
        "degree_sequence" => { at("DegreeSequence::degree_sequence"); grows(|| { let _ = d.degree_sequence().take(lim).count(); }) }
        "indegree_sequence" => { at("IndegreeSequence::indegree_sequence"); grows(|| { let _ = d.indegree_sequence().take(lim).count(); }) }
        "is_semicomplete" => { at("IsSemicomplete::is_semicomplete"); grows(|| { let _ = d.is_semicomplete(); }) }
        "is_tournament" => { at("IsTournament::is_tournament"); grows(|| { let _ = d.is_tournament(); }) }
        "is_regular" => { at("IsRegular::is_regular"); grows(|| { let _ = d.is_regular(); }) }
        "is_complete" => { at("IsComplete::is_complete"); grows(|| { let _ = d.is_complete(); }) }
        "in_neighbors" => { at("InNeighbors::in_neighbors"); grows(|| { let _ = d.in_neighbors(0).take(lim).count(); }) }
        "bfs" => { at("Bfs"); grows(|| { let _ = Bfs::new(&d, [0usize].into_iter()).take(lim).count(); }) }
        "dfs" => { at("Dfs"); grows(|| { let _ = Dfs::new(&d, [0usize].into_iter()).take(lim).count(); }) }
        "tarjan" => { at("Tarjan"); grows(|| { let _ = Tarjan::new(&d).components().len(); }) }
        "from_arcs" => {
            at("From<arcs>");
            // From<iterator of arcs> exists for EdgeList and AdjacencyMatrix only
            if arcs.is_empty() || !(D::NAME == "EdgeList" || D::NAME == "AdjacencyMatrix") { 0 } else { grows(|| { let _ = D::from_arc_iter(&arcs); }) }
        }
        "round_trip" => {
            at("From<other representation>");
            let via = if D::NAME == "AdjacencyList" { "EdgeList" } else { "AdjacencyList" };
            grows(|| { let _ = d.clone().round_trip(via); })
        }
        "from_rows" => {
            at("From<rows>");
            if D::NAME == "AdjacencyList" || D::NAME == "AdjacencyMap" {
                let rows: Vec<Vec<(usize, i64)>> = (0..n).map(|u| g.out(u).into_iter().map(|v| (v, 1)).collect()).collect();
                if g.contiguous() { grows(|| { let _ = D::from_row_iter(&rows); }) } else { 0 }
            } else { 0 }
        }
        other => return Err(mk_fail("known operation", "one of UOPS".into(), other.to_string())),
    };
    ensure_eq!(
        format!("repeating {}() {REPEAT} more times (results dropped) does not grow the heap: bytes still allocated", c.op),
        0isize,
        growth
    );
    Ok(())
}

/// marker so that `from_arc_iter` (a provided method of Dg) is available with the Dgu bound
pub trait FromArcsHelper {}
impl<T> FromArcsHelper for T {}

fn run_gen<D: Dgu + FilterHelper>(c: &C13L) -> R {
    let n = c.g.order().max(1);
    let growth = match c.op.as_str() {
        "empty" => { at("Empty::empty"); grows(|| { let _ = D::empty(n); }) }
        "complete" => { at("Complete::complete"); grows(|| { let _ = D::complete(n); }) }
        "cycle" => { at("Cycle::cycle"); grows(|| { let _ = D::cycle(n); }) }
        "circuit" => { at("Circuit::circuit"); grows(|| { let _ = D::circuit(n); }) }
        "path" => { at("Path::path"); grows(|| { let _ = D::path(n); }) }
        "star" => { at("Star::star"); grows(|| { let _ = D::star(n); }) }
        "wheel" => { at("Wheel::wheel"); grows(|| { let _ = D::wheel(n.max(4)); }) }
        "biclique" => { at("Biclique::biclique"); grows(|| { let _ = D::biclique(n, 2); }) }
        "erdos_renyi" => { at("ErdosRenyi::erdos_renyi"); grows(|| { let _ = D::erdos_renyi(n, 0.5, 7); }) }
        "random_tournament" => { at("RandomTournament::random_tournament"); grows(|| { let _ = D::random_tournament(n, 7); }) }
        "random_recursive_tree" => { at("RandomRecursiveTree::random_recursive_tree"); grows(|| { let _ = D::random_recursive_tree(n, 7); }) }
        "filter_vertices" => { at("FilterVertices::filter_vertices"); D::filter_growth(&c.g) }
        other => return Err(mk_fail("known generator", "one of GENS".into(), other.to_string())),
    };
    ensure_eq!(
        format!("repeating {}(..) {REPEAT} more times (results dropped) does not grow the heap: bytes still allocated", c.op),
        0isize,
        growth
    );
    Ok(())
}

/// filter_vertices exists for AdjacencyMap only
pub trait FilterHelper {
    fn filter_growth(_g: &G) -> isize {
        0
    }
}
impl FilterHelper for AdjacencyList {}
impl FilterHelper for AdjacencyMatrix {}
impl FilterHelper for EdgeList {}
impl FilterHelper for AdjacencyMap {
    fn filter_growth(g: &G) -> isize {
        let d = <AdjacencyMap as Dg>::build(g);
        grows(|| {
            let _ = d.filter_vertices(|v| v % 2 == 0);
        })
    }
}

pub const ALGOS: [&str; 9] = [
    "dijkstra", "dijkstra_pred", "bfs_pred", "dfs_pred", "bellman_ford_moore", "floyd_warshall", "distance_matrix_metrics", "johnson", "weighted_converse",
];

fn run_algo(c: &C13L) -> R {
    let g = &c.g;
    let n = g.order();
    let lim = n * n + 8;
    let growth = match c.op.as_str() {
        "dijkstra" => {
            let d = AdjacencyListWeighted::<usize>::build(g);
            at("DijkstraDist::distances");
            grows(|| { let _ = DijkstraDist::new(&d, [0usize].into_iter()).distances(); })
        }
        "dijkstra_pred" => {
            let d = AdjacencyListWeighted::<usize>::build(g);
            at("DijkstraPred::predecessors");
            grows(|| { let _ = DijkstraPred::new(&d, [0usize].into_iter()).predecessors(); })
        }
        "bfs_pred" => {
            let d = AdjacencyList::build(g);
            at("BfsPred::predecessors");
            grows(|| { let _ = BfsPred::new(&d, [0usize].into_iter()).predecessors(); })
        }
        "dfs_pred" => {
            let d = AdjacencyList::build(g);
            at("DfsPred::predecessors");
            grows(|| { let _ = DfsPred::new(&d, [0usize].into_iter()).predecessors(); })
        }
        "bellman_ford_moore" => {
            let d = AdjacencyListWeighted::<isize>::build(g);
            at("BellmanFordMoore::distances");
            grows(|| { let mut b = BellmanFordMoore::new(&d, 0); let _ = b.distances().map(<[isize]>::to_vec); })
        }
        "floyd_warshall" => {
            let d = AdjacencyListWeighted::<isize>::build(g);
            at("FloydWarshall::distances");
            grows(|| { let mut fw = FloydWarshall::new(&d); let _ = fw.distances().diameter(); })
        }
        "distance_matrix_metrics" => {
            let d = AdjacencyListWeighted::<isize>::build(g);
            let mut fw = FloydWarshall::new(&d);
            let dm = fw.distances();
            at("DistanceMatrix::{center, periphery, eccentricities, is_connected}");
            grows(|| {
                let _ = dm.center().len();
                let _ = dm.periphery().take(lim).count();
                let _ = dm.eccentricities().take(lim).count();
                let _ = dm.is_connected();
            })
        }
        "johnson" => {
            let d = AdjacencyMap::build(g);
            at("Johnson75::circuits");
            if n > 6 { 0 } else { grows(|| { let _ = Johnson75::new(&d).circuits(); }) }
        }
        "weighted_converse" => {
            let d = AdjacencyListWeighted::<usize>::build(g);
            at("Converse::converse (weighted)");
            grows(|| { let _ = d.converse(); let _ = d.clone(); let _ = d.arcs_weighted().take(lim).count(); })
        }
        other => return Err(mk_fail("known algorithm", "one of ALGOS".into(), other.to_string())),
    };
    ensure_eq!(
        format!("repeating {} {REPEAT} more times (results dropped) does not grow the heap: bytes still allocated", c.op),
        0isize,
        growth
    );
    Ok(())
}

impl Case for C13L {
    fn prop(&self) -> &'static str {
        "C13"
    }

    fn run(&self) -> R {
        if ALGOS.contains(&self.op.as_str()) {
            run_algo(self)
        } else if UOPS.contains(&self.op.as_str()) {
            with_urepr!(self.repr.as_str(), run_uop(self))
        } else {
            with_urepr!(self.repr.as_str(), run_gen(self))
        }
    }

    fn fields(&self) -> Vec<(String, J)> {
        let mut f = vec![("repr".into(), J::s(&self.repr))];
        f.extend(self.g.fields(ALGOS.contains(&self.op.as_str())));
        f.push(("leak_op".into(), J::s(&self.op)));
        f
    }
}

pub fn search_leak(seed: u64, ctx: &mut Ctx) -> Option<J> {
    let mut rng = Rng::new(seed ^ 0x1eaf);
    let mut inputs: Vec<G> = vec![];
    for order in 1..=3usize {
        let np = order * (order - 1);
        for mask in 0..(1u64 << np) {
            inputs.push(g_from_mask(order, mask));
        }
    }
    for order in [5usize, 9, 17, 33, 70] {
        inputs.push(random_g(&mut rng, order, &[1]));
        inputs.push(structured("cycle", order, &[1]));
    }
    for g in inputs {
        for repr in UNWEIGHTED {
            for op in UOPS.iter().chain(GENS.iter()) {
                let c = C13L {
                    repr: repr.to_string(),
                    g: g.clone(),
                    op: op.to_string(),
                };
                if let Some(f) = ctx.eval(&c) {
                    return Some(f);
                }
            }
        }
        if g.contiguous() {
            for op in ALGOS {
                let mut gw = g.clone();
                for (_, w) in gw.arcs.iter_mut() {
                    *w = 1 + (rng.below(4) as i64);
                }
                let c = C13L {
                    repr: "AdjacencyList".to_string(),
                    g: gw,
                    op: op.to_string(),
                };
                if let Some(f) = ctx.eval(&c) {
                    return Some(f);
                }
            }
        }
        if ctx.expired() {
            return None;
        }
    }
    None
}

pub fn replay_leak(j: &J) -> Result<Option<J>, String> {
    let (repr, g) = repr_and_g(j)?;
    if !UNWEIGHTED.contains(&repr.as_str()) {
        return Err("leak cases use the unweighted representations".into());
    }
    let op = j.req("leak_op")?.str()?.to_string();
    if !UOPS.contains(&op.as_str()) && !GENS.contains(&op.as_str()) && !ALGOS.contains(&op.as_str()) {
        return Err(format!("unknown leak_op {op}"));
    }
    Ok(crate::eval_case(&C13L { repr, g, op }))
}
