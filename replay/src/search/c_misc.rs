//! C18 (DistanceMatrix metrics), C19 (PredecessorTree search) and C20
//! (Eq / Ord / Hash / Clone respect the abstract digraph).

use {
    crate::{
        c_repr::{
            apply_op,
            random_history,
            Op,
        },
        json::J,
        model::*,
        Case,
        Ctx,
    },
    graaf::*,
    std::{
        cmp::Ordering,
        collections::hash_map::DefaultHasher,
        hash::{
            Hash,
            Hasher,
        },
        sync::{
            atomic::{
                AtomicUsize,
                Ordering as AtomicOrdering,
            },
            mpsc,
            Mutex,
        },
        time::Duration,
    },
};

// ------------------------------------------------------------------ C18 ----

pub struct C18 {
    /// "usize" | "isize"
    pub ty: &'static str,
    pub order: usize,
    pub infinity: i128,
    /// row-major, each <= infinity
    pub entries: Vec<i128>,
}

macro_rules! run_c18 {
    ($c:expr, $w:ty) => {{
        let c: &C18 = $c;
        let n = c.order;
        let inf = c.infinity as $w;
        let e: Vec<$w> = c.entries.iter().map(|&x| x as $w).collect();
        at("DistanceMatrix::new");
        let mut m = DistanceMatrix::<$w>::new(n, inf);
        ensure!(
            "new(order, infinity) is an order x order matrix filled with infinity",
            m.order == n && m.infinity == inf && m.dist.len() == n * n && m.dist.iter().all(|&x| x == inf),
            format!("order {} infinity {} dist {:?}", m.order, m.infinity, m.dist)
        );
        at("DistanceMatrix::index_mut((u, v))");
        for u in 0..n {
            for v in 0..n {
                m[(u, v)] = e[u * n + v];
            }
        }
        ensure_eq!(
            "writing through (u, v) addresses row u, column v (row-major contents)",
            e.clone(),
            m.dist.clone()
        );
        at("DistanceMatrix::index((u, v))");
        for u in 0..n {
            for v in 0..n {
                ensure_eq!(
                    format!("reading ({u}, {v}) addresses row {u}, column {v}"),
                    e[u * n + v],
                    m[(u, v)]
                );
            }
        }
        let ecc: Vec<$w> = (0..n).map(|u| *e[u * n..(u + 1) * n].iter().max().unwrap()).collect();
        let diam = *ecc.iter().max().unwrap();
        let rad = *ecc.iter().min().unwrap();
        at("DistanceMatrix::eccentricities");
        ensure_eq!(
            "eccentricities() yields, per vertex, the maximum entry of its row",
            ecc.clone(),
            m.eccentricities().take(n + 8).copied().collect::<Vec<_>>()
        );
        at("DistanceMatrix::diameter");
        ensure_eq!("diameter() is the maximum eccentricity", diam, *m.diameter());
        at("DistanceMatrix::center");
        ensure_eq!(
            format!("center() is the ascending list of vertices whose eccentricity is minimal (eccentricities {ecc:?})"),
            (0..n).filter(|&v| ecc[v] == rad).collect::<Vec<_>>(),
            m.center()
        );
        at("DistanceMatrix::periphery");
        ensure_eq!(
            format!("periphery() is the ascending list of vertices whose eccentricity equals the diameter (eccentricities {ecc:?})"),
            (0..n).filter(|&v| ecc[v] == diam).collect::<Vec<_>>(),
            m.periphery().take(n + 8).collect::<Vec<_>>()
        );
        at("DistanceMatrix::is_connected");
        ensure_eq!(
            format!("is_connected() iff no eccentricity equals infinity (eccentricities {ecc:?})"),
            ecc.iter().all(|&x| x != inf),
            m.is_connected()
        );
        at("DistanceMatrix metrics");
        ensure_eq!("the metrics do not change the matrix", e, m.dist.clone());
        Ok(())
    }};
}

impl Case for C18 {
    fn prop(&self) -> &'static str {
        "C18"
    }

    fn run(&self) -> R {
        if self.ty == "usize" {
            run_c18!(self, usize)
        } else {
            run_c18!(self, isize)
        }
    }

    fn fields(&self) -> Vec<(String, J)> {
        let n = self.order;
        vec![
            ("weight_type".into(), J::s(self.ty)),
            ("order".into(), J::u(n)),
            ("infinity".into(), J::Num(self.infinity)),
            (
                "rows".into(),
                J::Arr(
                    (0..n)
                        .map(|u| {
                            J::Arr(self.entries[u * n..(u + 1) * n].iter().map(|&x| J::Num(x)).collect())
                        })
                        .collect(),
                ),
            ),
        ]
    }
}

/// explicit C18 shapes: all-infinity matrices, rows whose maximum sits on
/// the diagonal, all-negative isize matrices (a negative infinity included)
fn c18_structured() -> Vec<C18> {
    let mut out = Vec::new();
    for order in 1..=6usize {
        for (ty, infs) in [
            ("usize", vec![usize::MAX as i128, 0, 7]),
            ("isize", vec![isize::MAX as i128, 0, 7, -1, isize::MIN as i128 + 5]),
        ] {
            for inf in infs {
                let lo: i128 = if ty == "usize" { 0 } else { (isize::MIN as i128).max(inf - 9) };
                let hi = inf;
                let clamp = |x: i128| x.clamp(lo, hi);
                // all infinity
                out.push(C18 { ty, order, infinity: inf, entries: vec![inf; order * order] });
                // all infinity except one finite row
                let mut e = vec![inf; order * order];
                for v in 0..order {
                    e[(order - 1) * order + v] = clamp(inf - 1 - v as i128);
                }
                out.push(C18 { ty, order, infinity: inf, entries: e });
                // the maximum of every row sits on the diagonal
                let e: Vec<i128> = (0..order * order)
                    .map(|i| {
                        let (u, v) = (i / order, i % order);
                        if u == v { clamp(inf - 1 - (u % 3) as i128) } else { clamp(inf - 5 - ((u + v) % 4) as i128) }
                    })
                    .collect();
                out.push(C18 { ty, order, infinity: inf, entries: e });
                // zero diagonal, everything else larger (a distance matrix)
                let e: Vec<i128> = (0..order * order)
                    .map(|i| if i / order == i % order { clamp(0) } else { clamp(1 + (i % 5) as i128) })
                    .collect();
                out.push(C18 { ty, order, infinity: inf, entries: e });
                if ty == "isize" {
                    // strictly negative entries
                    let e: Vec<i128> = (0..order * order)
                        .map(|i| clamp(-1 - ((i * 7 + i / order) % 6) as i128).min(-1).max(lo))
                        .collect();
                    if e.iter().all(|&x| x <= inf) {
                        out.push(C18 { ty, order, infinity: inf, entries: e });
                    }
                }
            }
        }
    }
    out
}

pub fn search_c18(seed: u64, ctx: &mut Ctx) -> Option<J> {
    let mut rng = Rng::new(seed);
    for c in c18_structured() {
        if let Some(f) = ctx.eval(&c) {
            return Some(f);
        }
    }
    for i in 0..200_000usize {
        // tiny orders first
        let order = 1 + rng.below((1 + i / 500).min(6));
        let ty = if i % 2 == 0 { "usize" } else { "isize" };
        let max: i128 = if ty == "usize" {
            usize::MAX as i128
        } else {
            isize::MAX as i128
        };
        let infinity = match rng.below(4) {
            0 => max,
            1 => 3,
            2 => 10,
            _ => 1 + rng.below(100) as i128,
        };
        let lo: i128 = if ty == "usize" { 0 } else { -6 };
        let p_inf = rng.below(4);
        // few distinct values so that ties between eccentricities are common
        let span = 1 + rng.below(6) as i128;
        let entries: Vec<i128> = (0..order * order)
            .map(|_| {
                if rng.chance(p_inf, 6) {
                    infinity
                } else {
                    (lo + rng.below(12) as i128 % (span + 1)).min(infinity)
                }
            })
            .collect();
        let c = C18 {
            ty,
            order,
            infinity,
            entries,
        };
        if let Some(f) = ctx.eval(&c) {
            return Some(f);
        }
        if i % 1024 == 0 && ctx.expired() {
            return None;
        }
    }
    None
}

pub fn replay_c18(j: &J) -> Result<Option<J>, String> {
    let ty: &'static str = match j.req("weight_type")?.str()? {
        "usize" => "usize",
        "isize" => "isize",
        o => return Err(format!("unknown weight type {o}")),
    };
    let order = j.req("order")?.usize()?;
    if order == 0 || order > 64 {
        return Err("order must be in 1..=64".into());
    }
    let infinity = j.req("infinity")?.i128()?;
    let (lo, hi) = if ty == "usize" {
        (0, usize::MAX as i128)
    } else {
        (isize::MIN as i128, isize::MAX as i128)
    };
    let mut entries = Vec::new();
    let rows = j.req("rows")?.arr()?;
    if rows.len() != order {
        return Err("rows must hold order rows".into());
    }
    for r in rows {
        let r = r.arr()?;
        if r.len() != order {
            return Err("every row must hold order entries".into());
        }
        for x in r {
            entries.push(x.i128()?);
        }
    }
    if infinity < lo || infinity > hi || entries.iter().any(|&x| x < lo || x > infinity) {
        return Err("entries must fit the weight type and not exceed infinity".into());
    }
    Ok(crate::eval_case(&C18 {
        ty,
        order,
        infinity,
        entries,
    }))
}

// ------------------------------------------------------------------ C19 ----

pub struct C19 {
    pub pred: Vec<Option<usize>>,
}

/// follow predecessor links from s until a target, the end of the chain, or
/// a revisit
fn naive_search(
    pred: &[Option<usize>],
    s: usize,
    is_target: &dyn Fn(usize, Option<usize>) -> bool,
) -> Option<Vec<usize>> {
    let mut seen = vec![false; pred.len()];
    let mut path = Vec::new();
    let mut c = s;
    loop {
        if seen[c] {
            return None;
        }
        seen[c] = true;
        path.push(c);
        if is_target(c, pred[c]) {
            return Some(path);
        }
        c = pred[c]?;
    }
}

/// which call is running on the worker thread (reported when it hangs):
/// (start vertex, kind, argument)
static HANG_AT: [AtomicUsize; 3] = [AtomicUsize::new(0), AtomicUsize::new(0), AtomicUsize::new(0)];

fn mark(s: usize, kind: usize, arg: usize) {
    HANG_AT[0].store(s, AtomicOrdering::Relaxed);
    HANG_AT[1].store(kind, AtomicOrdering::Relaxed);
    HANG_AT[2].store(arg, AtomicOrdering::Relaxed);
}

fn hang_label() -> String {
    let (s, kind, arg) = (
        HANG_AT[0].load(AtomicOrdering::Relaxed),
        HANG_AT[1].load(AtomicOrdering::Relaxed),
        HANG_AT[2].load(AtomicOrdering::Relaxed),
    );
    match kind {
        0 => format!("search({s}, {arg})"),
        1 => format!("search_by({s}, |v, _| v is in target set #{arg})"),
        2 => format!("search_by({s}, |_, p| p.is_none())"),
        _ => format!("search_by({s}, |v, p| p == Some(v))"),
    }
}

/// start vertices / targets: everything for short vectors, ids next to word
/// boundaries for long ones
fn c19_ids(n: usize) -> Vec<usize> {
    if n <= 10 {
        (0..n).collect()
    } else {
        boundary_ids(n)
    }
}

fn c19_target_sets(pred: &[Option<usize>]) -> Vec<Vec<bool>> {
    let n = pred.len();
    if n <= 4 {
        return (0..1u64 << n)
            .map(|m| (0..n).map(|v| m >> v & 1 == 1).collect())
            .collect();
    }
    let mut r = Rng::new(n as u64 * 7919 + pred.iter().flatten().sum::<usize>() as u64);
    let mut sets = vec![vec![false; n], vec![true; n]];
    for _ in 0..6 {
        let den = 2 + r.below(n.min(40));
        sets.push((0..n).map(|_| r.chance(1, den)).collect());
    }
    sets
}

fn c19_checks(pred: &[Option<usize>]) -> R {
    let n = pred.len();
    let t = PredecessorTree::from(pred.to_vec());
    let ids = c19_ids(n);
    let sets = c19_target_sets(pred);
    for &s in &ids {
        at("PredecessorTree::search");
        let mut targets = ids.clone();
        targets.push(n);
        for tgt in targets {
            mark(s, 0, tgt);
            ensure_eq!(
                format!("search({s}, {tgt}) is the predecessor chain from {s} up to the first occurrence of {tgt}, None if the chain ends or revisits a vertex first"),
                naive_search(pred, s, &|v, _| v == tgt),
                t.search(s, tgt)
            );
        }
        at("PredecessorTree::search_by");
        for (k, set) in sets.iter().enumerate() {
            mark(s, 1, k);
            let listed: Vec<usize> = (0..n).filter(|&v| set[v]).collect();
            ensure_eq!(
                format!("search_by({s}, |v, _| v in {listed:?}) is the chain from {s} up to the first target"),
                naive_search(pred, s, &|v, _| set[v]),
                t.search_by(s, |&v, _| set[v])
            );
        }
        mark(s, 2, 0);
        ensure_eq!(
            format!("search_by({s}, |_, p| p.is_none()) is the chain from {s} up to the first vertex without predecessor"),
            naive_search(pred, s, &|_, p| p.is_none()),
            t.search_by(s, |_, p| p.is_none())
        );
        mark(s, 3, 0);
        ensure_eq!(
            format!("search_by({s}, |v, p| p == Some(v)) is the chain from {s} up to the first self-referential vertex"),
            naive_search(pred, s, &|v, p| p == Some(v)),
            t.search_by(s, |&v, p| *p == Some(v))
        );
    }
    ensure_eq!("search does not change the tree", pred.to_vec(), t.pred.clone());
    Ok(())
}

/// Every C19 case runs on a worker thread so that a search that does not
/// terminate is reported (5 s timeout) instead of hanging the searcher. The
/// worker is reused between cases; after a timeout it is abandoned (the
/// process exits right after the report).
struct Worker {
    tx: mpsc::Sender<Vec<Option<usize>>>,
    rx: mpsc::Receiver<R>,
}

static WORKER: Mutex<Option<Worker>> = Mutex::new(None);
const C19_TIMEOUT: Duration = Duration::from_secs(5);

fn spawn_worker() -> Worker {
    let (tx, job_rx) = mpsc::channel::<Vec<Option<usize>>>();
    let (res_tx, rx) = mpsc::channel::<R>();
    let _ = std::thread::spawn(move || {
        while let Ok(pred) = job_rx.recv() {
            if res_tx.send(guarded(|| c19_checks(&pred))).is_err() {
                break;
            }
        }
    });
    Worker { tx, rx }
}

impl Case for C19 {
    fn prop(&self) -> &'static str {
        "C19"
    }

    fn run(&self) -> R {
        let mut slot = WORKER.lock().unwrap_or_else(|e| e.into_inner());
        let w = slot.get_or_insert_with(spawn_worker);
        w.tx.send(self.pred.clone()).expect("C19 worker is alive");
        match w.rx.recv_timeout(C19_TIMEOUT) {
            Ok(r) => r,
            Err(_) => {
                *slot = None;
                at("PredecessorTree::search_by");
                Err(mk_fail(
                    &format!("{} terminates (5 s timeout)", hang_label()),
                    "returns".into(),
                    "still running after 5 s".into(),
                ))
            }
        }
    }

    fn fields(&self) -> Vec<(String, J)> {
        vec![(
            "pred".into(),
            J::Arr(
                self.pred
                    .iter()
                    .map(|p| p.map_or(J::Null, J::u))
                    .collect(),
            ),
        )]
    }
}

/// long structured predecessor vectors: chains v -> v+1, reversed and
/// shuffled chains, self-referential entries mid-chain, 2-cycles, rho
/// shapes and full cycles
fn c19_structured(rng: &mut Rng) -> Vec<Vec<Option<usize>>> {
    let mut out = Vec::new();
    // the small shapes first
    out.push(vec![Some(1), Some(1)]);
    out.push(vec![Some(1), Some(2), Some(2), None]);
    out.push(vec![Some(1), Some(0)]);
    out.push(vec![Some(1), Some(2), Some(1)]);
    // 3 -> 5 -> 37 -> 40
    let mut v = vec![None; 41];
    v[3] = Some(5);
    v[5] = Some(37);
    v[37] = Some(40);
    out.push(v);
    for n in [40usize, 70, 130] {
        let chain: Vec<Option<usize>> =
            (0..n).map(|v| if v + 1 < n { Some(v + 1) } else { None }).collect();
        let rev: Vec<Option<usize>> = (0..n).map(|v| v.checked_sub(1)).collect();
        out.push(chain.clone());
        out.push(rev.clone());
        // shuffled chain through every vertex, starting at 0
        for _ in 0..3 {
            let mut order: Vec<usize> = (1..n).collect();
            rng.shuffle(&mut order);
            order.insert(0, 0);
            let mut p = vec![None; n];
            for w in order.windows(2) {
                p[w[0]] = Some(w[1]);
            }
            out.push(p.clone());
            // the same chain closed into one big cycle
            p[*order.last().unwrap()] = Some(0);
            out.push(p);
        }
        // self-referential entry mid-chain (no target beyond it is reachable)
        for k in boundary_ids(n) {
            let mut p = chain.clone();
            p[k] = Some(k);
            out.push(p);
            let mut p = rev.clone();
            p[k] = Some(k);
            out.push(p);
        }
        // 2-cycle at the end of the chain
        let mut p = chain.clone();
        p[n - 1] = Some(n - 2);
        out.push(p);
        // rho shapes: a tail leading into a cycle of length l
        for l in [1usize, 2, 3, 31, 32, 33, 64, 65] {
            if l < n {
                let mut p = chain.clone();
                p[n - 1] = Some(n - l);
                out.push(p);
                let mut p = rev.clone();
                p[0] = Some(l - 1);
                out.push(p);
            }
        }
        // full cycle
        let mut p = chain.clone();
        p[n - 1] = Some(0);
        out.push(p);
    }
    out
}

pub fn search_c19(seed: u64, ctx: &mut Ctx) -> Option<J> {
    // every predecessor vector of length <= 4 (entries None or in range)
    for n in 1..=4usize {
        let b = n as u64 + 1;
        for mut code in 0..b.pow(n as u32) {
            let mut pred = Vec::new();
            for _ in 0..n {
                let d = (code % b) as usize;
                code /= b;
                pred.push(if d == 0 { None } else { Some(d - 1) });
            }
            if let Some(f) = ctx.eval(&C19 { pred }) {
                return Some(f);
            }
        }
    }
    let mut rng = Rng::new(seed);
    for pred in c19_structured(&mut rng) {
        if let Some(f) = ctx.eval(&C19 { pred }) {
            return Some(f);
        }
    }
    for i in 0..60_000usize {
        let n = match i % 200 {
            0 => 40,
            1 => 70,
            2 => 130,
            _ => 5 + rng.below(4),
        };
        let none = 1 + rng.below(4);
        let pred: Vec<Option<usize>> = (0..n)
            .map(|_| {
                if rng.chance(none, 8 * (1 + n / 20)) {
                    None
                } else {
                    Some(rng.below(n))
                }
            })
            .collect();
        if let Some(f) = ctx.eval(&C19 { pred }) {
            return Some(f);
        }
        if i % 512 == 0 && ctx.expired() {
            return None;
        }
    }
    None
}

pub fn replay_c19(j: &J) -> Result<Option<J>, String> {
    let mut pred = Vec::new();
    for p in j.req("pred")?.arr()? {
        pred.push(match p {
            J::Null => None,
            x => Some(x.usize()?),
        });
    }
    if pred.is_empty() || pred.len() > 4096 {
        return Err("pred must hold 1..=4096 entries".into());
    }
    if pred.iter().flatten().any(|&p| p >= pred.len()) {
        return Err("C19 is about predecessor vectors whose entries are in range".into());
    }
    Ok(crate::eval_case(&C19 { pred }))
}

// ------------------------------------------------------------------ C20 ----

#[derive(Clone)]
pub struct History {
    pub start: String,
    pub order: usize,
    pub ops: Vec<Op>,
}

pub struct C20 {
    pub repr: String,
    pub first: History,
    pub second: History,
    /// applied after cloning: the first to the clone, the second to the original
    pub mutations: Vec<Op>,
}

pub fn hash_of<T: Hash>(x: &T) -> u64 {
    let mut h = DefaultHasher::new();
    x.hash(&mut h);
    h.finish()
}

fn play<D: Dg>(h: &History, which: &str) -> Result<(D, G), Fail> {
    at("constructor");
    let mut d = D::make(&h.start, h.order);
    let mut g = make_model(&h.start, h.order);
    for (i, op) in h.ops.iter().enumerate() {
        apply_op(&mut d, &mut g, op, i)?;
    }
    same(&d, &g, &format!("{which} history"))?;
    Ok((d, g))
}

fn run_c20<D: Dg>(c: &C20) -> R {
    let (mut d1, mut g1) = play::<D>(&c.first, "first")?;
    let (d2, g2) = play::<D>(&c.second, "second")?;
    let same_abs = g1 == g2;
    let desc = if same_abs {
        "the two histories lead to the same vertex set, arc set and weights"
    } else {
        "the two histories lead to different abstract digraphs"
    };
    at("PartialEq::eq");
    ensure_eq!(format!("d1 == d2 exactly when the abstract digraphs are equal ({desc})"), same_abs, d1 == d2);
    ensure_eq!(format!("d2 == d1 is symmetric ({desc})"), same_abs, d2 == d1);
    ensure_eq!(format!("d1 != d2 is the negation ({desc})"), !same_abs, d1 != d2);
    at("Ord::cmp");
    let (c12, c21) = (d1.cmp(&d2), d2.cmp(&d1));
    ensure_eq!(
        format!("cmp is Ordering::Equal exactly when the abstract digraphs are equal ({desc})"),
        same_abs,
        c12 == Ordering::Equal
    );
    ensure_eq!(format!("cmp is antisymmetric ({desc})"), c12, c21.reverse());
    at("PartialOrd::partial_cmp");
    ensure_eq!(format!("partial_cmp agrees with cmp ({desc})"), Some(c12), d1.partial_cmp(&d2));
    if same_abs {
        at("Hash::hash");
        ensure_eq!("equal digraphs have equal hashes", hash_of(&d1), hash_of(&d2));
    }
    // clone: equal and independent
    at("Clone::clone");
    let mut cl = d1.clone();
    let mut gc = g1.clone();
    ensure!("a clone is equal to its original", cl == d1 && d1 == cl, format!("{cl:?} vs {d1:?}"));
    ensure_eq!("a clone compares Ordering::Equal to its original", Ordering::Equal, cl.cmp(&d1));
    ensure_eq!("a clone hashes like its original", hash_of(&d1), hash_of(&cl));
    same_probed(&cl, &g1, "clone")?;
    if let Some(op) = c.mutations.first() {
        apply_op(&mut cl, &mut gc, op, 0)?;
        at("Clone::clone");
        same_probed(&d1, &g1, &format!("original after mutating the clone with {op:?}"))?;
        same_probed(&cl, &gc, &format!("clone after {op:?}"))?;
        ensure_eq!(
            format!("clone == original after {op:?} exactly when the abstract digraphs are still equal"),
            gc == g1,
            cl == d1
        );
    }
    if let Some(op) = c.mutations.get(1) {
        let snapshot = gc.clone();
        apply_op(&mut d1, &mut g1, op, 1)?;
        at("Clone::clone");
        same_probed(&cl, &snapshot, &format!("clone after mutating the original with {op:?}"))?;
        same_probed(&d1, &g1, &format!("original after {op:?}"))?;
        ensure_eq!(
            format!("clone == original after {op:?} on the original exactly when the abstract digraphs are equal"),
            gc == g1,
            cl == d1
        );
    }
    Ok(())
}

fn history_json(h: &History, weighted: bool) -> J {
    J::Obj(vec![
        ("start".into(), J::s(&h.start)),
        ("order".into(), J::u(h.order)),
        (
            "ops".into(),
            J::Arr(h.ops.iter().map(|o| o.json(weighted)).collect()),
        ),
    ])
}

impl Case for C20 {
    fn prop(&self) -> &'static str {
        "C20"
    }

    fn run(&self) -> R {
        with_repr!(self.repr.as_str(), run_c20(self))
    }

    fn fields(&self) -> Vec<(String, J)> {
        let w = self.repr.starts_with("AdjacencyListWeighted");
        vec![
            ("repr".into(), J::s(&self.repr)),
            ("first".into(), history_json(&self.first, w)),
            ("second".into(), history_json(&self.second, w)),
            (
                "mutations_after_clone".into(),
                J::Arr(self.mutations.iter().map(|o| o.json(w)).collect()),
            ),
        ]
    }
}

/// the abstract digraph a history should produce (library semantics per C01)
pub fn model_after(repr: &str, h: &History) -> G {
    let grows = repr == "AdjacencyMap";
    let mut g = make_model(&h.start, h.order);
    for op in &h.ops {
        match *op {
            Op::Add(u, v, w) => {
                if u != v && (grows || (g.verts.contains(&u) && g.verts.contains(&v))) {
                    g.add(u, v, w);
                }
            }
            Op::Remove(u, v) => {
                let _ = g.arcs.remove(&(u, v));
            }
            Op::Toggle(u, v) => {
                if u != v && g.verts.contains(&u) && g.verts.contains(&v) && g.arcs.remove(&(u, v)).is_none() {
                    let _ = g.arcs.insert((u, v), 1);
                }
            }
        }
    }
    g
}

/// a different history that leads to the abstract digraph `g`
pub fn rebuild_history(rng: &mut Rng, repr: &str, g: &G) -> History {
    let grows = repr == "AdjacencyMap";
    let toggle = repr == "AdjacencyMatrix";
    let weighted = repr.starts_with("AdjacencyListWeighted");
    let mut k = 0;
    while g.verts.contains(&k) {
        k += 1;
    }
    let order = if grows { 1 + rng.below(k) } else { g.order() };
    let mut ops = Vec::new();
    // AdjacencyMap: admit every vertex beyond the start order
    for &v in &g.verts {
        if v >= order {
            ops.push(Op::Add(0, v, 1));
            ops.push(Op::Remove(0, v));
        }
    }
    let mut arcs = g.warc_list();
    rng.shuffle(&mut arcs);
    let vs = g.vlist();
    for (u, v, w) in arcs {
        // noise that cancels out: an arc between existing vertices added and removed again
        if vs.len() >= 2 && rng.chance(1, 3) {
            let (a, b) = (rng.pick(&vs), rng.pick(&vs));
            if a != b && !g.has(a, b) {
                if toggle && rng.chance(1, 2) {
                    ops.push(Op::Toggle(a, b));
                    ops.push(Op::Toggle(a, b));
                } else {
                    ops.push(Op::Add(a, b, 1));
                    ops.push(Op::Remove(a, b));
                }
            }
        }
        if weighted && rng.chance(1, 3) {
            // a first weight that is replaced afterwards
            ops.push(Op::Add(u, v, w + 1));
        }
        if toggle && rng.chance(1, 3) {
            ops.push(Op::Toggle(u, v));
        } else {
            ops.push(Op::Add(u, v, w));
        }
        if rng.chance(1, 5) {
            // re-adding is idempotent
            ops.push(Op::Add(u, v, w));
        }
    }
    History {
        start: "empty".into(),
        order,
        ops,
    }
}

fn valid_mutation(rng: &mut Rng, repr: &str, g: &G) -> Op {
    let vs = g.vlist();
    let a = g.arc_list();
    if !a.is_empty() && rng.chance(1, 2) {
        let (u, v) = rng.pick(&a);
        return match rng.below(3) {
            0 => Op::Remove(u, v),
            1 if repr.starts_with("AdjacencyListWeighted") => {
                Op::Add(u, v, g.w(u, v).unwrap() + 1 + rng.below(2) as i64)
            }
            _ => Op::Add(u, v, g.w(u, v).unwrap()),
        };
    }
    if vs.len() >= 2 {
        let u = rng.pick(&vs);
        let mut v = rng.pick(&vs);
        if u == v {
            v = *vs.iter().find(|&&x| x != u).unwrap();
        }
        Op::Add(u, v, 1)
    } else if repr == "AdjacencyMap" {
        Op::Add(vs[0], vs[0] + 1, 1)
    } else {
        Op::Remove(0, 1)
    }
}

pub fn search_c20(seed: u64, ctx: &mut Ctx) -> Option<J> {
    // the same abstract digraph through different construction routes
    if let Some(f) = crate::c_eq::search_routes(seed, ctx) {
        return Some(f);
    }
    if ctx.expired() {
        return None;
    }
    let mut rng = Rng::new(seed);
    for round in 0..10_000usize {
        let len_max = (1 + round / 40).min(12);
        let order_max = (1 + round / 25).min(6);
        for repr in ALL_REPRS {
            let order = 1 + rng.below(order_max);
            let len = rng.below(len_max + 1);
            let weighted = repr.starts_with("AdjacencyListWeighted");
            let start = if weighted {
                "empty"
            } else {
                ["empty", "empty", "complete", "cycle"][rng.below(4)]
            };
            // (rejected calls may occur in the histories; they leave the digraph unchanged)
            let ops: Vec<Op> = random_history(&mut rng, repr, start, order, len, false);
            let first = History {
                start: start.into(),
                order,
                ops,
            };
            let g1 = model_after(repr, &first);
            let mut second = match rng.below(4) {
                // an unrelated history
                0 => {
                    let o2 = if rng.chance(1, 2) { order } else { 1 + rng.below(order_max) };
                    let l2 = rng.below(len_max + 1);
                    History {
                        start: "empty".into(),
                        order: o2,
                        ops: random_history(&mut rng, repr, "empty", o2, l2, false),
                    }
                }
                // another route to the same abstract digraph (possibly perturbed below)
                _ => rebuild_history(&mut rng, repr, &g1),
            };
            if rng.chance(1, 3) {
                // one more valid step: usually makes the digraphs differ
                let g2 = model_after(repr, &second);
                second.ops.push(valid_mutation(&mut rng, repr, &g2));
            }
            let mutations = vec![
                valid_mutation(&mut rng, repr, &g1),
                valid_mutation(&mut rng, repr, &g1),
            ];
            let c = C20 {
                repr: repr.to_string(),
                first,
                second,
                mutations,
            };
            if let Some(f) = ctx.eval(&c) {
                return Some(f);
            }
        }
        if round % 16 == 0 && ctx.expired() {
            return None;
        }
    }
    None
}

fn history_from(j: &J, repr: &str) -> Result<History, String> {
    let start = j.req("start")?.str()?.to_string();
    if start != "empty"
        && (repr.starts_with("AdjacencyListWeighted")
            || !["complete", "cycle", "circuit"].contains(&start.as_str()))
    {
        return Err(format!("start {start:?} is not available for {repr}"));
    }
    let order = j.req("order")?.usize()?;
    if order == 0 || order > 512 {
        return Err("order must be in 1..=512".into());
    }
    let ops = ops_from(j.req("ops")?, repr)?;
    Ok(History { start, order, ops })
}

pub fn ops_from(j: &J, repr: &str) -> Result<Vec<Op>, String> {
    let ops = j
        .arr()?
        .iter()
        .map(Op::from_json)
        .collect::<Result<Vec<_>, _>>()?;
    if repr != "AdjacencyMatrix" && ops.iter().any(|o| matches!(o, Op::Toggle(..))) {
        return Err("toggle is AdjacencyMatrix only".into());
    }
    if repr.ends_with("<usize>") && ops.iter().any(|o| matches!(o, Op::Add(_, _, w) if *w < 0)) {
        return Err("negative weight for a usize-weighted digraph".into());
    }
    Ok(ops)
}

pub fn replay_c20(j: &J) -> Result<Option<J>, String> {
    if j.get("routes").is_some() {
        return crate::c_eq::replay_routes(j);
    }
    let repr = j.req("repr")?.str()?.to_string();
    known_repr(&repr)?;
    let first = history_from(j.req("first")?, &repr)?;
    let second = history_from(j.req("second")?, &repr)?;
    let mutations = match j.get("mutations_after_clone") {
        Some(m) => ops_from(m, &repr)?,
        None => vec![],
    };
    Ok(crate::eval_case(&C20 {
        repr,
        first,
        second,
        mutations,
    }))
}
