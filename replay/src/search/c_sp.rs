//! C07 (Bellman-Ford-Moore) and C08 (Floyd-Warshall) against a brute-force
//! enumeration of all simple paths / circuits.

use {
    crate::{
        json::J,
        model::*,
        Case,
        Ctx,
    },
    graaf::*,
};

const WEIGHTS: [i64; 6] = [-3, -1, 0, 1, 2, 5];
const INF: isize = isize::MAX;

fn to_isize(best: &[Option<i128>]) -> Vec<isize> {
    best.iter().map(|b| b.map_or(INF, |x| x as isize)).collect()
}

/// Dijkstra on the same digraph (only when every weight is non-negative),
/// with usize::MAX mapped to isize::MAX
fn dijkstra_row(g: &G, s: usize) -> Option<Vec<isize>> {
    if g.arcs.values().any(|&w| w < 0) {
        return None;
    }
    let d = AdjacencyListWeighted::<usize>::build(g);
    Some(
        DijkstraDist::new(&d, std::iter::once(s))
            .distances()
            .into_iter()
            .map(|x| if x == usize::MAX { INF } else { x as isize })
            .collect(),
    )
}

pub struct C07 {
    pub g: G,
    pub s: usize,
}

impl Case for C07 {
    fn prop(&self) -> &'static str {
        "C07"
    }

    fn run(&self) -> R {
        let (g, s) = (&self.g, self.s);
        let d = AdjacencyListWeighted::<isize>::build(g);
        let (neg, best) = simple_path_oracle(g, s);
        at("BellmanFordMoore::distances");
        let mut b = BellmanFordMoore::new(&d, s);
        let got = b.distances().map(<[isize]>::to_vec);
        if neg {
            ensure_eq!(
                format!("None because a negative-weight circuit is reachable from {s}"),
                None::<Vec<isize>>,
                got
            );
        } else {
            ensure_eq!(
                format!("Some(d) with d[v] the minimum walk weight from {s}, isize::MAX exactly when unreachable (no negative circuit is reachable)"),
                Some(to_isize(&best)),
                got.clone()
            );
            if let Some(dj) = dijkstra_row(g, s) {
                ensure_eq!(
                    "on non-negative weights BellmanFordMoore agrees with Dijkstra (expected = DijkstraDist)",
                    Some(dj),
                    got
                );
            }
        }
        Ok(())
    }

    fn fields(&self) -> Vec<(String, J)> {
        let mut f = vec![("repr".into(), J::s("AdjacencyListWeighted<isize>"))];
        f.extend(self.g.fields(true));
        f.push(("source".into(), J::u(self.s)));
        f.push((
            "arc_count_mod_4".into(),
            J::u(self.g.size() % 4),
        ));
        f
    }
}

pub struct C08 {
    pub g: G,
}

pub fn has_negative_circuit(g: &G) -> bool {
    (0..g.order()).any(|s| simple_path_oracle(g, s).0)
}

impl Case for C08 {
    fn prop(&self) -> &'static str {
        "C08"
    }

    fn run(&self) -> R {
        let g = &self.g;
        let n = g.order();
        let d = AdjacencyListWeighted::<isize>::build(g);
        at("FloydWarshall::distances");
        let mut fw = FloydWarshall::new(&d);
        let dm = fw.distances();
        for u in 0..n {
            let (_, best) = simple_path_oracle(g, u);
            let exp = to_isize(&best);
            let row: Vec<isize> = (0..n).map(|v| dm[(u, v)]).collect();
            ensure_eq!(format!("distances()[({u}, {u})] is 0 on the diagonal"), 0, row[u]);
            ensure_eq!(
                format!("row {u}: distances()[({u}, v)] is the minimum walk weight, isize::MAX exactly when v is unreachable"),
                exp.clone(),
                row.clone()
            );
            at("FloydWarshall::distances vs BellmanFordMoore::distances");
            let mut b = BellmanFordMoore::new(&d, u);
            ensure_eq!(
                format!("row {u} equals BellmanFordMoore from {u} (expected = BellmanFordMoore)"),
                b.distances().map(<[isize]>::to_vec),
                Some(row.clone())
            );
            if let Some(dj) = dijkstra_row(g, u) {
                at("FloydWarshall::distances vs DijkstraDist::distances");
                ensure_eq!(
                    format!("row {u} equals Dijkstra from {u} on non-negative weights (expected = DijkstraDist)"),
                    dj,
                    row
                );
            }
            at("FloydWarshall::distances");
        }
        Ok(())
    }

    fn fields(&self) -> Vec<(String, J)> {
        let mut f = vec![("repr".into(), J::s("AdjacencyListWeighted<isize>"))];
        f.extend(self.g.fields(true));
        f
    }
}

fn try_g(prop: &str, g: G, ctx: &mut Ctx) -> Option<J> {
    if prop == "C07" {
        for s in 0..g.order() {
            if let Some(f) = ctx.eval(&C07 { g: g.clone(), s }) {
                return Some(f);
            }
        }
        None
    } else if has_negative_circuit(&g) {
        None
    } else {
        ctx.eval(&C08 { g })
    }
}

/// Structured inputs for the four-times-unrolled relaxation loop and for
/// large weights:
///  * reversed paths n-1 -> n-2 -> ... -> 0 (arcs_weighted lists them in the
///    opposite order of propagation, so each pass has exactly ONE improving
///    arc, sitting at position n-1-k of the arc list in pass k: every
///    position modulo 4, for arc counts of every residue modulo 4), with and
///    without filler arcs that never improve;
///  * an arc whose tail is unreachable listed before a relaxable arc;
///  * a negative first leg (0->1:-1, 1->2:5, 0->2:5);
///  * weights near isize::MAX / 2 whose path sums still fit.
fn structured_sp() -> Vec<G> {
    let mut out = Vec::new();
    for n in 2..=9usize {
        for variant in 0..4 {
            let mut g = G::new(n);
            for v in 1..n {
                let w = match variant {
                    0 => 1,
                    1 => -1,
                    2 => [2, -3, 5, 0][v % 4],
                    _ => 5,
                };
                let _ = g.arcs.insert((v, v - 1), w);
            }
            if variant == 3 {
                // fillers that never improve anything (expensive shortcuts)
                for v in 2..n {
                    let _ = g.arcs.insert((v, 0), 5 * n as i64);
                }
            }
            out.push(g);
        }
        // vertex 0 is an unreachable tail whose arcs are listed first
        let mut g = G::new(n + 1);
        for v in 1..=n {
            let _ = g.arcs.insert((0, v), -3);
        }
        for v in 2..=n {
            let _ = g.arcs.insert((v, v - 1), 1);
        }
        out.push(g);
    }
    // negative first leg
    let mut g = G::new(3);
    for (u, v, w) in [(0, 1, -1), (1, 2, 5), (0, 2, 5)] {
        let _ = g.arcs.insert((u, v), w);
    }
    out.push(g);
    // weights near isize::MAX / 2 whose path sums still fit
    let b = i64::MAX / 2 - 10;
    for arcs in [
        vec![(0, 1, b), (1, 2, b), (0, 2, i64::MAX - 5)],
        vec![(0, 1, b), (1, 2, 5), (0, 2, b + 3)],
        vec![(0, 1, -b), (1, 2, -b), (2, 0, 2 * b + 1)],
        vec![(0, 1, b), (1, 2, -b), (2, 3, b), (0, 3, b + 1)],
        vec![(2, 1, b), (1, 0, b), (2, 0, i64::MAX - 1)],
    ] {
        let n = arcs.iter().map(|a| a.0.max(a.1) + 1).max().unwrap();
        let mut g = G::new(n);
        for (u, v, w) in arcs {
            let _ = g.arcs.insert((u, v), w);
        }
        out.push(g);
    }
    out
}

pub fn search(prop: &str, seed: u64, ctx: &mut Ctx) -> Option<J> {
    let mut rng = Rng::new(seed);
    // exhaustive: orders 1..3, every arc subset, every weight assignment
    // (arc counts 0..6 cover every residue modulo 4)
    for order in 1..=3usize {
        let np = order * (order - 1);
        for code in 0..7u64.pow(np as u32) {
            if let Some(f) = try_g(prop, g_from_code(order, code, &WEIGHTS), ctx) {
                return Some(f);
            }
            if code % 4096 == 0 && ctx.expired() {
                return None;
            }
        }
    }
    for g in structured_sp() {
        if let Some(f) = try_g(prop, g, ctx) {
            return Some(f);
        }
    }
    // seeded random: order 4 (sometimes 5), arc counts cycling through
    // 0..=max so that every residue modulo 4 is met equally often
    for i in 0..60_000usize {
        let order = if i % 5 == 4 { 5 } else { 4 };
        let max = order * (order - 1);
        let m = i % (max + 1);
        if let Some(f) = try_g(prop, random_g_m(&mut rng, order, m, &WEIGHTS), ctx) {
            return Some(f);
        }
        if i % 256 == 0 && ctx.expired() {
            return None;
        }
    }
    None
}

pub fn replay(prop: &str, j: &J) -> Result<Option<J>, String> {
    let g = G::from_json(j)?;
    if g.order() == 0 || !g.contiguous() {
        return Err("vertex set must be 0..order with order >= 1".into());
    }
    // the search itself goes up to order 10 (structured inputs)
    if g.order() > 10 {
        return Err("the brute-force oracle enumerates simple paths: order <= 10".into());
    }
    if largest_path_sum(&g) > isize::MAX as i128 {
        return Err("path sums must fit in isize".into());
    }
    if prop == "C07" {
        let s = j.req("source")?.usize()?;
        if s >= g.order() {
            return Err("source out of range".into());
        }
        Ok(crate::eval_case(&C07 { g, s }))
    } else {
        if has_negative_circuit(&g) {
            return Err("C08 is about digraphs without negative circuits".into());
        }
        Ok(crate::eval_case(&C08 { g }))
    }
}
