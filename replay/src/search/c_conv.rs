//! C16: From conversions between representations, and From<iterator of rows
//! / arcs> including the invalid inputs that must panic (per the rustdoc of
//! each impl in /repo/src/repr/*/mod.rs).

use {
    crate::{
        json::J,
        model::*,
        Case,
        Ctx,
    },
    graaf::*,
    std::collections::{
        BTreeMap,
        BTreeSet,
    },
};

pub enum C16 {
    /// `to::from(from::build(g))`, and the round trip when `to` is unweighted
    Convert { from: String, to: String, g: G },
    /// `repr::from(rows)`, rows of (head, weight); may be invalid
    Rows {
        repr: String,
        rows: Vec<Vec<(usize, i64)>>,
    },
    /// `repr::from(arcs)` for AdjacencyMatrix / EdgeList; may be invalid
    Arcs {
        repr: String,
        arcs: Vec<(usize, usize)>,
    },
}

fn conv_one_way<A: Dg, B: Dg + From<A>>(g: &G) -> Result<B, Fail> {
    at("From<representation>::from");
    let a = A::build(g);
    let b = B::from(a);
    // weights are all 1 in the model: into AdjacencyListWeighted every arc gets weight 1
    same_probed(
        &b,
        g,
        &format!("{}::from({}): same order, same arcs{}", B::NAME, A::NAME, if B::WEIGHTED { ", every weight 1" } else { "" }),
    )?;
    Ok(b)
}

fn conv_round<A: Dg + From<B>, B: Dg + From<A>>(g: &G) -> R {
    let b = conv_one_way::<A, B>(g)?;
    let a0 = A::build(g);
    let back = A::from(b);
    same(&back, g, &format!("round trip {0}::from({1}::from(d))", A::NAME, B::NAME))?;
    ensure!(
        format!("round trip {0}::from({1}::from(d)) == d", A::NAME, B::NAME),
        back == a0,
        format!("{back:?} != {a0:?}")
    );
    Ok(())
}

fn run_convert(from: &str, to: &str, g: &G) -> R {
    type L = AdjacencyList;
    type M = AdjacencyMap;
    type X = AdjacencyMatrix;
    type E = EdgeList;
    type WU = AdjacencyListWeighted<usize>;
    type WI = AdjacencyListWeighted<isize>;
    match (from, to) {
        ("AdjacencyList", "AdjacencyMap") => conv_round::<L, M>(g),
        ("AdjacencyList", "AdjacencyMatrix") => conv_round::<L, X>(g),
        ("AdjacencyList", "EdgeList") => conv_round::<L, E>(g),
        ("AdjacencyMap", "AdjacencyList") => conv_round::<M, L>(g),
        ("AdjacencyMap", "AdjacencyMatrix") => conv_round::<M, X>(g),
        ("AdjacencyMap", "EdgeList") => conv_round::<M, E>(g),
        ("AdjacencyMatrix", "AdjacencyList") => conv_round::<X, L>(g),
        ("AdjacencyMatrix", "AdjacencyMap") => conv_round::<X, M>(g),
        ("AdjacencyMatrix", "EdgeList") => conv_round::<X, E>(g),
        ("EdgeList", "AdjacencyList") => conv_round::<E, L>(g),
        ("EdgeList", "AdjacencyMap") => conv_round::<E, M>(g),
        ("EdgeList", "AdjacencyMatrix") => conv_round::<E, X>(g),
        ("AdjacencyList", "AdjacencyListWeighted<usize>") => conv_one_way::<L, WU>(g).map(|_| ()),
        ("AdjacencyMap", "AdjacencyListWeighted<usize>") => conv_one_way::<M, WU>(g).map(|_| ()),
        ("AdjacencyMatrix", "AdjacencyListWeighted<usize>") => conv_one_way::<X, WU>(g).map(|_| ()),
        ("EdgeList", "AdjacencyListWeighted<usize>") => conv_one_way::<E, WU>(g).map(|_| ()),
        ("AdjacencyList", "AdjacencyListWeighted<isize>") => conv_one_way::<L, WI>(g).map(|_| ()),
        ("AdjacencyMap", "AdjacencyListWeighted<isize>") => conv_one_way::<M, WI>(g).map(|_| ()),
        ("AdjacencyMatrix", "AdjacencyListWeighted<isize>") => conv_one_way::<X, WI>(g).map(|_| ()),
        ("EdgeList", "AdjacencyListWeighted<isize>") => conv_one_way::<E, WI>(g).map(|_| ()),
        _ => panic!("no conversion {from} -> {to}"),
    }
}

fn conv_pairs() -> Vec<(&'static str, &'static str)> {
    let mut p = Vec::new();
    for a in UNWEIGHTED {
        for b in ALL_REPRS {
            if a != b {
                p.push((a, b));
            }
        }
    }
    p
}

fn run_rows(repr: &str, rows: &[Vec<(usize, i64)>]) -> R {
    at("From<iterator of rows>::from");
    let n = rows.len();
    let invalid = n == 0
        || rows
            .iter()
            .enumerate()
            .any(|(u, r)| r.iter().any(|&(v, _)| v == u || v >= n));
    let sets = || -> Vec<BTreeSet<usize>> {
        rows.iter().map(|r| r.iter().map(|x| x.0).collect()).collect()
    };
    let what = format!("{repr}::from({rows:?})");
    macro_rules! go {
        ($build:expr) => {{
            if invalid {
                ensure!(
                    format!("{what}: rows with a self-loop, an out-of-range head, or no row at all panic"),
                    panics(|| $build),
                    "returned normally".to_string()
                );
            } else {
                let d = $build;
                let mut g = G::new(n);
                for (u, r) in rows.iter().enumerate() {
                    for &(v, w) in r {
                        let _ = g.arcs.insert((u, v), w);
                    }
                }
                same_probed(&d, &g, &format!("{what} holds exactly those rows"))?;
            }
        }};
    }
    match repr {
        "AdjacencyList" => go!(AdjacencyList::from(sets())),
        "AdjacencyMap" => go!(AdjacencyMap::from(sets())),
        "AdjacencyListWeighted<usize>" => go!(AdjacencyListWeighted::<usize>::from(
            rows.iter()
                .map(|r| r.iter().map(|&(v, w)| (v, w as usize)).collect::<BTreeMap<_, _>>())
                .collect::<Vec<_>>()
        )),
        "AdjacencyListWeighted<isize>" => go!(AdjacencyListWeighted::<isize>::from(
            rows.iter()
                .map(|r| r.iter().map(|&(v, w)| (v, w as isize)).collect::<BTreeMap<_, _>>())
                .collect::<Vec<_>>()
        )),
        other => panic!("{other} is not built from rows"),
    }
    Ok(())
}

fn run_arcs(repr: &str, arcs: &[(usize, usize)]) -> R {
    at("From<iterator of arcs>::from");
    let what = format!("{repr}::from({arcs:?})");
    let self_loop = arcs.iter().any(|&(u, v)| u == v);
    let mut g = G::new(arcs.iter().map(|&(u, v)| u.max(v) + 1).max().unwrap_or(1));
    for &(u, v) in arcs {
        if u != v {
            let _ = g.arcs.insert((u, v), 1);
        }
    }
    macro_rules! go {
        ($t:ty, $empty_panics:expr) => {{
            let build = || <$t>::from(arcs.iter().copied());
            if self_loop || (arcs.is_empty() && $empty_panics) {
                ensure!(
                    format!("{what}: a self-loop{} panics", if $empty_panics { " or an empty iterator" } else { "" }),
                    panics(build),
                    "returned normally".to_string()
                );
            } else if arcs.is_empty() {
                // not documented: either a panic or a valid digraph, never an invalid one
                if let Ok(d) = std::panic::catch_unwind(std::panic::AssertUnwindSafe(build)) {
                    ensure!(
                        format!("{what}: an empty iterator never produces an invalid digraph (order 0)"),
                        d.order() >= 1,
                        format!("{d:?}")
                    );
                    same_probed(&d, &G::new(d.order()), &what)?;
                }
            } else {
                let d = build();
                same_probed(&d, &g, &format!("{what}: order = largest id + 1 and exactly those arcs, duplicates collapsed"))?;
            }
        }};
    }
    match repr {
        // rustdoc: "Panics if `iter` is empty" / "Panics if ... `u` equals `v`"
        "AdjacencyMatrix" => go!(AdjacencyMatrix, true),
        // rustdoc: self-loop and usize::MAX ids panic; empty is not mentioned
        "EdgeList" => go!(EdgeList, false),
        other => panic!("{other} is not built from arcs"),
    }
    Ok(())
}

impl Case for C16 {
    fn prop(&self) -> &'static str {
        "C16"
    }

    fn run(&self) -> R {
        match self {
            C16::Convert { from, to, g } => run_convert(from, to, g),
            C16::Rows { repr, rows } => run_rows(repr, rows),
            C16::Arcs { repr, arcs } => run_arcs(repr, arcs),
        }
    }

    fn fields(&self) -> Vec<(String, J)> {
        match self {
            C16::Convert { from, to, g } => {
                let mut f = vec![
                    ("kind".into(), J::s("convert")),
                    ("from".into(), J::s(from)),
                    ("to".into(), J::s(to)),
                ];
                f.extend(g.fields(false));
                f
            }
            C16::Rows { repr, rows } => {
                let weighted = repr.starts_with("AdjacencyListWeighted");
                vec![
                    ("kind".into(), J::s("from_rows")),
                    ("repr".into(), J::s(repr)),
                    (
                        "rows".into(),
                        J::Arr(
                            rows.iter()
                                .map(|r| {
                                    J::Arr(
                                        r.iter()
                                            .map(|&(v, w)| {
                                                if weighted {
                                                    J::Arr(vec![J::u(v), J::n(w)])
                                                } else {
                                                    J::u(v)
                                                }
                                            })
                                            .collect(),
                                    )
                                })
                                .collect(),
                        ),
                    ),
                ]
            }
            C16::Arcs { repr, arcs } => vec![
                ("kind".into(), J::s("from_arcs")),
                ("repr".into(), J::s(repr)),
                (
                    "arcs".into(),
                    J::Arr(
                        arcs.iter()
                            .map(|&(u, v)| J::Arr(vec![J::u(u), J::u(v)]))
                            .collect(),
                    ),
                ),
            ],
        }
    }
}

const ROW_REPRS: [&str; 4] = [
    "AdjacencyList",
    "AdjacencyMap",
    "AdjacencyListWeighted<usize>",
    "AdjacencyListWeighted<isize>",
];

fn random_rows(rng: &mut Rng, repr: &str) -> Vec<Vec<(usize, i64)>> {
    let n = rng.below(6);
    let bad = rng.below(4); // 0: valid, 1: self-loop, 2: out-of-range head, 3: anything
    let mut rows: Vec<Vec<(usize, i64)>> = vec![Vec::new(); n];
    for u in 0..n {
        for v in 0..n {
            if v != u && rng.chance(2, 5) {
                let w = if repr.ends_with("<isize>") {
                    rng.below(12) as i64 - 4
                } else if repr.ends_with("<usize>") {
                    rng.below(9) as i64
                } else {
                    1
                };
                rows[u].push((v, w));
            }
        }
    }
    if n > 0 {
        let u = rng.below(n);
        match bad {
            1 => rows[u].push((u, 1)),
            2 => rows[u].push((n + rng.below(2) * 1000, 1)),
            3 if rng.chance(1, 2) => rows[u].push((rng.below(n + 2), 1)),
            _ => {}
        }
        rows[u].sort_unstable();
        rows[u].dedup_by_key(|x| x.0);
    }
    rows
}

pub fn search_c16(seed: u64, ctx: &mut Ctx) -> Option<J> {
    let mut rng = Rng::new(seed);
    // the degenerate inputs first
    for repr in ROW_REPRS {
        for rows in [vec![], vec![vec![]], vec![vec![(0, 1)]], vec![vec![(1, 1)]], vec![vec![(1, 1)], vec![]]] {
            let c = C16::Rows {
                repr: repr.to_string(),
                rows,
            };
            if let Some(f) = ctx.eval(&c) {
                return Some(f);
            }
        }
    }
    for repr in ["AdjacencyMatrix", "EdgeList"] {
        for arcs in [vec![], vec![(0, 0)], vec![(0, 1)], vec![(0, 1), (0, 1)], vec![(2, 1), (1, 1)], vec![(3, 7)]] {
            let c = C16::Arcs {
                repr: repr.to_string(),
                arcs,
            };
            if let Some(f) = ctx.eval(&c) {
                return Some(f);
            }
        }
    }
    // conversions: every digraph of order <= 3 (then 4), every ordered pair
    for order in 1..=4usize {
        for mask in 0..(1u64 << (order * (order - 1))) {
            let g = g_from_mask(order, mask);
            for (a, b) in conv_pairs() {
                let c = C16::Convert {
                    from: a.to_string(),
                    to: b.to_string(),
                    g: g.clone(),
                };
                if let Some(f) = ctx.eval(&c) {
                    return Some(f);
                }
            }
            if ctx.expired() {
                return None;
            }
        }
    }
    for i in 0..4000usize {
        let order = match rng.below(8) {
            0 => 8 + rng.below(3),
            _ => 5 + rng.below(2),
        };
        let g = random_g(&mut rng, order, &[]);
        for (a, b) in conv_pairs() {
            let c = C16::Convert {
                from: a.to_string(),
                to: b.to_string(),
                g: g.clone(),
            };
            if let Some(f) = ctx.eval(&c) {
                return Some(f);
            }
        }
        for repr in ROW_REPRS {
            let rows = random_rows(&mut rng, repr);
            let c = C16::Rows {
                repr: repr.to_string(),
                rows,
            };
            if let Some(f) = ctx.eval(&c) {
                return Some(f);
            }
        }
        for repr in ["AdjacencyMatrix", "EdgeList"] {
            let k = rng.below(9);
            let span = if rng.chance(1, 10) { 70 } else { 7 };
            let top = 1 + rng.below(span);
            let mut arcs: Vec<(usize, usize)> = (0..k)
                .map(|_| {
                    let u = rng.below(top);
                    let mut v = rng.below(top);
                    // self-loops stay rare so that most inputs are valid
                    if u == v && rng.chance(4, 5) {
                        v = u + 1;
                    }
                    (u, v)
                })
                .collect();
            if !arcs.is_empty() && rng.chance(1, 3) {
                arcs.push(arcs[0]);
            }
            let c = C16::Arcs {
                repr: repr.to_string(),
                arcs,
            };
            if let Some(f) = ctx.eval(&c) {
                return Some(f);
            }
        }
        if i % 32 == 0 && ctx.expired() {
            return None;
        }
    }
    None
}

pub fn replay_c16(j: &J) -> Result<Option<J>, String> {
    let c = match j.req("kind")?.str()? {
        "convert" => {
            let from = j.req("from")?.str()?.to_string();
            let to = j.req("to")?.str()?.to_string();
            if !conv_pairs().iter().any(|&(a, b)| a == from && b == to) {
                return Err(format!("no conversion {from} -> {to}"));
            }
            let g = G::from_json(j)?;
            if g.order() == 0 || !g.contiguous() {
                return Err("conversions need vertex set 0..order, order >= 1".into());
            }
            let mut g1 = g;
            for w in g1.arcs.values_mut() {
                *w = 1;
            }
            C16::Convert { from, to, g: g1 }
        }
        "from_rows" => {
            let repr = j.req("repr")?.str()?.to_string();
            if !ROW_REPRS.contains(&repr.as_str()) {
                return Err(format!("{repr} is not built from rows"));
            }
            let mut rows = Vec::new();
            for r in j.req("rows")?.arr()? {
                let mut row = Vec::new();
                for x in r.arr()? {
                    match x {
                        J::Arr(p) if p.len() == 2 => row.push((p[0].usize()?, p[1].i64()?)),
                        other => row.push((other.usize()?, 1)),
                    }
                }
                if repr.ends_with("<usize>") && row.iter().any(|x| x.1 < 0) {
                    return Err("negative weight for usize".into());
                }
                rows.push(row);
            }
            C16::Rows { repr, rows }
        }
        "from_arcs" => {
            let repr = j.req("repr")?.str()?.to_string();
            if repr != "AdjacencyMatrix" && repr != "EdgeList" {
                return Err(format!("{repr} is not built from arcs"));
            }
            let mut arcs = Vec::new();
            for a in j.req("arcs")?.arr()? {
                let a = a.usizes()?;
                if a.len() != 2 {
                    return Err("arc needs [u, v]".into());
                }
                if a[0] > 2000 || a[1] > 2000 {
                    return Err("ids above 2000 are refused in a replay (matrix allocation)".into());
                }
                arcs.push((a[0], a[1]));
            }
            C16::Arcs { repr, arcs }
        }
        o => return Err(format!("unknown kind {o}")),
    };
    Ok(crate::eval_case(&c))
}
