#!/usr/bin/env python3
"""Mutation sanity test for the searcher: apply one mutation to the scratch
copy of graaf, rebuild the scratch replay crate, run the matching search and
replay the FOUND json."""
import subprocess, sys, os, shutil, time

# usage: python3 /verif/replay/tools/mutation_sanity.py [substring of mutation name ...]
# Creates /tmp/rs_scratch (copy of /repo: src + Cargo.toml + Cargo.lock) and
# /tmp/replay_scratch (copy of /verif/replay pointed at it), applies each
# mutation in turn, and deletes both scratch copies at the end.


def setup():
    for d in ("/tmp/rs_scratch", "/tmp/replay_scratch"):
        shutil.rmtree(d, ignore_errors=True)
        os.makedirs(d)
    shutil.copytree("/repo/src", "/tmp/rs_scratch/src")
    for f in ("Cargo.toml", "Cargo.lock"):
        shutil.copy("/repo/" + f, "/tmp/rs_scratch/" + f)
        shutil.copy("/verif/replay/" + f, "/tmp/replay_scratch/" + f)
    shutil.copytree("/verif/replay/src", "/tmp/replay_scratch/src")
    os.makedirs("/tmp/replay_scratch/.cargo")
    open("/tmp/replay_scratch/.cargo/config.toml", "w").write(
        '[net]\noffline = true\n[build]\ntarget-dir = "/tmp/replay_scratch/target"\n')
    t = open("/tmp/replay_scratch/Cargo.toml").read().replace('path = "/repo"', 'path = "/tmp/rs_scratch"')
    open("/tmp/replay_scratch/Cargo.toml", "w").write(t)


def teardown():
    for d in ("/tmp/rs_scratch", "/tmp/replay_scratch"):
        shutil.rmtree(d, ignore_errors=True)

SRC = "/tmp/rs_scratch/src/"
BIN = "/tmp/replay_scratch/target/release/search"
# e.g. MUT_PREFIX="taskset -c 0-2" runs every search / replay under that CPU affinity
PREFIX = os.environ.get("MUT_PREFIX", "").split()

# (name, file, old, new, [properties expected to FIND it], occurrence index)
MUTS = [
    ("AdjacencyList::complete chunks by order / t instead of order.div_ceil(t)", "repr/adjacency_list/mod.rs",
     "let chunk_size = order.div_ceil(t);", "let chunk_size = order / t;", ["C17", "C14"], 1),
    ("AdjacencyMatrix ArcsIterator shifts by bit + 1 (shift by 64 = endless loop when bit 63 is alone)", "repr/adjacency_matrix/mod.rs",
     "                self.current_bits &= self.current_bits - 1;\n\n                let cell_index = self.current_base + bit;",
     "                let cell_index = self.current_base + bit;\n                self.current_bits >>= bit + 1;\n                self.current_base = cell_index + 1;", ["C01", "C02"], 0),
    ("AdjacencyMatrix::complete allocates one spare block (invisible to every query, visible to ==)", "repr/adjacency_matrix/mod.rs",
     "        let mut digraph = Self::empty(order);\n\n        for u in 0..order {\n            for v in (u + 1)..order {\n                digraph.add_arc(u, v);\n                digraph.add_arc(v, u);",
     "        let mut digraph = Self::empty(order);\n        digraph.blocks.push(0);\n\n        for u in 0..order {\n            for v in (u + 1)..order {\n                digraph.add_arc(u, v);\n                digraph.add_arc(v, u);", ["C20"], 0),
    ("EdgeList == ignores the order (manual PartialEq)", "repr/edge_list/mod.rs",
     "#[derive(Clone, Debug, Eq, Hash, Ord, PartialEq, PartialOrd)]\npub struct EdgeList {\n    arcs: BTreeSet<(usize, usize)>,\n    order: usize,\n}",
     "#[derive(Clone, Debug, Eq, Hash, Ord, PartialOrd)]\npub struct EdgeList {\n    arcs: BTreeSet<(usize, usize)>,\n    order: usize,\n}\nimpl PartialEq for EdgeList { fn eq(&self, o: &Self) -> bool { self.arcs == o.arcs } }", ["C20"], 0),
    ("EdgeList::from(arcs) takes the order from the tails only", "repr/edge_list/mod.rs",
     "order = order.max(u).max(v);", "order = order.max(u);", ["C20", "C16"], 0),
    ("AdjacencyListWeighted re-adding keeps the first weight", "repr/adjacency_list_weighted/mod.rs",
     "let _ = self.arcs[u].insert(v, w);", "let _ = self.arcs[u].entry(v).or_insert(w);", ["C20", "C01"], 0),
    ("AdjacencyMatrix::toggle leaves a stray padding bit behind (remove via toggle)", "repr/adjacency_matrix/mod.rs",
     "unsafe { *self.blocks.get_unchecked_mut(i >> 6) ^= Self::mask(i) };",
     "unsafe { *self.blocks.get_unchecked_mut(i >> 6) ^= Self::mask(i) };\n        if self.order == 3 { if let Some(l) = self.blocks.last_mut() { *l |= 1 << 40; } }", ["C20"], 0),
    ("Tarjan drops the on_stack test (cross arcs into finished components lower the low-link)", "algo/tarjan.rs",
     "if self.on_stack.contains(&v) {", "if true || self.on_stack.contains(&v) {", ["C09"], 0),
    ("Tarjan pop loop breaks before inserting the root", "algo/tarjan.rs",
     "                let _ = self.on_stack.remove(&v);\n                let _ = component.insert(v);\n\n                if u == v {\n                    break;\n                }",
     "                let _ = self.on_stack.remove(&v);\n                if u == v {\n                    break;\n                }\n                let _ = component.insert(v);", ["C09"], 0),
    ("Tarjan ignores the low-link of a finished child", "algo/tarjan.rs",
     ".insert(u, self.low_link[&u].min(self.low_link[&v]));", ".insert(u, self.low_link[&u]);", ["C09"], 0),
    ("Tarjan never removes popped vertices from on_stack", "algo/tarjan.rs",
     "                let _ = self.on_stack.remove(&v);\n", "", ["C09"], 0),
    # (equivalent mutants, correctly not reported: dropping `blocked.remove(&vertex)` /
    #  `b_set.clear()` between start vertices - Johnson's invariant leaves both empty -
    #  and replacing the blocked test by `!stack.contains(&w)`, a plain simple-path DFS)
    ("Johnson75 does not record failed vertices in the B-lists", "algo/johnson_75.rs",
     "let _ = unsafe { (*b_ptr.add(w)).insert(v) };", "let _ = w;", ["C10"], 0),
    ("Johnson75 picks the component with the largest least vertex", "algo/johnson_75.rs",
     "components.iter().min_by_key(|scc| scc.iter().min())", "components.iter().max_by_key(|scc| scc.iter().min())", ["C10"], 0),
    ("Johnson75 skips unblock after a successful search", "algo/johnson_75.rs",
     "        if f {\n            self.unblock(v);", "        if f {\n            let _ = self.blocked.remove(&v);", ["C10"], 0),
    ("Johnson75 start-vertex filter off by one (u > s)", "algo/johnson_75.rs",
     "self.a.filter_vertices(|u| u >= s);", "self.a.filter_vertices(|u| u > s || (u == s && s + 1 == self.a.order()));", ["C10"], 0),
    ("Johnson75 unblock forgets the B-lists", "algo/johnson_75.rs",
     "            while let Some(v) = unsafe { (*b_ptr.add(u)).pop_first() } {\n                self.unblock(v);\n            }",
     "            unsafe { (*b_ptr.add(u)).clear() };", ["C10"], 0),
    ("AdjacencyList::is_semicomplete skips the last partial chunk of rows", "repr/adjacency_list/mod.rs",
     "                let end = order.min(start + chunk_size);",
     "                let end = if start + chunk_size > order { start } else { start + chunk_size };", ["C12", "C17"], 0),
    ("AdjacencyList::complement drops the last partial chunk of rows", "repr/adjacency_list/mod.rs",
     "            let end = order.min(start + chunk_size);",
     "            let end = if start + chunk_size > order { start } else { order.min(start + chunk_size) };", ["C11", "C17"], 0),
    ("AdjacencyList::union leaves the last row of a partial chunk empty", "repr/adjacency_list/mod.rs",
     "let chunk_end = (chunk_start + chunk_size).min(order);",
     "let chunk_end = if chunk_start + chunk_size > order { order - 1 } else { chunk_start + chunk_size };", ["C11", "C17"], 0),
    ("AdjacencyList::degree_sequence has one indegree buffer too few", "repr/adjacency_list/mod.rs",
     "vec![vec![0_usize; order]; t];", "vec![vec![0_usize; order]; t - 1];", ["C02", "C17"], 0),
    ("Dijkstra relaxation wraps instead of saturating", "algo/dijkstra.rs",
     "w_prev.saturating_add(*w)", "w_prev.wrapping_add(*w)", ["C03"], 0),
    ("DijkstraDist relaxation wraps instead of saturating", "algo/dijkstra_dist.rs",
     "w_prev.saturating_add(*w)", "w_prev.wrapping_add(*w)", ["C03"], 0),
    ("DijkstraPred relaxation wraps instead of saturating", "algo/dijkstra_pred.rs",
     "distance.saturating_add(*w)", "distance.wrapping_add(*w)", ["C05"], 0),
    ("DijkstraDist stops scanning out-neighbours after a saturated sum", "algo/dijkstra_dist.rs",
     "let w_next = w_prev.saturating_add(*w);", "let w_next = w_prev.saturating_add(*w);\n                if w_next == usize::MAX { break; }", ["C03"], 0),
    ("PredecessorTree::search_by loses the visited check (hangs on cycles)", "algo/predecessor_tree.rs",
     "if unsafe { *visited_ptr.add(v) } {", "if false && unsafe { *visited_ptr.add(v) } {", ["C19"], 0),
    ("PredecessorTree::search_by visited bitmap indexed by v % 32", "algo/predecessor_tree.rs",
     "visited_ptr.add(v)", "visited_ptr.add(v % 32)", ["C19"], "all"),
    ("Bfs::next visited indexed by v % 64", "algo/bfs.rs",
     "let visited_v = unsafe { visited_ptr.add(v) };", "let visited_v = unsafe { visited_ptr.add(v % 64) };", ["C04"], 0),
    ("Bfs::new does not mark sources visited", "algo/bfs.rs",
     "                *visited_ptr.add(u) = true;", "", ["C04"], 0),
    ("Dfs::next visited indexed by % 128", "algo/dfs.rs",
     "visited_ptr.add(v)", "visited_ptr.add(v % 128)", ["C06"], 0),
    ("AdjacencyMatrix::has_arc forgets v >= order", "repr/adjacency_matrix/mod.rs",
     "        if u >= self.order || v >= self.order {\n            return false;\n        }\n\n        let i = self.index(u, v);\n\n        self.blocks[i >> 6] & Self::mask(i) != 0",
     "        if u >= self.order {\n            return false;\n        }\n\n        let i = self.index(u, v);\n\n        self.blocks.get(i >> 6).is_some_and(|b| b & Self::mask(i) != 0)", ["C01", "C02"], 0),
    ("AdjacencyMatrix::union ORs the blocks when the block counts are equal", "repr/adjacency_matrix/mod.rs",
     "    fn union(&self, other: &Self) -> Self {\n        let (mut union, other) = if self.order() > other.order() {",
     "    fn union(&self, other: &Self) -> Self {\n        if self.blocks.len() == other.blocks.len() {\n            let mut u = if self.order() > other.order() { self.clone() } else { other.clone() };\n            let o = if self.order() > other.order() { other } else { self };\n            for (a, b) in u.blocks.iter_mut().zip(&o.blocks) { *a |= *b; }\n            return u;\n        }\n        let (mut union, other) = if self.order() > other.order() {", ["C11"], 0),
    ("AdjacencyMap::filter_vertices drops a kept vertex without kept neighbours", "repr/adjacency_map/mod.rs",
     "            if predicate(u) {\n                let _ = arcs.entry(u).or_default();", "            if predicate(u) {", ["C11"], 0),
    ("AdjacencyList::star truncates the hub row at id 128", "repr/adjacency_list/mod.rs",
     "arcs: once((1..order).collect())", "arcs: once((1..order.min(129)).collect())", ["C14"], 0),
    ("DistanceMatrix::eccentricities skips column 0", "algo/distance_matrix.rs",
     "row.iter().max()", "row.iter().skip(1).max()", ["C18"], 0),
    ("BellmanFordMoore 3rd unrolled relaxation never updates", "algo/bellman_ford_moore.rs",
     "THIRD", None, ["C07"], 0),
    ("FloydWarshall treats weights >= isize::MAX / 2 as infinite", "algo/floyd_warshall.rs",
     "if a == isize::MAX {", "if a >= isize::MAX / 2 {", ["C08"], 0),
    ("AdjacencyMatrix::mask uses u & 31", "repr/adjacency_matrix/mod.rs",
     "1 << (u & 63)", "1 << (u & 31)", ["C01", "C14"], 0),
    ("AdjacencyMatrix::remove_arc clears the whole block", "repr/adjacency_matrix/mod.rs",
     "self.blocks[i >> 6] &= !Self::mask(i);", "self.blocks[i >> 6] = 0;", ["C01"], 0),
    ("AdjacencyList::complete drops the last vertex row when order > 40", "repr/adjacency_list/mod.rs",
     "                    local.push((u, out_neighbors));",
     "                    if order > 40 && u == order - 1 { out_neighbors.clear(); }\n                    local.push((u, out_neighbors));", ["C14"], 0),
    ("matrix toggle ^= -> |=", "repr/adjacency_matrix/mod.rs",
     "*self.blocks.get_unchecked_mut(i >> 6) ^= Self::mask(i)",
     "*self.blocks.get_unchecked_mut(i >> 6) |= Self::mask(i)", ["C01", "C20"], 0),
    ("BfsDist w + 1 -> w + 2", "algo/bfs_dist.rs",
     "let w_next = w + 1;", "let w_next = w + 2;", ["C04"], 0),
    ("EdgeList::add_arc drops the self-loop check", "repr/edge_list/mod.rs",
     '''        assert_ne!(u, v, "u = {u} equals v = {v}");\n''',
     "", ["C01"], 0),
    ("AdjacencyMatrix::circuit forgets the closing arc", "repr/adjacency_matrix/mod.rs",
     "        digraph.add_arc(order - 1, 0);\n", "", ["C14"], 0),
    ("DistanceMatrix::center keeps the larger eccentricity (>)", "algo/distance_matrix.rs",
     "match e.cmp(&min) {", "match min.cmp(&e) {", ["C18"], 0),
    ("Dijkstra relaxes with <= (duplicate heap entries)", "algo/dijkstra.rs",
     "if w_next < *dist_v {", "if w_next <= *dist_v {", ["C03"], 0),
    ("DijkstraPred::shortest_path forgets path.reverse()", "algo/dijkstra_pred.rs",
     "                        path.reverse();\n", "", ["C05"], 0),
    ("BfsPred::cycles forgets path.reverse()", "algo/bfs_pred.rs",
     "                    path.reverse();\n                    cycles.push(path);",
     "                    cycles.push(path);", ["C05"], 0),
    ("DfsDist depth w + 1 -> w + 2", "algo/dfs_dist.rs",
     "let w = w + 1;", "let w = w + 2;", ["C06"], 0),
    ("BellmanFordMoore never reports a negative circuit", "algo/bellman_ford_moore.rs",
     "if dist_u != isize::MAX && *dist_ptr.add(v) > dist_u + w {",
     "if false && dist_u != isize::MAX && *dist_ptr.add(v) > dist_u + w {", ["C07"], 0),
    ("BellmanFordMoore 4th unrolled relaxation never updates", "algo/bellman_ford_moore.rs",
     None, None, ["C07"], 0),
    ("FloydWarshall forgets the zero diagonal", "algo/floyd_warshall.rs",
     "                *dist_ptr.add(i * order + i) = 0;", "", ["C08"], 0),
    ("EdgeList::converse is the identity", "repr/edge_list/mod.rs",
     "arcs: self.arcs.iter().map(|&(u, v)| (v, u)).collect(),",
     "arcs: self.arcs.iter().map(|&(u, v)| (u, v)).collect(),", ["C11"], 0),
    ("AdjacencyList::union ignores rows of `other` beyond self.order", "repr/adjacency_list/mod.rs",
     "let set_b = if u < other.order() {", "let set_b = if u < other.order() && u < self.order() {", ["C11"], 0),
    ("is_symmetric uses any instead of all", "op/is_symmetric.rs",
     "self.arcs().all(|(u, v)| self.has_arc(v, u))",
     "self.arcs().any(|(u, v)| self.has_arc(v, u))", ["C12"], 0),
    ("EdgeList::has_edge uses ||", "repr/edge_list/mod.rs",
     "        self.has_arc(u, v) && self.has_arc(v, u)", "        self.has_arc(u, v) || self.has_arc(v, u)", ["C02"], 0),
    ("AdjacencyList::random_tournament drops the arc when the coin is false", "repr/adjacency_list/mod.rs",
     "let _ = unsafe { arcs.get_unchecked_mut(v).insert(u) };", "", ["C15"], 0),
    ("From<AdjacencyList> for EdgeList reverses every arc", "repr/edge_list/mod.rs",
     "                    h.add_arc(u, v);", "                    h.add_arc(v, u);", ["C16"], 0),
    ("PredecessorTree::search matches v >= t", "algo/predecessor_tree.rs",
     "self.search_by(s, |&v, _| v == t)", "self.search_by(s, |&v, _| v >= t)", ["C19"], 0),
    ("AdjacencyMap::remove_arc also forgets the tail vertex when its row empties", "repr/adjacency_map/mod.rs",
     "        self.arcs.get_mut(&u).is_some_and(|set| set.remove(&v))",
     "        let r = self.arcs.get_mut(&u).is_some_and(|set| set.remove(&v));\n        if r && self.arcs.get(&u).is_some_and(|s| s.is_empty()) && u > 3 { let _ = self.arcs.remove(&u); }\n        r", ["C01", "C20"], 0),
]


def run(cmd, **kw):
    return subprocess.run(cmd, capture_output=True, text=True, **kw)


def build():
    r = run(["cargo", "build", "--release", "--bin", "search"], cwd="/tmp/replay_scratch",
            env=dict(os.environ, CARGO_NET_OFFLINE="true"))
    if r.returncode != 0:
        print(r.stderr[-3000:])
        raise SystemExit("build failed")


def main():
    only = sys.argv[1:]
    ok = True
    setup()
    for (name, rel, old, new, props, occ) in MUTS:
        if only and not any(o.lower() in name.lower() for o in only):
            continue
        path = SRC + rel
        orig = open(path).read()
        if old == "THIRD":
            marker = "if *dist_v > w {"
            idx = [i for i in range(len(orig)) if orig.startswith(marker, i)]
            assert len(idx) == 4, idx
            mutated = orig[:idx[2]] + "if *dist_v > w && false {" + orig[idx[2] + len(marker):]
        elif old is None:
            # special: 4th unrolled block of BFM (the last `if *dist_v > w {` before `i += 1;\n            }`)
            marker = "if *dist_v > w {"
            idx = [i for i in range(len(orig)) if orig.startswith(marker, i)]
            assert len(idx) == 4, idx
            mutated = orig[:idx[3]] + "if *dist_v > w && false {" + orig[idx[3] + len(marker):]
        else:
            assert orig.count(old) >= 1, "pattern not found for " + name
            if occ == "all":
                mutated = orig.replace(old, new)
            elif isinstance(occ, int) and occ > 0:
                idx = [i for i in range(len(orig)) if orig.startswith(old, i)]
                mutated = orig[:idx[occ]] + new + orig[idx[occ] + len(old):]
            else:
                mutated = orig.replace(old, new, 1)
        open(path, "w").write(mutated)
        try:
            build()
            for p in props:
                t = time.time()
                r = run(PREFIX + [BIN, p, "1"])
                dt = time.time() - t
                out = r.stdout.strip()
                found = out.startswith("FOUND ")
                rep = ""
                if found:
                    rr = run(PREFIX + [BIN, p, "--replay", out[6:]])
                    rep = "replay:" + rr.stdout.strip()[:5]
                    if not rr.stdout.startswith("FOUND"):
                        ok = False
                        rep += " (stderr: %s)" % rr.stderr.strip()[:200]
                else:
                    ok = False
                print("MUTATION %-75s %s %4.1fs %s %s" % (name, p, dt, "FOUND" if found else "MISSED:" + out, rep))
                if found:
                    print("    " + out[:700])
        finally:
            open(path, "w").write(orig)
    build()
    # the restored tree must be clean again
    for p in ["C01", "C14"]:
        r = run([BIN, p, "1"])
        print("restored tree", p, r.stdout.strip()[:60])
    print("ALL FOUND" if ok else "SOME MISSED")


try:
    main()
finally:
    teardown()
