//@unit props=C01,C02,C14,C16,C13 tier=quick rlimit=30
//@file src/repr/adjacency_map/mod.rs
#![feature(allocator_api)]
use vstd::prelude::*;
use vstd::set_lib::*;
use vstd::slice::SliceIndexSpec;
use vstd::std_specs::iter::IteratorSpec;
use std::collections::BTreeMap;
use std::collections::BTreeSet;
use std::collections::btree_map;
use std::collections::btree_set;
use std::collections::btree_map::Entry;
use std::alloc::Allocator;
verus! {
global size_of usize == 8;
//@include prelude/std_contracts.rs
//@include prelude/list_core_std.rs
//@include prelude/weighted_map_std.rs
//@include prelude/list_ops_std.rs
//@include prelude/iter_wrappers.rs
//@include prelude/blanket_std.rs
//@include prelude/c13left_std.rs
//@include prelude/wm_more_std.rs
//@import units/inc/map_arcs.inc.rs

//@import units/inc/map_core.inc.rs
//@import units/inc/map_ctor_core.inc.rs

//@include units/inc/map_more.inc.rs
} // verus!
fn main() {}
